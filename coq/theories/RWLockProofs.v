(* RWLockProofs.v — C16: the theorems about the abstract readers-writer system [rw_step]
   (RWLock.v), for ANY number of threads and ANY number of rounds per thread.
   RWLockTie.v transfers them to the interpreter running the program regenerated from rwlock.py. *)
From Coq Require Import List ZArith Bool Lia Arith.
From PyCasbin Require Import Base RWLockLang RWLock.
Import ListNotations.

(* ------------------------------------------------------------------ counting *)
Definition cnt (p : phase) (l : list thread) : nat :=
  length (filter (fun t => phase_eqb (ph t) p) l).

Lemma phase_eqb_eq a b : phase_eqb a b = true <-> a = b.
Proof.
  destruct a as [|[|]|[|]|[|]], b as [|[|]|[|]|[|]]; simpl; split; intro H;
    try reflexivity; try discriminate.
Qed.

Lemma phase_eqb_refl a : phase_eqb a a = true.
Proof. apply phase_eqb_eq. reflexivity. Qed.

Lemma cnt_cons p t l :
  cnt p (t :: l) = ((if phase_eqb (ph t) p then 1 else 0) + cnt p l)%nat.
Proof. unfold cnt. simpl. destruct (phase_eqb (ph t) p); reflexivity. Qed.

Lemma cnt_upd p i x l t : nth_error l i = Some t ->
  (cnt p (upd i x l) + (if phase_eqb (ph t) p then 1 else 0)
   = cnt p l + (if phase_eqb (ph x) p then 1 else 0))%nat.
Proof.
  revert i; induction l as [|y r IH]; intros [|j] H; simpl in *; try discriminate.
  - injection H as ->. rewrite !cnt_cons. lia.
  - specialize (IH j H). rewrite !cnt_cons. lia.
Qed.

Lemma cnt_wake l :
  cnt (Sleep Rd) (map wake l) = 0%nat /\ cnt (Sleep Wr) (map wake l) = 0%nat /\
  cnt (Woken Rd) (map wake l) = (cnt (Woken Rd) l + cnt (Sleep Rd) l)%nat /\
  cnt (Woken Wr) (map wake l) = (cnt (Woken Wr) l + cnt (Sleep Wr) l)%nat /\
  cnt (Inside Rd) (map wake l) = cnt (Inside Rd) l /\
  cnt (Inside Wr) (map wake l) = cnt (Inside Wr) l /\
  cnt Idle (map wake l) = cnt Idle l.
Proof.
  unfold cnt. induction l as [|[p td] r IH]; [repeat split; reflexivity|].
  destruct IH as (A & B & C & D & E & F & G).
  destruct p as [|[|]|[|]|[|]]; cbn -[Nat.add] in *; repeat split; lia.
Qed.

Lemma nth_wake l i t : nth_error l i = Some t -> nth_error (map wake l) i = Some (wake t).
Proof. intro H. apply map_nth_error. exact H. Qed.

Lemma nth_upd_same {A} (l : list A) i x t :
  nth_error l i = Some t -> nth_error (upd i x l) i = Some x.
Proof. revert i; induction l as [|y r IH]; intros [|j] H; simpl in *; try discriminate; auto. Qed.

Lemma nth_upd_other {A} (l : list A) i j x : j <> i -> nth_error (upd i x l) j = nth_error l j.
Proof.
  revert i j; induction l as [|y r IH]; intros [|i] [|j] H; simpl; auto; try congruence.
Qed.

Lemma upd_length {A} (l : list A) i x : length (upd i x l) = length l.
Proof. revert i; induction l as [|y r IH]; intros [|j]; simpl; auto. Qed.

Lemma cnt_nth p l i t : nth_error l i = Some t -> ph t = p -> (0 < cnt p l)%nat.
Proof.
  revert i; induction l as [|y r IH]; intros [|j] H E; simpl in *; try discriminate; rewrite cnt_cons.
  - injection H as ->. rewrite E, phase_eqb_refl. lia.
  - specialize (IH j H E). lia.
Qed.

Lemma cnt_pos p l : (0 < cnt p l)%nat -> exists i t, nth_error l i = Some t /\ ph t = p.
Proof.
  induction l as [|y r IH]; intro H; [unfold cnt in H; simpl in H; lia|].
  rewrite cnt_cons in H. destruct (phase_eqb (ph y) p) eqn:E.
  - exists 0%nat, y. split; [reflexivity | apply phase_eqb_eq; exact E].
  - destruct IH as (i & t & Hi & Ht); [lia|]. exists (S i), t. split; assumption.
Qed.

Lemma cnt_unique p l i j t u : (cnt p l <= 1)%nat ->
  nth_error l i = Some t -> ph t = p -> nth_error l j = Some u -> ph u = p -> i = j.
Proof.
  revert i j; induction l as [|y r IH]; intros [|i] [|j] H Hi Et Hj Eu; simpl in *;
    try discriminate; try reflexivity; rewrite cnt_cons in H.
  - injection Hi as ->. rewrite Et, phase_eqb_refl in H. pose proof (cnt_nth _ _ _ _ Hj Eu). lia.
  - injection Hj as ->. rewrite Eu, phase_eqb_refl in H. pose proof (cnt_nth _ _ _ _ Hi Et). lia.
  - f_equal. apply (IH i j); auto. lia.
Qed.

Lemma phase_of_iff c i p :
  phase_of c i = Some p <-> exists t, nth_error (ths c) i = Some t /\ ph t = p.
Proof.
  unfold phase_of. destruct (nth_error (ths c) i) as [t|]; split.
  - intro H. injection H as <-. eauto.
  - intros (u & H & E). injection H as ->. congruence.
  - discriminate.
  - intros (u & H & _). discriminate.
Qed.

(* ------------------------------------------------------------------ the inductive invariant *)
Definition Inv (c : conf) : Prop :=
  (* 1 *) ar c = Z.of_nat (cnt (Inside Rd) (ths c)) /\
  (* 2 *) cnt (Inside Wr) (ths c) = (if wa c then 1 else 0)%nat /\
  (* 3 *) (wa c = true -> ar c = 0%Z) /\
  (* 4 *) ww c = Z.of_nat (cnt (Sleep Wr) (ths c) + cnt (Woken Wr) (ths c)) /\
  (* 5 no reader sleeps with its wait condition false *)
          ((0 < cnt (Sleep Rd) (ths c))%nat -> (0 < ww c)%Z \/ wa c = true) /\
  (* 6 no writer sleeps with its wait condition false *)
          ((0 < cnt (Sleep Wr) (ths c))%nat -> (0 < ar c)%Z \/ wa c = true).

Lemma cnt_init p progs : p <> Idle -> cnt p (map (fun q => {| ph := Idle; todo := q |}) progs) = 0%nat.
Proof.
  intros H. unfold cnt. induction progs; simpl; [reflexivity|].
  destruct p; simpl; try congruence; assumption.
Qed.

Lemma inv_init progs : Inv (init progs).
Proof.
  unfold Inv, init; simpl. rewrite !cnt_init by discriminate. repeat split; auto; intros; lia.
Qed.

Ltac all_phases U :=
  pose proof (U Idle); pose proof (U (Sleep Rd)); pose proof (U (Sleep Wr)); pose proof (U (Woken Rd));
  pose proof (U (Woken Wr)); pose proof (U (Inside Rd)); pose proof (U (Inside Wr)); clear U.

Ltac zb := repeat match goal with
  | H : (_ <? _)%Z = true |- _ => apply Z.ltb_lt in H
  | H : (_ <? _)%Z = false |- _ => apply Z.ltb_ge in H
  | H : (_ =? _)%Z = true |- _ => apply Z.eqb_eq in H
  | H : (_ =? _)%Z = false |- _ => apply Z.eqb_neq in H
  | H : _ || _ = true |- _ => apply orb_true_iff in H
  | H : _ || _ = false |- _ => apply orb_false_iff in H; destruct H
  end.

(* case analysis of one step: which thread phase, which branch of the entry test.
   Leaves [Hn : nth_error (ths c) i = Some {|ph := ..; todo := ..|}] and c' replaced by its value. *)
Ltac step_cases Hs Hn :=
  unfold rw_step in Hs;
  match type of Hs with
  | context [nth_error (ths ?c) ?i] =>
      let p := fresh "p" in let td := fresh "td" in
      destruct (nth_error (ths c) i) as [[p td]|] eqn:Hn; [|discriminate];
      destruct p as [|[|]|[|]|[|]]; simpl in Hs;
      try (destruct td as [|[|] td]; simpl in Hs); try discriminate
  end;
  unfold try_read, try_write, sleep_on in Hs;
  repeat match type of Hs with
         | context [if ?X then _ else _] => let e := fresh "Hc" in destruct X eqn:e
         end;
  injection Hs as <-.

Lemma inv_step c i c' : Inv c -> rw_step c i = Some c' -> Inv c'.
Proof.
  intros (I1 & I2 & I3 & I4 & I5 & I6) Hs.
  destruct c as [a w b q l]. step_cases Hs Hn; simpl in *; unfold Inv; simpl;
  try (pose proof (nth_wake _ _ _ Hn) as Hn'; unfold wake in Hn'; simpl in Hn');
  match goal with
  | |- context [upd i ?x (map wake l)] =>
      let U := fresh "U" in
      pose proof (fun p => cnt_upd p i x (map wake l) _ Hn') as U; all_phases U; simpl in *;
      let W := fresh "W" in pose proof (cnt_wake l) as W;
      generalize dependent (upd i x (map wake l)); intros; generalize dependent (map wake l); intros
  | |- context [upd i ?x l] =>
      let U := fresh "U" in
      pose proof (fun p => cnt_upd p i x l _ Hn) as U; all_phases U; simpl in *;
      generalize dependent (upd i x l); intros
  end;
  destruct b; simpl in *;
  repeat match goal with H : _ /\ _ |- _ => destruct H end;
  zb;
  repeat split; intros; try lia; try discriminate; try (left; lia); try (right; reflexivity).
Qed.

Lemma inv_steps c s c' : Inv c -> steps rw_step c s c' -> Inv c'.
Proof. intros I H. induction H; [assumption|]. apply IHsteps. eapply inv_step; eassumption. Qed.

Lemma inv_reachable progs c : reachable rw_step progs c -> Inv c.
Proof. intros [s H]. eapply inv_steps; [apply inv_init | exact H]. Qed.

(* safety would survive spurious wake-ups (which CPython's Condition does not produce, M3) *)
Lemma inv_spurious c i c' : Inv c -> rw_spurious c i = Some c' -> Inv c'.
Proof.
  intros (I1 & I2 & I3 & I4 & I5 & I6) Hs. unfold rw_spurious in Hs.
  destruct (nth_error (ths c) i) as [[p td]|] eqn:Hn; [|discriminate].
  destruct p as [|k|k|k]; try discriminate. injection Hs as <-.
  destruct c as [a w b q l]; unfold Inv; simpl in *.
  match goal with
  | |- context [upd i ?x l] =>
      let U := fresh "U" in
      pose proof (fun p => cnt_upd p i x l _ Hn) as U; all_phases U; simpl in *;
      generalize dependent (upd i x l); intros
  end.
  destruct k; simpl in *; repeat split; intros; try lia; try (apply I5; lia); try (apply I6; lia); auto.
Qed.

(* ------------------------------------------------------------------ exclusion *)
Theorem exclusion_inv c t : Inv c -> inside c t Wr -> forall t', t' <> t -> outside c t'.
Proof.
  intros (I1 & I2 & I3 & _) Hin t' Hne k Hk.
  apply phase_of_iff in Hin. destruct Hin as (u & Hu & Eu).
  apply phase_of_iff in Hk. destruct Hk as (v & Hv & Ev).
  pose proof (cnt_nth _ _ _ _ Hu Eu) as Pw.
  destruct (wa c) eqn:Ewa; [|lia].
  destruct k.
  - pose proof (cnt_nth _ _ _ _ Hv Ev). specialize (I3 eq_refl). lia.
  - apply Hne. eapply (cnt_unique (Inside Wr)); try eassumption. lia.
Qed.

(* the lock's own flags are truthful: _writer_active <-> a writer inside; _active_readers = #readers inside *)
Theorem flags_truthful c : Inv c ->
  (wa c = true <-> exists t, inside c t Wr) /\ ar c = Z.of_nat (cnt (Inside Rd) (ths c)).
Proof.
  intros (I1 & I2 & _). split; [|exact I1]. split.
  - intro E. rewrite E in I2. destruct (cnt_pos (Inside Wr) (ths c)) as (i & t & Hi & Et); [lia|].
    exists i. apply phase_of_iff. eauto.
  - intros (t & Hin). apply phase_of_iff in Hin. destruct Hin as (u & Hu & Eu).
    pose proof (cnt_nth _ _ _ _ Hu Eu). destruct (wa c); [reflexivity | lia].
Qed.

(* readers share: admission of a reader does not depend on how many readers are inside *)
Theorem reader_admitted c i td :
  nth_error (ths c) i = Some {| ph := Idle; todo := Rd :: td |} ->
  wa c = false -> (ww c <= 0)%Z ->
  exists c', rw_step c i = Some c' /\ inside c' i Rd /\ ar c' = (ar c + 1)%Z /\
             (forall j k, j <> i -> inside c j k -> inside c' j k).
Proof.
  intros Hn Ewa Eww. unfold rw_step. rewrite Hn. simpl. unfold try_read.
  destruct (0 <? ww c)%Z eqn:E; [apply Z.ltb_lt in E; lia|]. rewrite Ewa. simpl.
  eexists. split; [reflexivity|]. unfold inside, phase_of. simpl.
  rewrite (nth_upd_same _ _ _ _ Hn). repeat split; auto.
  intros j k Hj. rewrite nth_upd_other by exact Hj. auto.
Qed.

(* ------------------------------------------------------------------ frame: what a step does to the others *)
Lemma step_frame c i c' j : rw_step c i = Some c' -> j <> i ->
  phase_of c' j = phase_of c j \/
  exists k, phase_of c j = Some (Sleep k) /\ phase_of c' j = Some (Woken k).
Proof.
  intros Hs Hj. destruct c as [a w b q l]. step_cases Hs Hn; unfold phase_of; simpl;
    rewrite nth_upd_other by exact Hj; auto;
    rewrite nth_error_map; destruct (nth_error l j) as [[pj tj]|]; simpl; auto;
    destruct pj; simpl; eauto.
Qed.

Lemma step_length c i c' : rw_step c i = Some c' -> length (ths c') = length (ths c).
Proof.
  intros Hs. destruct c as [a w b q l]. step_cases Hs Hn; simpl;
    rewrite upd_length, ?map_length; reflexivity.
Qed.

(* ------------------------------------------------------------------ no lost wake-up, no deadlock *)
Theorem no_lost_wakeup_inv c i k : Inv c -> sleeping c i k -> wait_cond k c = true.
Proof.
  intros (_ & _ & _ & _ & I5 & I6) H. apply phase_of_iff in H. destruct H as (t & Ht & Et).
  pose proof (cnt_nth _ _ _ _ Ht Et) as P. unfold wait_cond.
  destruct k; [destruct (I5 P) as [H|H] | destruct (I6 P) as [H|H]];
    apply orb_true_iff; (left; apply Z.ltb_lt; exact H) || (right; exact H).
Qed.

Lemma enabled_inside c i t k : nth_error (ths c) i = Some t -> ph t = Inside k -> enabled rw_step c i.
Proof.
  intros H E. unfold enabled, rw_step. rewrite H. destruct t as [p td]; simpl in E; subst p.
  simpl. destruct k; eauto.
Qed.

Lemma enabled_woken c i t k : nth_error (ths c) i = Some t -> ph t = Woken k -> enabled rw_step c i.
Proof.
  intros H E. unfold enabled, rw_step. rewrite H. destruct t as [p td]; simpl in E; subst p.
  simpl. destruct k; eauto.
Qed.

Theorem deadlock_free_inv c : Inv c ->
  (exists i t, nth_error (ths c) i = Some t /\ ~ finished t) ->
  exists i, enabled rw_step c i.
Proof.
  intros I (i & t & Ht & Hnf). pose proof I as (I1 & I2 & I3 & I4 & I5 & I6).
  assert (HW : wa c = true -> exists j, enabled rw_step c j).
  { intro E. rewrite E in I2. destruct (cnt_pos (Inside Wr) (ths c)) as (j & u & Hu & Eu); [lia|].
    exists j. eapply enabled_inside; eassumption. }
  assert (HR : (0 < ar c)%Z -> exists j, enabled rw_step c j).
  { intro E. destruct (cnt_pos (Inside Rd) (ths c)) as (j & u & Hu & Eu); [lia|].
    exists j. eapply enabled_inside; eassumption. }
  destruct (ph t) as [|k|k|k] eqn:Ep.
  - exists i. unfold enabled, rw_step. rewrite Ht. destruct t as [p td]; simpl in Ep; subst p.
    simpl. destruct td as [|[|] td]; eauto. exfalso. apply Hnf. split; reflexivity.
  - pose proof (cnt_nth _ _ _ _ Ht Ep) as P. destruct k.
    + destruct (I5 P) as [H|H]; [|auto].
      (* a writer is registered: it is woken (enabled) or sleeping because somebody is inside *)
      destruct (Nat.eq_dec (cnt (Woken Wr) (ths c)) 0) as [Z0|NZ].
      * assert (P' : (0 < cnt (Sleep Wr) (ths c))%nat) by lia. destruct (I6 P'); auto.
      * destruct (cnt_pos (Woken Wr) (ths c)) as (j & u & Hu & Eu); [lia|].
        exists j. eapply enabled_woken; eassumption.
    + destruct (I6 P); auto.
  - exists i. eapply enabled_woken; eassumption.
  - exists i. eapply enabled_inside; eassumption.
Qed.

(* ------------------------------------------------------------------ writer preference *)
Lemma waiting_writer_counts c w : Inv c -> waiting_writer c w -> (0 < ww c)%Z.
Proof.
  intros (_ & _ & _ & I4 & _) [H|H]; apply phase_of_iff in H; destruct H as (t & Ht & Et);
    pose proof (cnt_nth _ _ _ _ Ht Et); lia.
Qed.

(* the reader's entry test fails whenever _waiting_writers > 0 *)
Lemma reader_cannot_pass c i c' r : rw_step c i = Some c' -> (0 < ww c)%Z ->
  inside c' r Rd -> inside c r Rd.
Proof.
  intros Hs Hw Hin. destruct (Nat.eq_dec r i) as [->|Hne].
  - exfalso. apply Z.ltb_lt in Hw. unfold inside in Hin.
    destruct c as [a w b q l]. step_cases Hs Hn; unfold phase_of in Hin; simpl in *;
      try (rewrite (nth_upd_same _ _ _ _ Hn) in Hin; discriminate);
      try (rewrite (nth_upd_same _ _ _ _ (nth_wake _ _ _ Hn)) in Hin; discriminate);
      rewrite Hw in *; discriminate.
  - destruct (step_frame _ _ _ _ Hs Hne) as [E|(k & E1 & E2)]; unfold inside in *; congruence.
Qed.

(* invariant form: while some writer is registered as waiting, no reader enters *)
Theorem writer_preference_inv c w i c' r : Inv c -> waiting_writer c w ->
  rw_step c i = Some c' -> inside c' r Rd -> inside c r Rd.
Proof.
  intros I Hw Hs. eapply reader_cannot_pass; [exact Hs|]. eapply waiting_writer_counts; eassumption.
Qed.

(* a registered writer stays registered until the very step in which it enters *)
Lemma waiting_writer_step c i c' w : rw_step c i = Some c' -> waiting_writer c w ->
  waiting_writer c' w \/ (i = w /\ inside c' w Wr).
Proof.
  intros Hs Hw. destruct (Nat.eq_dec w i) as [->|Hne].
  - unfold waiting_writer, inside in *. destruct c as [a ww0 b q l].
    step_cases Hs Hn; unfold phase_of in *; simpl in *; rewrite Hn in Hw; simpl in Hw;
      try (destruct Hw; discriminate);
      rewrite (nth_upd_same _ _ _ _ Hn); auto.
  - left. destruct (step_frame _ _ _ _ Hs Hne) as [E|(k & E1 & E2)]; unfold waiting_writer in *.
    + rewrite E. exact Hw.
    + rewrite E2. destruct Hw as [H|H]; rewrite H in E1; [injection E1 as <-; auto | discriminate].
Qed.

(* trace form: writer w is registered in c1; later (after schedule s2) a step lets reader r in.
   Then w itself entered the write section somewhere inside s2. *)
Theorem writer_preference_run c1 w : Inv c1 -> waiting_writer c1 w ->
  forall s2 c2 i c3 r, steps rw_step c1 s2 c2 -> rw_step c2 i = Some c3 ->
  ~ inside c2 r Rd -> inside c3 r Rd ->
  exists sa ca cb sb, s2 = sa ++ w :: sb /\ steps rw_step c1 sa ca /\ rw_step ca w = Some cb /\
                      inside cb w Wr /\ steps rw_step cb sb c2.
Proof.
  intros I Hw s2 c2 i c3 r Hst. revert I Hw. induction Hst as [c|c j cm s cz Hj Hrest IH]; intros I Hw Hs Hout Hin.
  - exfalso. apply Hout. eapply writer_preference_inv; eassumption.
  - destruct (waiting_writer_step _ _ _ _ Hj Hw) as [Hw'|[-> Hent]].
    + destruct (IH (inv_step _ _ _ I Hj) Hw' Hs Hout Hin) as (sa & ca & cb & sb & E & S1 & S2 & S3 & S4).
      exists (j :: sa), ca, cb, sb. subst s. repeat split; auto. econstructor; eassumption.
    + exists [], c, cm, s. repeat split; auto. constructor.
Qed.

(* ------------------------------------------------------------------ termination:
   every schedule is finite — a Woken thread that goes back to sleep needs a new release to be
   woken again, and there are only finitely many releases left. *)
Definition rounds_left (t : thread) : nat :=
  (length (todo t) + match ph t with Idle => 0 | _ => 1 end)%nat.
Definition local_w (t : thread) : nat :=
  (3 * length (todo t) + match ph t with Woken _ => 2 | Sleep _ => 1 | _ => 0 end)%nat.
Definition sum (f : thread -> nat) (l : list thread) : nat := fold_right (fun t n => (f t + n)%nat) 0%nat l.
Definition measure (c : conf) : nat :=
  (S (length (ths c)) * sum rounds_left (ths c) + sum local_w (ths c))%nat.

Lemma sum_upd f i x l t : nth_error l i = Some t -> (sum f (upd i x l) + f t = sum f l + f x)%nat.
Proof.
  revert i; induction l as [|y r IH]; intros [|j] H; simpl in *; try discriminate.
  - injection H as ->. lia.
  - specialize (IH j H). lia.
Qed.

Lemma sum_wake_rounds l : sum rounds_left (map wake l) = sum rounds_left l.
Proof.
  induction l as [|[p td] r IH]; simpl; [reflexivity|]. rewrite IH.
  destruct p; reflexivity.
Qed.

Lemma sum_wake_local l : (sum local_w (map wake l) <= sum local_w l + length l)%nat.
Proof.
  induction l as [|[p td] r IH]; simpl; [lia|].
  destruct p; unfold local_w in *; simpl in *; lia.
Qed.

Theorem step_decreases c i c' : rw_step c i = Some c' -> (measure c' < measure c)%nat.
Proof.
  intros Hs. pose proof (step_length _ _ _ Hs) as L. unfold measure. rewrite L.
  destruct c as [a w b q l]. step_cases Hs Hn; simpl in *;
  try (pose proof (nth_wake _ _ _ Hn) as Hn'; unfold wake in Hn'; simpl in Hn');
  match goal with
  | |- context [upd i ?x (map wake l)] =>
      pose proof (sum_upd rounds_left i x (map wake l) _ Hn');
      pose proof (sum_upd local_w i x (map wake l) _ Hn');
      pose proof (sum_wake_rounds l); pose proof (sum_wake_local l)
  | |- context [upd i ?x l] =>
      pose proof (sum_upd rounds_left i x l _ Hn);
      pose proof (sum_upd local_w i x l _ Hn)
  end;
  unfold rounds_left, local_w in *; simpl in *; nia.
Qed.

Theorem schedules_finite c s c' : steps rw_step c s c' -> (length s + measure c' <= measure c)%nat.
Proof.
  induction 1 as [|c i c1 s c2 H1 H2 IH]; simpl; [lia|].
  pose proof (step_decreases _ _ _ H1). lia.
Qed.

(* ------------------------------------------------------------------ completion *)
Lemma is_finished_iff t : is_finished t = true <-> finished t.
Proof.
  unfold is_finished, finished. destruct t as [p td]; simpl.
  destruct p; destruct td; split; intro H; try discriminate; try (split; reflexivity);
    destruct H; discriminate.
Qed.

Lemma unfinished_exists l : forallb is_finished l = false ->
  exists i t, nth_error l i = Some t /\ ~ finished t.
Proof.
  induction l as [|y r IH]; simpl; [discriminate|]. intro H.
  destruct (is_finished y) eqn:E.
  - destruct (IH H) as (i & t & Hi & Ht). exists (S i), t. split; assumption.
  - exists 0%nat, y. split; [reflexivity|]. intro F. apply is_finished_iff in F. congruence.
Qed.

(* a run that cannot be extended has finished everybody: no thread is left behind in an acquire *)
Theorem stuck_means_finished c : Inv c -> (forall i, ~ enabled rw_step c i) ->
  forall i t, nth_error (ths c) i = Some t -> finished t.
Proof.
  intros I Hstuck i t Ht.
  destruct (is_finished t) eqn:E; [apply is_finished_iff; exact E|].
  exfalso. destruct (deadlock_free_inv c I) as [j Hj].
  - exists i, t. split; [exact Ht|]. intro F. apply is_finished_iff in F. congruence.
  - exact (Hstuck j Hj).
Qed.

(* from every reachable configuration there is a schedule that finishes everybody *)
Theorem can_complete c : Inv c ->
  exists s c', steps rw_step c s c' /\ forallb is_finished (ths c') = true.
Proof.
  remember (measure c) as n eqn:En. revert c En.
  induction n as [n IH] using lt_wf_ind. intros c En I.
  destruct (forallb is_finished (ths c)) eqn:E.
  - exists [], c. split; [constructor | exact E].
  - destruct (deadlock_free_inv c I (unfinished_exists _ E)) as [i [c1 H1]].
    pose proof (step_decreases _ _ _ H1) as D.
    destruct (IH (measure c1) ltac:(lia) c1 eq_refl (inv_step _ _ _ I H1)) as (s & c' & Hs & Hf).
    exists (i :: s), c'. split; [econstructor; eassumption | exact Hf].
Qed.

(* ------------------------------------------------------------------ any number of readers inside together *)
Lemma steps_snoc step c s c1 i c2 :
  steps step c s c1 -> step c1 i = Some c2 -> steps step c (s ++ [i]) c2.
Proof.
  induction 1 as [c|c j cm s cz Hj Hrest IH]; intro H; simpl.
  - econstructor; [exact H | constructor].
  - econstructor; [exact Hj | apply IH; exact H].
Qed.

Lemma reader_admitted_frame c i td :
  nth_error (ths c) i = Some {| ph := Idle; todo := Rd :: td |} ->
  wa c = false -> (ww c <= 0)%Z ->
  exists c', rw_step c i = Some c' /\ inside c' i Rd /\ wa c' = false /\ ww c' = ww c /\
             (forall j, j <> i -> nth_error (ths c') j = nth_error (ths c) j).
Proof.
  intros Hn Ewa Eww. unfold rw_step. rewrite Hn. simpl. unfold try_read.
  destruct (0 <? ww c)%Z eqn:E; [apply Z.ltb_lt in E; lia|]. rewrite Ewa. simpl.
  eexists. split; [reflexivity|]. unfold inside, phase_of. simpl.
  rewrite (nth_upd_same _ _ _ _ Hn). repeat split; auto.
  intros j Hj. apply nth_upd_other. exact Hj.
Qed.

Lemma readers_enter_prefix n k : (k <= n)%nat ->
  exists c, steps rw_step (init (repeat [Rd] n)) (seq 0 k) c /\ wa c = false /\ ww c = 0%Z /\
            (forall i, (i < k)%nat -> inside c i Rd) /\
            (forall i, (k <= i < n)%nat -> nth_error (ths c) i = Some {| ph := Idle; todo := [Rd] |}).
Proof.
  induction k as [|k IH]; intro Hk.
  - exists (init (repeat [Rd] n)). split; [constructor|]. repeat split; auto; [intros; lia|].
    intros i Hi. unfold init; simpl. rewrite nth_error_map.
    rewrite (nth_error_repeat [Rd]) by lia. reflexivity.
  - destruct (IH ltac:(lia)) as (c & Hs & Ewa & Eww & Hin & Hidle).
    destruct (reader_admitted_frame c k [] (Hidle k ltac:(lia)) Ewa ltac:(lia))
      as (c' & Hstep & Hk' & Ewa' & Eww' & Hfr).
    exists c'. split.
    + rewrite seq_S. simpl. eapply steps_snoc; eassumption.
    + repeat split; auto; [congruence| |].
      * intros i Hi. destruct (Nat.eq_dec i k) as [->|Hne]; [exact Hk'|].
        unfold inside, phase_of in *. rewrite Hfr by exact Hne. apply Hin. lia.
      * intros i Hi. rewrite Hfr by lia. apply Hidle. lia.
Qed.

Theorem readers_share n :
  exists c, reachable rw_step (repeat [Rd] n) c /\ forall i, (i < n)%nat -> inside c i Rd.
Proof.
  destruct (readers_enter_prefix n n (le_n n)) as (c & Hs & _ & _ & Hin & _).
  exists c. split; [exists (seq 0 n); exact Hs | exact Hin].
Qed.
