(* RWLockTie.v — C16: the program regenerated from casbin/util/rwlock.py on this run
   (coq/gen/RWLockGen.v), executed by the interpreter [mon_step], IS the abstract system [rw_step];
   hence every theorem of RWLockProofs.v holds of the regenerated program. *)
From Coq Require Import List ZArith Bool Lia Arith.
From PyCasbin Require Import Base RWLockLang RWLock RWLockProofs RWLockTrace.
From PyCasbinGen Require Import RWLockGen.
Import ListNotations.
Local Open Scope Z_scope.

(* The tie is proved by computation on the concrete generated program with a SYMBOLIC state:
   normalise both sides, split on every test, and close each branch by reflexivity, by arithmetic
   on the integer fields (ww + 1 - 1 = ww, ...), or by contradiction between the tests (so that
   equivalent spellings of a test — reordered disjuncts, `1 <= x` for `x > 0` — still go through). *)
Ltac norm := cbv -[Z.ltb Z.leb Z.eqb Z.add Z.sub Z.opp upd map wake wake_at app nth_error].
Ltac split_ifs :=
  repeat (match goal with
          | |- context [if ?X then _ else _] =>
              lazymatch X with
              | context [if _ then _ else _] => fail       (* innermost tests first *)
              | true => fail
              | false => fail
              | _ => destruct X eqn:?
              end
          end; cbv beta iota).
Ltac zb' := repeat match goal with
  | H : (_ <? _) = true |- _ => apply Z.ltb_lt in H
  | H : (_ <? _) = false |- _ => apply Z.ltb_ge in H
  | H : (_ <=? _) = true |- _ => apply Z.leb_le in H
  | H : (_ <=? _) = false |- _ => apply Z.leb_gt in H
  | H : (_ =? _) = true |- _ => apply Z.eqb_eq in H
  | H : (_ =? _) = false |- _ => apply Z.eqb_neq in H end.
Ltac fin := norm; first [reflexivity | exfalso; zb'; lia | (f_equal; f_equal; zb'; lia)].

(* facts about the integer fields that hold in every configuration satisfying the invariant, given
   the phase of the stepping thread; they let equivalent-on-reachable-states spellings of a test
   (`<= 0` for `== 0`, `!= 0` for `> 0`) go through *)
Lemma inv_facts c i t : Inv c -> nth_error (ths c) i = Some t ->
  (0 <= ar c /\ 0 <= ww c /\ (wa c = true -> ar c = 0)) /\
  (ph t = Inside Rd -> 1 <= ar c /\ wa c = false) /\
  (ph t = Inside Wr -> wa c = true /\ ar c = 0) /\
  (ph t = Woken Wr -> 1 <= ww c) /\
  (ph t = Sleep Wr -> 1 <= ww c).
Proof.
  intros (I1 & I2 & I3 & I4 & _) Hn.
  pose proof (fun p => cnt_nth p (ths c) i t Hn) as P.
  repeat split; intros; try lia; auto.
  - specialize (P _ H). lia.
  - destruct (wa c); [specialize (I3 eq_refl); specialize (P _ H); lia | reflexivity].
  - specialize (P _ H). destruct (wa c); [reflexivity | lia].
  - specialize (P _ H). destruct (wa c); [auto | lia].
  - specialize (P _ H). lia.
  - specialize (P _ H). lia.
Qed.

Ltac use_facts F :=
  destruct F as ((?F0 & ?F1 & ?F2) & ?F3 & ?F4 & ?F5 & ?F6); cbn [ph ar ww wa] in *;
  repeat match goal with
         | H : ?x = ?x -> _ |- _ => specialize (H eq_refl)
         | H : Idle = _ -> _ |- _ => clear H
         | H : Sleep _ = _ -> _ |- _ => clear H
         | H : Woken _ = _ -> _ |- _ => clear H
         | H : Inside _ = _ -> _ |- _ => clear H
         end;
  repeat match goal with H : _ /\ _ |- _ => destruct H end.

Ltac fin_inv :=
  norm;
  first [ reflexivity
        | exfalso; zb'; repeat match goal with H : true = true -> _ |- _ => specialize (H eq_refl) end;
          first [lia | congruence]
        | f_equal; f_equal; zb'; lia ].

(* on every configuration satisfying the invariant (in particular every reachable one) the
   regenerated program steps exactly like the abstract system *)
Lemma tie_inv : forall c i, Inv c -> mon_step rwlock_gen c i = rw_step c i.
Proof.
  intros [a w b q l] i I. unfold mon_step, rw_step. cbn [ths].
  destruct (nth_error l i) as [[p td]|] eqn:Hn; [|reflexivity].
  pose proof (inv_facts _ i _ I Hn) as F. clear I Hn.
  destruct p as [|[|]|[|]|[|]]; cbn [ph todo]; try reflexivity; use_facts F;
  try (destruct td as [|[|] td]; try reflexivity); norm; split_ifs; fin_inv.
Qed.

Notation lock_step := (mon_step rwlock_gen).

Lemma steps_tie c s c' : Inv c -> (steps lock_step c s c' <-> steps rw_step c s c').
Proof.
  intro I. split; intro H.
  - induction H as [c|c i c1 s c2 H1 H2 IH]; [constructor|].
    rewrite (tie_inv _ _ I) in H1. econstructor; [exact H1 | apply IH; eapply inv_step; eassumption].
  - induction H as [c|c i c1 s c2 H1 H2 IH]; [constructor|].
    econstructor; [rewrite (tie_inv _ _ I); exact H1 | apply IH; eapply inv_step; eassumption].
Qed.

Lemma reachable_tie progs c : reachable lock_step progs c <-> reachable rw_step progs c.
Proof. split; intros [s H]; exists s; apply (steps_tie _ _ _ (inv_init progs)); exact H. Qed.

Lemma reach_inv progs c : reachable lock_step progs c -> Inv c.
Proof. intro H. apply reachable_tie in H. eapply inv_reachable; exact H. Qed.

Lemma enabled_tie c i : Inv c -> (enabled lock_step c i <-> enabled rw_step c i).
Proof.
  intro I. unfold enabled. rewrite (tie_inv _ _ I). tauto.
Qed.

Lemma events_tie s : forall c, Inv c -> events lock_step c s = events rw_step c s.
Proof.
  induction s as [|i s IH]; intros c I; simpl; [reflexivity|].
  rewrite (tie_inv _ _ I). destruct (rw_step c i) as [c1|] eqn:H; [|reflexivity].
  rewrite (IH c1 (inv_step _ _ _ I H)). reflexivity.
Qed.

(* ---------------- the theorems, about the regenerated program *)
Lemma g_tie progs c : reachable lock_step progs c -> forall i, lock_step c i = rw_step c i.
Proof. intros H i. apply tie_inv. eapply reach_inv; exact H. Qed.

Lemma g_exclusion progs c : reachable lock_step progs c ->
  forall t, inside c t Wr -> forall t', t' <> t -> outside c t'.
Proof. intros H t. apply exclusion_inv. eapply reach_inv; exact H. Qed.

Lemma g_flags_truthful progs c : reachable lock_step progs c ->
  (wa c = true <-> exists t, inside c t Wr) /\
  ar c = Z.of_nat (length (filter (fun t => phase_eqb (ph t) (Inside Rd)) (ths c))).
Proof. intro H. apply flags_truthful. eapply reach_inv; exact H. Qed.

Lemma g_readers_share n :
  exists c, reachable lock_step (repeat [Rd] n) c /\ forall i, (i < n)%nat -> inside c i Rd.
Proof.
  destruct (readers_share n) as (c & H & Hin). exists c. split; [apply reachable_tie; exact H | exact Hin].
Qed.

Lemma g_reader_admitted progs c i td : reachable lock_step progs c ->
  nth_error (ths c) i = Some {| ph := Idle; todo := Rd :: td |} ->
  wa c = false -> ww c <= 0 ->
  exists c', lock_step c i = Some c' /\ inside c' i Rd /\ ar c' = ar c + 1 /\
             (forall j k, j <> i -> inside c j k -> inside c' j k).
Proof.
  intros Hr H1 H2 H3. destruct (reader_admitted c i td H1 H2 H3) as (c' & H & R).
  exists c'. split; [rewrite (g_tie _ _ Hr); exact H | exact R].
Qed.

Lemma g_no_lost_wakeup progs c : reachable lock_step progs c ->
  forall i k, sleeping c i k -> wait_cond k c = true.
Proof. intros H i k. apply no_lost_wakeup_inv. eapply reach_inv; exact H. Qed.

Lemma g_deadlock_free progs c : reachable lock_step progs c ->
  (exists i t, nth_error (ths c) i = Some t /\ ~ finished t) ->
  exists i, enabled lock_step c i.
Proof.
  intros H U. destruct (deadlock_free_inv c (reach_inv _ _ H) U) as [i Hi].
  exists i. apply (enabled_tie _ _ (reach_inv _ _ H)). exact Hi.
Qed.

Lemma g_schedules_finite progs c s c' : reachable lock_step progs c ->
  steps lock_step c s c' -> (length s <= measure c)%nat.
Proof.
  intros Hr H. apply (steps_tie _ _ _ (reach_inv _ _ Hr)) in H.
  pose proof (schedules_finite _ _ _ H). lia.
Qed.

Lemma g_stuck_means_finished progs c : reachable lock_step progs c ->
  (forall i, ~ enabled lock_step c i) ->
  forall i t, nth_error (ths c) i = Some t -> finished t.
Proof.
  intros H S. apply stuck_means_finished; [eapply reach_inv; exact H|].
  intros i Hi. apply (S i). apply (enabled_tie _ _ (reach_inv _ _ H)). exact Hi.
Qed.

Lemma g_can_complete progs c : reachable lock_step progs c ->
  exists s c', steps lock_step c s c' /\ forallb is_finished (ths c') = true.
Proof.
  intro H. destruct (can_complete c (reach_inv _ _ H)) as (s & c' & Hs & Hf).
  exists s, c'. split; [apply (steps_tie _ _ _ (reach_inv _ _ H)); exact Hs | exact Hf].
Qed.

Lemma g_writer_preference progs c : reachable lock_step progs c ->
  forall w, waiting_writer c w ->
  forall i c' r, lock_step c i = Some c' -> inside c' r Rd -> inside c r Rd.
Proof.
  intros H w Hw i c' r Hs. rewrite (g_tie _ _ H) in Hs.
  eapply writer_preference_inv; [eapply reach_inv|..]; eassumption.
Qed.

Lemma g_writer_preference_run progs c1 w : reachable lock_step progs c1 -> waiting_writer c1 w ->
  forall s2 c2 i c3 r, steps lock_step c1 s2 c2 -> lock_step c2 i = Some c3 ->
  ~ inside c2 r Rd -> inside c3 r Rd ->
  exists sa ca cb sb, s2 = sa ++ w :: sb /\ steps lock_step c1 sa ca /\ lock_step ca w = Some cb /\
                      inside cb w Wr /\ steps lock_step cb sb c2.
Proof.
  intros H Hw s2 c2 i c3 r Hs Hst Ho Hi.
  pose proof (reach_inv _ _ H) as I1.
  apply (steps_tie _ _ _ I1) in Hs.
  pose proof (inv_steps _ _ _ I1 Hs) as I2. rewrite (tie_inv _ _ I2) in Hst.
  destruct (writer_preference_run c1 w I1 Hw s2 c2 i c3 r Hs Hst Ho Hi)
    as (sa & ca & cb & sb & E & S1 & S2 & S3 & S4).
  pose proof (inv_steps _ _ _ I1 S1) as Ia. pose proof (inv_step _ _ _ Ia S2) as Ib.
  exists sa, ca, cb, sb. repeat split; auto.
  - apply (steps_tie _ _ _ I1); exact S1.
  - rewrite (tie_inv _ _ Ia); exact S2.
  - apply (steps_tie _ _ _ Ib); exact S4.
Qed.

Lemma g_inv_spurious progs c i c' : reachable lock_step progs c -> rw_spurious c i = Some c' ->
  (forall t, inside c' t Wr -> forall t', t' <> t -> outside c' t').
Proof.
  intros H Hs t. apply exclusion_inv. eapply inv_spurious; [eapply reach_inv; exact H | exact Hs].
Qed.

Lemma g_trace_spec progs s : spec_trace (events lock_step (init progs) s) = (None, None, None).
Proof. rewrite (events_tie _ _ (inv_init progs)). apply trace_spec_ok. Qed.

Lemma g_trace_share progs s : spec_share (events lock_step (init progs) s) = None.
Proof. rewrite (events_tie _ _ (inv_init progs)). apply trace_share_ok. Qed.
