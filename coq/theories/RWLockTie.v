(* RWLockTie.v — C16: the program regenerated from casbin/util/rwlock.py on this run
   (coq/gen/RWLockGen.v), executed by the interpreter [mon_step], IS the abstract system [rw_step];
   hence every theorem of RWLockProofs.v holds of the regenerated program. *)
From Coq Require Import List ZArith Bool Lia Arith.
From PyCasbin Require Import Base RWLockLang RWLock RWLockProofs.
From PyCasbinGen Require Import RWLockGen.
Import ListNotations.
Local Open Scope Z_scope.

(* The tie is proved by computation on the concrete generated program with a SYMBOLIC state:
   normalise both sides, split on every test, and close each branch by reflexivity, by arithmetic
   on the integer fields (ww + 1 - 1 = ww, ...), or by contradiction between the tests (so that
   equivalent spellings of a test — reordered disjuncts, `1 <= x` for `x > 0` — still go through). *)
Ltac norm := cbv -[Z.ltb Z.leb Z.eqb Z.add Z.sub Z.opp upd map wake wake_at app nth_error].
Ltac split_ifs :=
  repeat (match goal with
          | |- context [if ?X then _ else _] =>
              lazymatch X with
              | context [if _ then _ else _] => fail       (* innermost tests first *)
              | true => fail
              | false => fail
              | _ => destruct X eqn:?
              end
          end; cbv beta iota).
Ltac zb' := repeat match goal with
  | H : (_ <? _) = true |- _ => apply Z.ltb_lt in H
  | H : (_ <? _) = false |- _ => apply Z.ltb_ge in H
  | H : (_ <=? _) = true |- _ => apply Z.leb_le in H
  | H : (_ <=? _) = false |- _ => apply Z.leb_gt in H
  | H : (_ =? _) = true |- _ => apply Z.eqb_eq in H
  | H : (_ =? _) = false |- _ => apply Z.eqb_neq in H end.
Ltac fin := norm; first [reflexivity | exfalso; zb'; lia | (f_equal; f_equal; zb'; lia)].

Lemma tie : forall c i, mon_step rwlock_gen c i = rw_step c i.
Proof.
  intros [a w b q l] i. unfold mon_step, rw_step. cbn [ths].
  destruct (nth_error l i) as [[p td]|]; [|reflexivity].
  destruct p as [|[|]|[|]|[|]]; cbn [ph todo]; try reflexivity;
  try (destruct td as [|[|] td]; try reflexivity); norm; split_ifs; fin.
Qed.

Notation lock_step := (mon_step rwlock_gen).

Lemma steps_tie c s c' : steps lock_step c s c' <-> steps rw_step c s c'.
Proof.
  split; induction 1; try constructor; econstructor; try eassumption;
    [rewrite <- tie | rewrite tie]; assumption.
Qed.

Lemma reachable_tie progs c : reachable lock_step progs c <-> reachable rw_step progs c.
Proof. split; intros [s H]; exists s; apply steps_tie; exact H. Qed.

Lemma enabled_tie c i : enabled lock_step c i <-> enabled rw_step c i.
Proof. unfold enabled. split; intros [c' H]; exists c'; [rewrite <- tie | rewrite tie]; exact H. Qed.

Lemma reach_inv progs c : reachable lock_step progs c -> Inv c.
Proof. intro H. apply reachable_tie in H. eapply inv_reachable; exact H. Qed.

(* ---------------- the theorems, about the regenerated program *)
Lemma g_exclusion progs c : reachable lock_step progs c ->
  forall t, inside c t Wr -> forall t', t' <> t -> outside c t'.
Proof. intros H t. apply exclusion_inv. eapply reach_inv; exact H. Qed.

Lemma g_flags_truthful progs c : reachable lock_step progs c ->
  (wa c = true <-> exists t, inside c t Wr) /\
  ar c = Z.of_nat (length (filter (fun t => phase_eqb (ph t) (Inside Rd)) (ths c))).
Proof. intro H. apply flags_truthful. eapply reach_inv; exact H. Qed.

Lemma g_readers_share n :
  exists c, reachable lock_step (repeat [Rd] n) c /\ forall i, (i < n)%nat -> inside c i Rd.
Proof.
  destruct (readers_share n) as (c & H & Hin). exists c. split; [apply reachable_tie; exact H | exact Hin].
Qed.

Lemma g_reader_admitted c i td :
  nth_error (ths c) i = Some {| ph := Idle; todo := Rd :: td |} ->
  wa c = false -> ww c <= 0 ->
  exists c', lock_step c i = Some c' /\ inside c' i Rd /\ ar c' = ar c + 1 /\
             (forall j k, j <> i -> inside c j k -> inside c' j k).
Proof.
  intros H1 H2 H3. destruct (reader_admitted c i td H1 H2 H3) as (c' & H & R).
  exists c'. split; [rewrite tie; exact H | exact R].
Qed.

Lemma g_no_lost_wakeup progs c : reachable lock_step progs c ->
  forall i k, sleeping c i k -> wait_cond k c = true.
Proof. intros H i k. apply no_lost_wakeup_inv. eapply reach_inv; exact H. Qed.

Lemma g_deadlock_free progs c : reachable lock_step progs c ->
  (exists i t, nth_error (ths c) i = Some t /\ ~ finished t) ->
  exists i, enabled lock_step c i.
Proof.
  intros H U. destruct (deadlock_free_inv c (reach_inv _ _ H) U) as [i Hi].
  exists i. apply enabled_tie. exact Hi.
Qed.

Lemma g_schedules_finite c s c' : steps lock_step c s c' -> (length s <= measure c)%nat.
Proof. intro H. apply steps_tie in H. pose proof (schedules_finite _ _ _ H). lia. Qed.

Lemma g_stuck_means_finished progs c : reachable lock_step progs c ->
  (forall i, ~ enabled lock_step c i) ->
  forall i t, nth_error (ths c) i = Some t -> finished t.
Proof.
  intros H S. apply stuck_means_finished; [eapply reach_inv; exact H|].
  intros i Hi. apply (S i). apply enabled_tie. exact Hi.
Qed.

Lemma g_can_complete progs c : reachable lock_step progs c ->
  exists s c', steps lock_step c s c' /\ forallb is_finished (ths c') = true.
Proof.
  intro H. destruct (can_complete c (reach_inv _ _ H)) as (s & c' & Hs & Hf).
  exists s, c'. split; [apply steps_tie; exact Hs | exact Hf].
Qed.

Lemma g_writer_preference progs c : reachable lock_step progs c ->
  forall w, waiting_writer c w ->
  forall i c' r, lock_step c i = Some c' -> inside c' r Rd -> inside c r Rd.
Proof.
  intros H w Hw i c' r Hs. rewrite tie in Hs.
  eapply writer_preference_inv; [eapply reach_inv|..]; eassumption.
Qed.

Lemma g_writer_preference_run progs c1 w : reachable lock_step progs c1 -> waiting_writer c1 w ->
  forall s2 c2 i c3 r, steps lock_step c1 s2 c2 -> lock_step c2 i = Some c3 ->
  ~ inside c2 r Rd -> inside c3 r Rd ->
  exists sa ca cb sb, s2 = sa ++ w :: sb /\ steps lock_step c1 sa ca /\ lock_step ca w = Some cb /\
                      inside cb w Wr /\ steps lock_step cb sb c2.
Proof.
  intros H Hw s2 c2 i c3 r Hs Hst Ho Hi. apply steps_tie in Hs. rewrite tie in Hst.
  destruct (writer_preference_run c1 w (reach_inv _ _ H) Hw s2 c2 i c3 r Hs Hst Ho Hi)
    as (sa & ca & cb & sb & E & S1 & S2 & S3 & S4).
  exists sa, ca, cb, sb. repeat split; auto; try (apply steps_tie; assumption). rewrite tie; exact S2.
Qed.

Lemma g_inv_spurious progs c i c' : reachable lock_step progs c -> rw_spurious c i = Some c' ->
  (forall t, inside c' t Wr -> forall t', t' <> t -> outside c' t').
Proof.
  intros H Hs t. apply exclusion_inv. eapply inv_spurious; [eapply reach_inv; exact H | exact Hs].
Qed.
