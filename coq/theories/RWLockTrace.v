(* RWLockTrace.v — C16: the event-trace specification [spec_trace] (RWLock.v) that the harness
   evaluates on the traces of the REAL lock is satisfied by every trace of the abstract system:
   no exclusion verdict, no strong-preference verdict, no worded-preference verdict ever fails. *)
From Coq Require Import List ZArith Bool Lia Arith.
From PyCasbin Require Import Base RWLockLang RWLock RWLockProofs.
Import ListNotations.

(* ---------- small list facts *)
Lemma In_remove_nat x y l : In y (remove_nat x l) <-> In y l /\ y <> x.
Proof.
  unfold remove_nat. rewrite filter_In. split; intros [H1 H2]; split; auto.
  - intro E. subst. rewrite Nat.eqb_refl in H2. discriminate.
  - destruct (Nat.eqb x y) eqn:E; [apply Nat.eqb_eq in E; congruence | reflexivity].
Qed.

Lemma mem_nat_In x l : mem_nat x l = true <-> In x l.
Proof.
  unfold mem_nat. rewrite existsb_exists. split.
  - intros (y & H & E). apply Nat.eqb_eq in E. subst. exact H.
  - intro H. exists x. split; [exact H | apply Nat.eqb_refl].
Qed.

Lemma assoc_In x l v : assoc_nat x l = Some v -> In (x, v) l.
Proof.
  induction l as [|[y w] r IH]; simpl; [discriminate|].
  destruct (Nat.eqb x y) eqn:E.
  - intro H. injection H as ->. apply Nat.eqb_eq in E. subst. left. reflexivity.
  - intro H. right. apply IH. exact H.
Qed.

Lemma In_remove_assoc x p l : In p (remove_assoc x l) -> In p l.
Proof. unfold remove_assoc. rewrite filter_In. tauto. Qed.

Lemma no_members {A} (l : list A) : (forall t, ~ In t l) -> l = [].
Proof. destruct l as [|a r]; [reflexivity|]. intro H. exfalso. apply (H a). left. reflexivity. Qed.

(* ---------- what one step does to the stepping thread *)
Inductive self_move (c : conf) : phase -> phase -> Prop :=
| SBlock k p : p = Idle \/ p = Woken k -> (k = Rd -> (0 <? ww c)%Z || wa c = true) -> self_move c p (Sleep k)
| SEnterR p : p = Idle \/ p = Woken Rd -> (ww c <= 0)%Z -> wa c = false -> self_move c p (Inside Rd)
| SEnterW p : p = Idle \/ p = Woken Wr -> (ar c <= 0)%Z -> wa c = false -> self_move c p (Inside Wr)
| SExit k : self_move c (Inside k) Idle.

Lemma step_self c i c' : rw_step c i = Some c' ->
  exists p p', phase_of c i = Some p /\ phase_of c' i = Some p' /\ self_move c p p'.
Proof.
  intros Hs. destruct c as [a w b q l].
  step_cases Hs Hn; simpl in Hn; unfold phase_of; simpl; rewrite Hn; simpl;
    try rewrite (nth_upd_same _ _ _ _ Hn);
    try rewrite (nth_upd_same _ _ _ _ (nth_wake _ _ _ Hn));
    do 2 eexists; (split; [reflexivity|]); (split; [reflexivity|]);
    try (apply SExit);
    try (apply SBlock; [auto | simpl; first [intros _; assumption | intro E; discriminate E]]; fail);
    zb;
    try (apply SEnterR; simpl; auto; lia);
    try (apply SEnterW; simpl; auto; lia).
Qed.

Lemma step_other_inside c i c' j k : rw_step c i = Some c' -> j <> i ->
  (inside c' j k <-> inside c j k).
Proof.
  intros Hs Hj. unfold inside.
  destruct (step_frame _ _ _ _ Hs Hj) as [E|(k' & E1 & E2)]; [rewrite E; tauto|].
  rewrite E1, E2. split; discriminate.
Qed.

Lemma step_other_waiting c i c' j : rw_step c i = Some c' -> j <> i ->
  (waiting_writer c' j <-> waiting_writer c j).
Proof.
  intros Hs Hj. unfold waiting_writer.
  destruct (step_frame _ _ _ _ Hs Hj) as [E|(k' & E1 & E2)]; [rewrite E; tauto|].
  rewrite E1, E2. split; intros [H|H]; try discriminate; injection H as ->; auto.
Qed.

(* ---------- the monitor state mirrors the configuration *)
Definition R (m : mstate) (c : conf) : Prop :=
  (forall t, In t (in_r m) <-> inside c t Rd) /\
  (forall t, In t (in_w m) <-> inside c t Wr) /\
  (forall t, In t (wait_w m) <-> waiting_writer c t) /\
  (forall r ws, In (r, ws) (wait_r m) -> forall w, In w ws -> In w (wait_w m)).

Lemma R_init progs : R m0 (init progs).
Proof.
  assert (P : forall t p, phase_of (init progs) t = Some p -> p = Idle).
  { intros t p H. apply phase_of_iff in H. destruct H as (u & Hu & <-).
    unfold init in Hu; simpl in Hu. rewrite nth_error_map in Hu.
    destruct (nth_error progs t); simpl in Hu; [injection Hu as <-; reflexivity | discriminate]. }
  unfold R, m0; simpl. repeat split; try tauto; unfold inside, waiting_writer; intro H;
    try (destruct H as [H|H]); apply P in H; discriminate.
Qed.

Lemma no_writer_inside c : Inv c -> wa c = false -> forall t, ~ inside c t Wr.
Proof.
  intros (_ & I2 & _) E t H. rewrite E in I2. apply phase_of_iff in H. destruct H as (u & Hu & Eu).
  pose proof (cnt_nth _ _ _ _ Hu Eu). lia.
Qed.

Lemma no_reader_inside c : Inv c -> (ar c <= 0)%Z -> forall t, ~ inside c t Rd.
Proof.
  intros (I1 & _) E t H. apply phase_of_iff in H. destruct H as (u & Hu & Eu).
  pose proof (cnt_nth _ _ _ _ Hu Eu). lia.
Qed.

Lemma no_writer_waiting c : Inv c -> (ww c <= 0)%Z -> forall t, ~ waiting_writer c t.
Proof. intros I E t H. pose proof (waiting_writer_counts c t I H). lia. Qed.

Lemma spec_step m c i c' : Inv c -> R m c -> rw_step c i = Some c' ->
  exists e, event_of c i c' = Some e /\ snd (mon_event m e) = (true, true, true) /\
            share_ok m e = true /\ R (fst (mon_event m e)) c'.
Proof.
  intros I (R1 & R2 & R3 & R4) Hs.
  destruct (step_self _ _ _ Hs) as (p & p' & Hp & Hp' & Hm).
  pose proof (fun j k => step_other_inside c i c' j k Hs) as FI.
  pose proof (fun j => step_other_waiting c i c' j Hs) as FW.
  assert (SI : forall k, inside c' i k <-> p' = Inside k).
  { intro k. unfold inside. rewrite Hp'. split; [intro H; injection H; auto | intros ->; reflexivity]. }
  assert (SW : waiting_writer c' i <-> p' = Sleep Wr \/ p' = Woken Wr).
  { unfold waiting_writer. rewrite Hp'. split; intros [H|H]; [left|right|left|right]; congruence. }
  assert (OI : forall k, inside c i k <-> p = Inside k).
  { intro k. unfold inside. rewrite Hp. split; [intro H; injection H; auto | intros ->; reflexivity]. }
  assert (OW : waiting_writer c i <-> p = Sleep Wr \/ p = Woken Wr).
  { unfold waiting_writer. rewrite Hp. split; intros [H|H]; [left|right|left|right]; congruence. }
  unfold event_of. rewrite Hp, Hp'.
  destruct Hm as [k p Hpp Hg | p Hpp Hww Hwa | p Hpp Har Hwa | k].
  - (* blocks *)
    eexists. split; [reflexivity|]. destruct k; unfold mon_event; cbn [e_tid e_kind e_what fst snd].
    + (* reader blocks: only because a writer is inside or registered *)
      split; [reflexivity|]. split.
      { unfold share_ok; cbn [e_kind e_what]. specialize (Hg eq_refl). apply orb_true_iff in Hg.
        destruct Hg as [Hg|Hg].
        - apply Z.ltb_lt in Hg. destruct I as (_ & _ & _ & I4 & _).
          assert (exists t, waiting_writer c t) as [t Ht].
          { destruct (Nat.eq_dec (cnt (Sleep Wr) (ths c)) 0) as [Z0|NZ].
            - destruct (cnt_pos (Woken Wr) (ths c)) as (t & u & Hu & Eu); [lia|].
              exists t. right. apply phase_of_iff. eauto.
            - destruct (cnt_pos (Sleep Wr) (ths c)) as (t & u & Hu & Eu); [lia|].
              exists t. left. apply phase_of_iff. eauto. }
          apply R3 in Ht. destruct (in_w m); destruct (wait_w m); try reflexivity. destruct Ht.
        - destruct I as (_ & I2 & _). rewrite Hg in I2.
          destruct (cnt_pos (Inside Wr) (ths c)) as (t & u & Hu & Eu); [lia|].
          assert (Ht : inside c t Wr) by (apply phase_of_iff; eauto).
          apply R2 in Ht. destruct (in_w m); [destruct Ht | reflexivity]. }
      unfold R; cbn [in_r in_w wait_w wait_r]. repeat split.
      * intro H. destruct (Nat.eq_dec t i) as [->|Hne]; [|apply FI, R1; auto].
        apply R1, OI in H. destruct Hpp; congruence.
      * intro H. destruct (Nat.eq_dec t i) as [->|Hne]; [apply SI in H; discriminate|]. apply R1, FI; auto.
      * intro H. destruct (Nat.eq_dec t i) as [->|Hne]; [|apply FI, R2; auto].
        apply R2, OI in H. destruct Hpp; congruence.
      * intro H. destruct (Nat.eq_dec t i) as [->|Hne]; [apply SI in H; discriminate|]. apply R2, FI; auto.
      * intro H. destruct (Nat.eq_dec t i) as [->|Hne]; [|apply FW, R3; auto].
        apply R3, OW in H. destruct Hpp as [->| ->]; destruct H; discriminate.
      * intro H. destruct (Nat.eq_dec t i) as [->|Hne]; [apply SW in H; destruct H; discriminate|]. apply R3, FW; auto.
      * intros r ws H w Hw. destruct (assoc_nat i (wait_r m)); [eapply R4; eassumption|].
        destruct H as [H|H]; [injection H as <- <-; exact Hw | eapply R4; eassumption].
    + (* writer blocks: it is registered from now on *)
      split; [reflexivity|]. split; [reflexivity|]. unfold R; cbn [in_r in_w wait_w wait_r].
      assert (WW : forall t, In t (if mem_nat i (wait_w m) then wait_w m else wait_w m ++ [i])
                            <-> In t (wait_w m) \/ t = i).
      { intro t. destruct (mem_nat i (wait_w m)) eqn:E.
        - apply mem_nat_In in E. split; [auto | intros [H| ->]; auto].
        - rewrite in_app_iff. simpl. split.
          + intros [H|[H|[]]]; [left; exact H | right; symmetry; exact H].
          + intros [H|H]; [left; exact H | right; left; symmetry; exact H]. }
      repeat split.
      * intro H. destruct (Nat.eq_dec t i) as [->|Hne]; [|apply FI, R1; auto].
        apply R1, OI in H. destruct Hpp; congruence.
      * intro H. destruct (Nat.eq_dec t i) as [->|Hne]; [apply SI in H; discriminate|]. apply R1, FI; auto.
      * intro H. destruct (Nat.eq_dec t i) as [->|Hne]; [|apply FI, R2; auto].
        apply R2, OI in H. destruct Hpp; congruence.
      * intro H. destruct (Nat.eq_dec t i) as [->|Hne]; [apply SI in H; discriminate|]. apply R2, FI; auto.
      * intro H. apply WW in H. destruct (Nat.eq_dec t i) as [->|Hne]; [apply SW; auto|].
        destruct H as [H|H]; [|congruence]. apply FW, R3; auto.
      * intro H. apply WW. destruct (Nat.eq_dec t i) as [->|Hne]; [auto|]. left. apply R3, FW; auto.
      * intros r ws H w Hw. apply WW. left. eapply R4; eassumption.
  - (* reader enters: nobody writes, nobody waits *)
    assert (NW : in_w m = []) by (apply no_members; intros t H; apply R2 in H; exact (no_writer_inside c I Hwa t H)).
    assert (NQ : wait_w m = []) by (apply no_members; intros t H; apply R3 in H; exact (no_writer_waiting c I Hww t H)).
    eexists. split; [reflexivity|]. unfold mon_event; cbn [e_tid e_kind e_what fst snd]. split.
    + rewrite NW, NQ. destruct (assoc_nat i (wait_r m)) as [ws|] eqn:E; [|reflexivity].
      destruct ws as [|w ws]; [reflexivity|]. exfalso.
      pose proof (R4 _ _ (assoc_In _ _ _ E) w (or_introl eq_refl)) as H. rewrite NQ in H. exact H.
    + split; [reflexivity|]. unfold R; cbn [in_r in_w wait_w wait_r]. repeat split.
      * intros [->|H]; [apply SI; reflexivity|]. destruct (Nat.eq_dec t i) as [->|Hne]; [apply SI; reflexivity|].
        apply FI, R1; auto.
      * intro H. destruct (Nat.eq_dec t i) as [->|Hne]; [left; reflexivity|]. right. apply R1, FI; auto.
      * intro H. destruct (Nat.eq_dec t i) as [->|Hne]; [|apply FI, R2; auto].
        apply R2, OI in H. destruct Hpp; congruence.
      * intro H. destruct (Nat.eq_dec t i) as [->|Hne]; [apply SI in H; discriminate|]. apply R2, FI; auto.
      * intro H. rewrite NQ in H. destruct H.
      * intro H. destruct (Nat.eq_dec t i) as [->|Hne]; [apply SW in H; destruct H; discriminate|].
        apply R3, FW; auto.
      * intros r ws H w Hw. apply In_remove_assoc in H. eapply R4; eassumption.
  - (* writer enters: nobody inside *)
    assert (NW : in_w m = []) by (apply no_members; intros t H; apply R2 in H; exact (no_writer_inside c I Hwa t H)).
    assert (NR : in_r m = []) by (apply no_members; intros t H; apply R1 in H; exact (no_reader_inside c I Har t H)).
    eexists. split; [reflexivity|]. unfold mon_event; cbn [e_tid e_kind e_what fst snd]. split.
    + rewrite NW, NR. reflexivity.
    + split; [reflexivity|]. unfold R; cbn [in_r in_w wait_w wait_r]. repeat split.
      * intro H. destruct (Nat.eq_dec t i) as [->|Hne]; [|apply FI, R1; auto].
        apply R1, OI in H. destruct Hpp; congruence.
      * intro H. destruct (Nat.eq_dec t i) as [->|Hne]; [apply SI in H; discriminate|]. apply R1, FI; auto.
      * intros [->|H]; [apply SI; reflexivity|]. destruct (Nat.eq_dec t i) as [->|Hne]; [apply SI; reflexivity|].
        apply FI, R2; auto.
      * intro H. destruct (Nat.eq_dec t i) as [->|Hne]; [left; reflexivity|]. right. apply R2, FI; auto.
      * intro H. apply In_remove_nat in H. destruct H as [H Hne]. apply FW, R3; auto.
      * intro H. destruct (Nat.eq_dec t i) as [->|Hne]; [apply SW in H; destruct H; discriminate|].
        apply In_remove_nat. split; [apply R3, FW; auto | exact Hne].
      * intros r ws H w Hw. apply in_map_iff in H. destruct H as ([r0 ws0] & E & H0). simpl in E.
        injection E as <- <-. apply In_remove_nat in Hw. destruct Hw as [Hw Hne].
        apply In_remove_nat. split; [eapply R4; eassumption | exact Hne].
  - (* leaves *)
    eexists. split; [reflexivity|]. destruct k; unfold mon_event; cbn [e_tid e_kind e_what fst snd].
    + split; [reflexivity|]. split; [reflexivity|]. unfold R; cbn [in_r in_w wait_w wait_r]. repeat split.
      * intro H. apply In_remove_nat in H. destruct H as [H Hne]. apply FI, R1; auto.
      * intro H. destruct (Nat.eq_dec t i) as [->|Hne]; [apply SI in H; discriminate|].
        apply In_remove_nat. split; [apply R1, FI; auto | exact Hne].
      * intro H. destruct (Nat.eq_dec t i) as [->|Hne]; [|apply FI, R2; auto].
        apply R2, OI in H. discriminate.
      * intro H. destruct (Nat.eq_dec t i) as [->|Hne]; [apply SI in H; discriminate|]. apply R2, FI; auto.
      * intro H. destruct (Nat.eq_dec t i) as [->|Hne]; [|apply FW, R3; auto].
        apply R3, OW in H. destruct H; discriminate.
      * intro H. destruct (Nat.eq_dec t i) as [->|Hne]; [apply SW in H; destruct H; discriminate|]. apply R3, FW; auto.
      * exact R4.
    + split; [reflexivity|]. split; [reflexivity|]. unfold R; cbn [in_r in_w wait_w wait_r]. repeat split.
      * intro H. destruct (Nat.eq_dec t i) as [->|Hne]; [|apply FI, R1; auto].
        apply R1, OI in H. discriminate.
      * intro H. destruct (Nat.eq_dec t i) as [->|Hne]; [apply SI in H; discriminate|]. apply R1, FI; auto.
      * intro H. apply In_remove_nat in H. destruct H as [H Hne]. apply FI, R2; auto.
      * intro H. destruct (Nat.eq_dec t i) as [->|Hne]; [apply SI in H; discriminate|].
        apply In_remove_nat. split; [apply R2, FI; auto | exact Hne].
      * intro H. destruct (Nat.eq_dec t i) as [->|Hne]; [|apply FW, R3; auto].
        apply R3, OW in H. destruct H; discriminate.
      * intro H. destruct (Nat.eq_dec t i) as [->|Hne]; [apply SW in H; destruct H; discriminate|]. apply R3, FW; auto.
      * exact R4.
Qed.

Lemma mon_trace_ok s : forall c m n, Inv c -> R m c ->
  mon_trace m n (events rw_step c s) (None, None, None) = (None, None, None).
Proof.
  induction s as [|i s IH]; intros c m n I HR; simpl; [reflexivity|].
  destruct (rw_step c i) as [c1|] eqn:Hs; [|reflexivity].
  destruct (spec_step m c i c1 I HR Hs) as (e & He & Hv & _ & HR').
  rewrite He. simpl. destruct (mon_event m e) as [m' [[x y] w]]. simpl in Hv, HR'.
  injection Hv as -> -> ->. apply IH; [eapply inv_step; eassumption | exact HR'].
Qed.

(* every trace of the abstract system is accepted by the specification the harness evaluates on
   the real lock's traces: exclusion, strong preference and preference as worded never fail *)
Theorem trace_spec_ok progs s : spec_trace (events rw_step (init progs) s) = (None, None, None).
Proof. apply mon_trace_ok; [apply inv_init | apply R_init]. Qed.

Lemma share_trace_ok s : forall c m n, Inv c -> R m c ->
  share_trace m n (events rw_step c s) = None.
Proof.
  induction s as [|i s IH]; intros c m n I HR; simpl; [reflexivity|].
  destruct (rw_step c i) as [c1|] eqn:Hs; [|reflexivity].
  destruct (spec_step m c i c1 I HR Hs) as (e & He & _ & Hsh & HR').
  rewrite He. simpl. rewrite Hsh. apply IH; [eapply inv_step; eassumption | exact HR'].
Qed.

(* readers share, on traces: a reader's acquire never blocks unless a writer is inside or registered *)
Theorem trace_share_ok progs s : spec_share (events rw_step (init progs) s) = None.
Proof. apply share_trace_ok; [apply inv_init | apply R_init]. Qed.
