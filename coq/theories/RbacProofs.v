(* RbacProofs.v — the RBAC query API agrees with enforcement (C15).  Lemmas about the EXISTING model
   functions of Mgmt.v: get_implicit_roles / get_implicit_permissions /
   get_implicit_users_for_permission / rmk_get_roles / rmk_get_users / enforce_ex_m.
   No bound on the number of names, rules, assignments or on the shape of the role graph (cycles,
   diamonds, self-loops). *)
From Coq Require Import List NArith Bool Arith Lia.
From PyCasbin Require Import Base Effect Enforce EnforceProofs Policy PolicyProofs RoleGraph RoleGraphProofs
  Mgmt MgmtLinks MgmtProofs DomainProofs.
Import ListNotations.
Local Open Scope N_scope.

(* ------------------------------------------------------------------------------------------ *)
(* 1. the queue/result loop of get_implicit_roles_for_user, over an arbitrary successor function *)

Lemma mem_N_false (x : N) l : mem N.eqb x l = false <-> ~ In x l.
Proof. rewrite <- mem_N_In. destruct (mem N.eqb x l); split; congruence. Qed.

(* `for r in roles: if r not in res: res.append(r); queue.append(r)` *)
Lemma append_new_spec : forall roles res q res' q',
  append_new res q roles = (res', q') ->
  exists nw, res' = res ++ nw /\ q' = q ++ nw
    /\ (NoDup res -> NoDup res')
    /\ (forall x, In x res' <-> In x res \/ In x roles).
Proof.
  induction roles as [|r roles IH]; intros res q res' q' H; simpl in H.
  - inversion H; subst. exists []. rewrite !app_nil_r. split; [reflexivity|]. split; [reflexivity|].
    split; [auto|]. intro x. simpl. tauto.
  - destruct (mem N.eqb r res) eqn:M.
    + destruct (IH _ _ _ _ H) as [nw [E1 [E2 [Hnd Hin]]]]. exists nw. repeat split; auto.
      * intro Hx. apply Hin in Hx. simpl. tauto.
      * intros [Hx|[Hx|Hx]]; apply Hin; auto. subst x. left. apply mem_N_In. exact M.
    + destruct (IH _ _ _ _ H) as [nw [E1 [E2 [Hnd Hin]]]]. exists (r :: nw).
      rewrite <- !app_assoc in E1, E2. simpl in E1, E2. repeat split; auto.
      * intro Hr. apply Hnd. apply NoDup_app_snoc; [exact Hr|]. apply mem_N_false. exact M.
      * intro Hx. apply Hin in Hx. rewrite in_app_iff in Hx. simpl in *. tauto.
      * intros Hx. apply Hin. rewrite in_app_iff. simpl in *. tauto.
Qed.

Section Bfs.
  Variable succ : name -> list name.
  Local Notation E := (succ_edge succ).

  Fixpoint bfs (fuel : nat) (res queue : list name) : option (list name) :=
    match queue with
    | [] => Some res
    | n :: q =>
        match fuel with
        | O => None
        | S f => let '(res1, q1) := append_new res q (succ n) in bfs f res1 q1
        end
    end.

  (* every name that can ever enter the result *)
  Variable T : list name.
  Hypothesis succ_T : forall a b, In b (succ a) -> In b T.

  Variable u : name.

  (* reach+ : at least one assignment *)
  Definition reach1 (x : name) : Prop := exists k, path E (S k) u x.

  Lemma path_snoc : forall k a b c, path E k a b -> E b c -> path E (S k) a c.
  Proof.
    intros k a b c P. induction P as [a|k a x b Hax _ IH]; intro Hbc.
    - econstructor; [exact Hbc|constructor].
    - econstructor; [exact Hax|apply IH; exact Hbc].
  Qed.

  Definition bfs_inv (res queue : list name) : Prop :=
    NoDup res /\ incl res T
    /\ (forall x, In x res -> reach1 x)
    /\ (forall x, In x queue -> x = u \/ In x res)
    /\ (forall x, x = u \/ In x res -> In x queue \/ (forall y, E x y -> In y res)).

  Lemma bfs_inv_init : bfs_inv [] [u].
  Proof.
    repeat split.
    - constructor.
    - intros x [].
    - intros x [].
    - intros x [Hx|[]]. left. symmetry. exact Hx.
    - intros x [Hx|[]]. left. left. symmetry. exact Hx.
  Qed.

  Lemma bfs_inv_step n q res res1 q1 :
    bfs_inv res (n :: q) -> append_new res q (succ n) = (res1, q1) ->
    bfs_inv res1 q1 /\ (length res1 + length q = length q1 + length res)%nat.
  Proof.
    intros [Hnd [HT [Hr [Hq Hc]]]] H.
    destruct (append_new_spec _ _ _ _ _ H) as [nw [E1 [E2 [Hnd' Hin]]]].
    split; [|subst; rewrite !app_length; lia].
    assert (Hn : n = u \/ In n res) by (apply Hq; left; reflexivity).
    repeat split.
    - apply Hnd'. exact Hnd.
    - intros x Hx. apply Hin in Hx. destruct Hx as [Hx|Hx]; [apply HT; exact Hx|apply (succ_T n); exact Hx].
    - intros x Hx. apply Hin in Hx. destruct Hx as [Hx|Hx]; [apply Hr; exact Hx|].
      destruct Hn as [->|Hn].
      + exists 0%nat. econstructor; [exact Hx|constructor].
      + destruct (Hr n Hn) as [k Hp]. exists (S k). apply (path_snoc _ _ _ _ Hp). exact Hx.
    - intros x Hx. subst q1. apply in_app_iff in Hx. destruct Hx as [Hx|Hx].
      + destruct (Hq x (or_intror Hx)) as [->|Hx']; [left; reflexivity|right; apply Hin; left; exact Hx'].
      + right. subst res1. apply in_app_iff. right. exact Hx.
    - intros x Hx.
      assert (Hx' : x = u \/ In x res \/ In x nw).
      { destruct Hx as [Hx|Hx]; [left; exact Hx|]. subst res1. apply in_app_iff in Hx. tauto. }
      destruct Hx' as [Hx'|[Hx'|Hx']].
      + destruct (Hc x (or_introl Hx')) as [[Hh|Ht]|Hd].
        * right. subst x. intros y Hy. apply Hin. right. rewrite Hh. exact Hy.
        * left. subst q1. apply in_app_iff. left. exact Ht.
        * right. intros y Hy. apply Hin. left. apply Hd. exact Hy.
      + destruct (Hc x (or_intror Hx')) as [[Hh|Ht]|Hd].
        * right. intros y Hy. apply Hin. right. rewrite Hh. exact Hy.
        * left. subst q1. apply in_app_iff. left. exact Ht.
        * right. intros y Hy. apply Hin. left. apply Hd. exact Hy.
      + left. subst q1. apply in_app_iff. right. exact Hx'.
  Qed.

  (* when the queue is empty the result is closed under the edges and holds the user's successors *)
  Lemma bfs_inv_done res : bfs_inv res [] ->
    NoDup res /\ forall x, In x res <-> reach1 x.
  Proof.
    intros [Hnd [_ [Hr [_ Hc]]]]. split; [exact Hnd|]. intro x. split; [apply Hr|].
    intros [k Hp].
    assert (G : forall j a b, path E j a b -> (a = u \/ In a res) -> (0 < j)%nat -> In b res).
    { intros j a b P. induction P as [a|j a y b Hay P IH]; intros Ha Hj; [lia|].
      destruct (Hc a Ha) as [[]|Hd]. specialize (Hd y Hay).
      destruct j as [|j]; [inversion P; subst; exact Hd|]. apply IH; [right; exact Hd|lia]. }
    apply (G (S k) u x Hp); [left; reflexivity|lia].
  Qed.

  Lemma bfs_total : forall fuel res queue,
    bfs_inv res queue -> (length queue + length T <= fuel + length res)%nat ->
    exists roles, bfs fuel res queue = Some roles /\ NoDup roles /\ forall x, In x roles <-> reach1 x.
  Proof.
    induction fuel as [|f IH]; intros res queue HI Hm.
    - destruct queue as [|n q].
      + exists res. split; [reflexivity|]. apply bfs_inv_done. exact HI.
      + exfalso. destruct HI as [Hnd [HT _]]. pose proof (NoDup_incl_length Hnd HT). simpl in Hm. lia.
    - destruct queue as [|n q].
      + exists res. split; [reflexivity|]. apply bfs_inv_done. exact HI.
      + cbn [bfs]. destruct (append_new res q (succ n)) as [res1 q1] eqn:A.
        destruct (bfs_inv_step n q res res1 q1 HI A) as [HI' Hl].
        apply IH; [exact HI'|]. simpl in Hm. lia.
  Qed.

  Theorem bfs_is_reach : forall fuel, (S (length T) <= fuel)%nat ->
    exists roles, bfs fuel [] [u] = Some roles /\ NoDup roles /\ forall x, In x roles <-> reach1 x.
  Proof. intros fuel H. apply bfs_total; [apply bfs_inv_init|simpl; lia]. Qed.
End Bfs.

(* ------------------------------------------------------------------------------------------ *)
(* 2. get_implicit_roles IS that loop, in every state satisfying the C04 invariant             *)

(* the assignments in force in domain d (in a model without domains: all of them), as C04 defines them *)
Definition links_at (k : mkind) (s : mstate) (d : name) : list link := canon_links k (m_g s) d.
Definition succ_at (k : mkind) (s : mstate) (d : name) (n : name) : list name :=
  rm_get_roles (rm_set MAXLVL (links_at k s d)) n.

Lemma succ_at_edge k s d a b : succ_edge (succ_at k s d) a b <-> link_edge (links_at k s d) a b.
Proof. unfold succ_edge, succ_at, rm_get_roles. apply (rm_edge_set MAXLVL). Qed.

Lemma path_succ_at k s d n a b :
  path (succ_edge (succ_at k s d)) n a b <-> path (link_edge (links_at k s d)) n a b.
Proof. apply path_iff. intros x y. apply succ_at_edge. Qed.

Lemma impl_roles_bfs k d : k_g k = true -> k_g2 k = false -> forall fuel s res queue,
  Inv k s ->
  match impl_roles fuel k s d res queue with
  | Ok (roles, s') => bfs (succ_at k s d) fuel res queue = Some roles /\ Inv k s' /\ same_stores s s'
  | Err _ => bfs (succ_at k s d) fuel res queue = None
  end.
Proof.
  intros Hg Hg2. induction fuel as [|f IH]; intros s res queue HI; destruct queue as [|n q]; cbn [impl_roles bfs].
  - split; [reflexivity|]. split; [exact HI|apply same_stores_refl].
  - reflexivity.
  - split; [reflexivity|]. split; [exact HI|apply same_stores_refl].
  - rewrite Hg, Hg2.
    pose proof (get_roles_canon k s n d HI) as Hr.
    pose proof (synced_get_roles _ _ _ n d (proj1 HI)) as Hs.
    destruct (rmk_get_roles (m_rm s) n d) as [r1 rm'] eqn:Er. cbn [fst snd] in Hr, Hs.
    change (rm_get_roles (rm_set MAXLVL (canon_links k (m_g s) d)) n) with (succ_at k s d n) in Hr. subst r1.
    destruct (append_new res q (succ_at k s d n)) as [res1 q1] eqn:A.
    cbn [append_new].
    assert (HI' : Inv k (set_rm s rm')) by (apply Inv_set_rm; assumption).
    specialize (IH (set_rm s rm') res1 q1 HI').
    change (succ_at k (set_rm s rm') d) with (succ_at k s d) in IH.
    destruct (impl_roles f k (set_rm s rm') d res1 q1) as [[roles s']|c]; [|exact IH].
    destruct IH as [H1 [H2 H3]]. split; [exact H1|]. split; [exact H2|].
    apply (same_stores_trans s (set_rm s rm') s'); [apply same_stores_set_rm|exact H3].
Qed.

Lemma filter_len {A} (f : A -> bool) l : (length (filter f l) <= length l)%nat.
Proof. induction l as [|x l IH]; simpl; [lia|]. destruct (f x); simpl; lia. Qed.

Lemma links_at_length k s d : (length (links_at k s d) <= length (m_g s))%nat.
Proof.
  unfold links_at, canon_links, glinks_dom, glinks. destruct (k_dom k); rewrite map_length; [apply filter_len|lia].
Qed.

(* get_implicit_roles_for_user: never runs out of fuel, reports every role once, and reports exactly
   the names reachable from the user by at least one assignment (of the queried domain) *)
Theorem implicit_roles_reach k s u d : k_g k = true -> k_g2 k = false -> Inv k s ->
  exists roles s', get_implicit_roles k s u d = Ok (roles, s')
    /\ NoDup roles
    /\ (forall r, In r roles <-> exists n, path (link_edge (links_at k s d)) (S n) u r)
    /\ Inv k s' /\ same_stores s s'.
Proof.
  intros Hg Hg2 HI. unfold get_implicit_roles.
  pose proof (impl_roles_bfs k d Hg Hg2 (names_bound s) s [] [u] HI) as H.
  destruct (bfs_is_reach (succ_at k s d) (map snd (links_at k s d))) with (u := u) (fuel := names_bound s)
    as [roles [Hb [Hnd Hin]]].
  - intros a b Hab. apply succ_at_edge in Hab. apply (in_map snd) in Hab. exact Hab.
  - rewrite map_length. pose proof (links_at_length k s d). unfold names_bound.
    unfold link in *. destruct (m_rm s); lia.
  - rewrite Hb in H. destruct (impl_roles (names_bound s) k s d [] [u]) as [[roles' s']|c]; [|discriminate].
    destruct H as [H1 [H2 H3]]. inversion H1; subst roles'. exists roles, s'.
    split; [reflexivity|]. split; [exact Hnd|]. split; [|split; assumption].
    intro r. rewrite Hin. unfold reach1. split; intros [n Hp]; exists n; apply path_succ_at; exact Hp.
Qed.

(* ------------------------------------------------------------------------------------------ *)
(* 3. the decision of an RBAC model, in terms of the assignments and the permission rules      *)

(* the property's premise: matcher  g(r.sub, p.sub[, r.dom]) && [r.dom == p.dom &&] r.obj == p.obj &&
   r.act == p.act,  policy  p = sub, [dom,] obj, act,  effect  some(where (p.eft == allow)) *)
Definition rbac_kind (k : mkind) : Prop :=
  k_g k = true /\ k_g2 k = false /\ k_eft k = false /\ k_prio k = false /\ k_eff k = AO.

Definition mk_req (k : mkind) (u d o a : name) : rule := if k_dom k then [u; d; o; a] else [u; o; a].

(* names are non-empty strings: "" is the wildcard of get_filtered_policy, and the empty-policy branch
   of enforce judges the matcher against rule fields that are all "" *)
Definition dom_ok (k : mkind) (d : name) : Prop := if k_dom k then d <> 0 else d = 0.

(* r's subject is reachable from u in fewer than max_hierarchy_level assignments *)
Definition near (ls : list link) (u x : name) : Prop := exists j, (j < MAXLVL)%nat /\ path (link_edge ls) j u x.

Lemma g_link_near k s u x d : Inv k s ->
  g_link (m_rm s) u x d = true <-> near (links_at k s d) u x.
Proof. intro HI. rewrite (g_link_canon k s u x d HI). apply has_link_set. Qed.

Lemma links_at_plain k s d d' : k_dom k = false -> links_at k s d = links_at k s d'.
Proof. intro H. unfold links_at, canon_links. rewrite H. reflexivity. Qed.

(* what the matcher says of one rule *)
Definition rule_grants (k : mkind) (s : mstate) (u d o a : name) (r : rule) : Prop :=
  near (links_at k s d) u (fld r 0)
  /\ (k_dom k = true -> fld r 1 = d) /\ fld r (i_obj k) = o /\ fld r (i_act k) = a.

Lemma rule_matches_grants k s u d o a r : rbac_kind k -> Inv k s -> dom_ok k d ->
  rule_matches k s (mk_req k u d o a) r = true <-> rule_grants k s u d o a r.
Proof.
  intros [Hg [Hg2 [He [Hp Hf]]]] HI Hd. unfold rule_matches, rule_grants, mk_req, i_act, i_obj, i_dom, i_sub, dom_ok in *.
  rewrite Hg, Hg2, Hp. destruct (k_dom k) eqn:Kd; cbn [fld nth].
  - rewrite !andb_true_iff, !N.eqb_eq, (g_link_near k s u _ d HI). intuition congruence.
  - rewrite !andb_true_iff, !N.eqb_eq, (g_link_near k s u _ empty_dom HI).
    rewrite (links_at_plain k s empty_dom d Kd). intuition congruence.
Qed.

Lemma existsb_outcomes k s req : k_eft k = false -> forall l,
  Forall (fun r => length r = p_arity k) l ->
  existsb is_allow (map (rule_outcome k s req) l) = existsb (rule_matches k s req) l.
Proof.
  intros He l H. induction H as [|r l Hr Hl IH]; [reflexivity|]. cbn [map existsb]. rewrite IH. f_equal.
  unfold rule_outcome. rewrite Hr, Nat.eqb_refl, He. cbn [negb]. destruct (rule_matches k s req r); reflexivity.
Qed.

(* enforce never raises on a well-formed policy and request, and allows iff some rule matches *)
Lemma enforce_char k s req : rbac_kind k -> wf_p k s -> m_enabled s = true ->
  length req = r_arity k -> rule_matches k s req (empty_rule k) = false ->
  decision_of (snd (enforce_ex_m k s req)) = Ok (existsb (rule_matches k s req) (m_p s)).
Proof.
  intros [Hg [Hg2 [He [Hp Hf]]]] Hwf Hen Hlen Hem. unfold enforce_ex_m. cbn [snd].
  rewrite Hen, Hlen, Nat.eqb_refl, Hem, Hf.
  destruct (decision_is_spec_total AO (map (rule_outcome k s req) (m_p s)) (no_bad_outcomes k s req (m_p s) Hwf))
    as [ex H].
  unfold enforce_ex_ref, on in H. rewrite H. cbn [decision_of spec_decision].
  rewrite (existsb_outcomes k s req He (m_p s) Hwf). reflexivity.
Qed.

Lemma fld_empty_rule k i : fld (empty_rule k) i = 0.
Proof.
  unfold fld, empty_rule. generalize (p_arity k) as n. intro n. revert i.
  induction n as [|n IH]; intro i; destruct i; simpl; auto.
Qed.

(* the path's last step *)
Lemma path_last (E : name -> name -> Prop) : forall k a c, path E (S k) a c -> exists b, path E k a b /\ E b c.
Proof.
  induction k as [|k IH]; intros a c P; inversion P as [|? ? b ? Hab Hbc]; subst.
  - inversion Hbc; subst. exists a. split; [constructor|exact Hab].
  - destruct (IH b c Hbc) as [x [Hx Hxc]]. exists x. split; [econstructor; eauto|exact Hxc].
Qed.

(* no assignment makes "" a role *)
Definition no_empty_role (ls : list link) : Prop := forall x, ~ In (x, 0) ls.

Lemma empty_rule_inert k s u d o a : rbac_kind k -> Inv k s -> dom_ok k d ->
  u <> 0 -> no_empty_role (links_at k s d) ->
  rule_matches k s (mk_req k u d o a) (empty_rule k) = false.
Proof.
  intros Hk HI Hd Hu Hne. destruct (rule_matches k s (mk_req k u d o a) (empty_rule k)) eqn:E; [|reflexivity].
  exfalso. apply (rule_matches_grants k s u d o a _ Hk HI Hd) in E. destruct E as [[j [_ Hp]] _].
  rewrite fld_empty_rule in Hp. destruct j as [|j].
  - inversion Hp; subst. apply Hu. reflexivity.
  - destruct (path_last _ _ _ _ Hp) as [b [_ Hb]]. exact (Hne b Hb).
Qed.

(* ------------------------------------------------------------------------------------------ *)
(* 4. get_implicit_permissions_for_user                                                        *)

Lemma filter_match_total r i vs : (i + length vs <= length r)%nat -> exists b, filter_match r i vs = Some b.
Proof.
  revert i. induction vs as [|v vs IH]; intros i H; simpl; [eauto|]. simpl in H.
  destruct (v =? 0); [apply IH; lia|]. unfold field.
  destruct (nth_error r i) as [x|] eqn:E; [|apply nth_error_None in E; lia].
  destruct (x =? v); [apply IH; lia|eauto].
Qed.

Lemma get_filtered_total : forall l i vs, Forall (fun r => (i + length vs <= length r)%nat) l ->
  exists out, get_filtered l i vs = Ok out.
Proof.
  induction l as [|r l IH]; intros i vs H; simpl; [eauto|]. inversion H; subst.
  destruct (filter_match_total r i vs) as [b Hb]; [assumption|]. rewrite Hb.
  destruct (IH i vs) as [out Ho]; [assumption|]. rewrite Ho. eauto.
Qed.

Lemma perms_for_spec (l : store) d : Forall (fun r => (2 <= length r)%nat) l -> forall roles,
  exists out, perms_for l roles d = Ok out
    /\ forall r, In r out <-> In r l /\ exists x, In x roles /\ sel 0 [x; d] r.
Proof.
  intros Hl. induction roles as [|x roles [out [Ho Hin]]]; simpl.
  - exists []. split; [reflexivity|]. intro r. simpl. split; [tauto|]. intros [_ [y [[] _]]].
  - destruct (get_filtered_total l 0 [x; d]) as [a Ha]; [exact Hl|]. rewrite Ha, Ho.
    exists (a ++ out). split; [reflexivity|]. intro r. rewrite in_app_iff, Hin, (get_filtered_exact l 0 [x; d] a Ha r).
    split.
    + intros [[H1 H2]|[H1 [y [Hy H2]]]]; (split; [exact H1|]); [exists x|exists y]; auto.
    + intros [H1 [y [[Hy|Hy] H2]]]; [left; subst; auto|right; eauto].
Qed.

Lemma sel_pair x d r : x <> 0 ->
  sel 0 [x; d] r <-> nth_error r 0 = Some x /\ (d <> 0 -> nth_error r 1 = Some d).
Proof.
  intro Hx. unfold sel. split.
  - intro H. split; [apply (H 0%nat x eq_refl Hx)|intro Hd; apply (H 1%nat d eq_refl Hd)].
  - intros [H0 H1] j v Hj Hv. destruct j as [|[|j]]; simpl in Hj.
    + inversion Hj; subst. exact H0.
    + inversion Hj; subst. apply H1. exact Hv.
    + destruct j; discriminate.
Qed.

Lemma fld_nth_error r i x : nth_error r i = Some x -> fld r i = x.
Proof. intro H. unfold fld. apply nth_error_nth. exact H. Qed.

Lemma nth_error_fld r i : (i < length r)%nat -> nth_error r i = Some (fld r i).
Proof. intro H. unfold fld. apply nth_error_nth'. exact H. Qed.

Lemma p_arity_rbac k : rbac_kind k -> p_arity k = if k_dom k then 4%nat else 3%nat.
Proof.
  intros [_ [_ [He [Hp _]]]]. unfold p_arity, i_eft, i_act, i_obj, i_sub. rewrite He, Hp.
  destruct (k_dom k); reflexivity.
Qed.

(* "within the hierarchy depth bound": whatever is reachable from u at all is reachable in fewer than
   max_hierarchy_level (10) assignments *)
Definition shallow (ls : list link) (u : name) : Prop :=
  forall x n, path (link_edge ls) n u x -> near ls u x.

(* get_implicit_permissions_for_user never raises on a well-formed policy and returns exactly the rules
   (of the domain) whose subject is the user or one of its implicit roles *)
Lemma implicit_permissions_char k s u d : rbac_kind k -> Inv k s -> wf_p k s -> dom_ok k d ->
  u <> 0 -> no_empty_role (links_at k s d) ->
  exists perms s', get_implicit_permissions k s u d = Ok (perms, s')
    /\ Inv k s' /\ same_stores s s'
    /\ forall r, In r perms <->
         In r (m_p s) /\ (exists n, path (link_edge (links_at k s d)) n u (fld r 0))
         /\ (k_dom k = true -> fld r 1 = d).
Proof.
  intros Hk HI Hwf Hd Hu Hne. pose proof Hk as [Hg [Hg2 _]].
  destruct (implicit_roles_reach k s u d Hg Hg2 HI) as [roles [s' [Hr [Hnd [Hin [HI' Hs]]]]]].
  unfold get_implicit_permissions. rewrite Hr. cbn beta iota.
  assert (Hp : m_p s' = m_p s) by (destruct Hs as [E _]; exact E). rewrite Hp.
  assert (Hlen : Forall (fun r => (2 <= length r)%nat) (m_p s)).
  { unfold wf_p in Hwf. rewrite Forall_forall in *. intros r Hr'. rewrite (Hwf r Hr'), (p_arity_rbac k Hk).
    destruct (k_dom k); lia. }
  destruct (perms_for_spec (m_p s) d Hlen (u :: roles)) as [out [Ho Hout]].
  assert (G : match perms_for (m_p s) (u :: roles) d with Ok l => Ok (l, s') | Err c => Err c end = Ok (out, s'))
    by (rewrite Ho; reflexivity).
  exists out, s'. split; [exact G|]. split; [exact HI'|]. split; [exact Hs|].
  intro r. rewrite Hout. split.
  - intros [Hr' [x [Hx Hsel]]]. split; [exact Hr'|].
    assert (Hx0 : x <> 0).
    { destruct Hx as [<-|Hx]; [exact Hu|]. apply Hin in Hx. destruct Hx as [n Hpth].
      destruct (path_last _ _ _ _ Hpth) as [b [_ Hb]]. intro; subst x. exact (Hne b Hb). }
    apply (sel_pair x d r Hx0) in Hsel. destruct Hsel as [H0 H1].
    rewrite (fld_nth_error r 0 x H0). split.
    + destruct Hx as [<-|Hx]; [exists 0%nat; constructor|]. apply Hin in Hx. destruct Hx as [n Hpth]. eauto.
    + intro Kd. unfold dom_ok in Hd. rewrite Kd in Hd. apply fld_nth_error. apply H1. exact Hd.
  - intros [Hr' [[n Hpth] Hdom]]. split; [exact Hr'|]. exists (fld r 0).
    assert (Hl2 : (2 <= length r)%nat) by (rewrite Forall_forall in Hlen; apply Hlen; exact Hr').
    assert (Hx : fld r 0 = u \/ In (fld r 0) roles).
    { destruct n as [|n]; [inversion Hpth; subst; left; reflexivity|right; apply Hin; eauto]. }
    assert (Hx0 : fld r 0 <> 0).
    { destruct Hx as [->|Hx]; [exact Hu|]. apply Hin in Hx. destruct Hx as [m Hm].
      destruct (path_last _ _ _ _ Hm) as [b [_ Hb]]. intro E0. rewrite E0 in Hb. exact (Hne b Hb). }
    split; [destruct Hx as [Hx|Hx]; [left; symmetry; exact Hx|right; exact Hx]|].
    apply (sel_pair _ d r Hx0). split; [apply nth_error_fld; lia|].
    intro Hd0. unfold dom_ok in Hd. destruct (k_dom k) eqn:Kd; [|contradiction].
    rewrite nth_error_fld by lia. f_equal. apply Hdom. reflexivity.
Qed.

(* C15, first clause: a request is allowed exactly when its object and action appear among
   get_implicit_permissions_for_user of the subject *)
Theorem enforce_iff_implicit_permission k s u d o a :
  rbac_kind k -> Inv k s -> wf_p k s -> m_enabled s = true -> dom_ok k d ->
  u <> 0 -> no_empty_role (links_at k s d) -> shallow (links_at k s d) u ->
  exists perms s' b,
    get_implicit_permissions k s u d = Ok (perms, s')
    /\ decision_of (snd (enforce_ex_m k s (mk_req k u d o a))) = Ok b
    /\ (b = true <-> exists r, In r perms /\ fld r (i_obj k) = o /\ fld r (i_act k) = a).
Proof.
  intros Hk HI Hwf Hen Hd Hu Hne Hsh.
  destruct (implicit_permissions_char k s u d Hk HI Hwf Hd Hu Hne) as [perms [s' [Hp [_ [_ Hin]]]]].
  exists perms, s', (existsb (rule_matches k s (mk_req k u d o a)) (m_p s)).
  split; [exact Hp|]. split.
  - apply enforce_char; try assumption.
    + unfold mk_req, r_arity. destruct (k_dom k); reflexivity.
    + apply empty_rule_inert; assumption.
  - rewrite existsb_exists. split.
    + intros [r [Hr Hm]]. apply (rule_matches_grants k s u d o a r Hk HI Hd) in Hm.
      destruct Hm as [[j [_ Hj]] [Hdm [Ho Ha]]]. exists r. split; [|split; assumption].
      apply Hin. split; [exact Hr|]. split; [eauto|exact Hdm].
    + intros [r [Hr [Ho Ha]]]. apply Hin in Hr. destruct Hr as [Hr [[n Hn] Hdm]]. exists r. split; [exact Hr|].
      apply (rule_matches_grants k s u d o a r Hk HI Hd). split; [apply (Hsh _ n); exact Hn|]. auto.
Qed.

(* ------------------------------------------------------------------------------------------ *)
(* 5. get_implicit_users_for_permission                                                        *)

Lemma values_for_field_spec i : forall (l : store) acc,
  Forall (fun r => (i < length r)%nat) l -> NoDup acc ->
  exists out, values_for_field l i acc = Ok out /\ NoDup out
    /\ forall x, In x out <-> In x acc \/ exists r, In r l /\ fld r i = x.
Proof.
  induction l as [|r l IH]; intros acc Hl Hacc; simpl.
  - exists (rev acc). split; [reflexivity|]. split; [apply NoDup_rev; exact Hacc|].
    intro x. rewrite <- in_rev. split; [tauto|]. intros [H|[r [[] _]]]. exact H.
  - inversion Hl as [|? ? Hr Hl']; subst. unfold field. rewrite (nth_error_fld r i Hr).
    destruct (mem N.eqb (fld r i) acc) eqn:M.
    + destruct (IH acc Hl' Hacc) as [out [Ho [Hnd Hin]]]. exists out. split; [exact Ho|]. split; [exact Hnd|].
      intro x. rewrite Hin. split.
      * intros [H|[r' [Hr' Hx]]]; [left; exact H|right; exists r'; split; [right; exact Hr'|exact Hx]].
      * intros [H|[r' [[Hr'|Hr'] Hx]]]; [left; exact H| |right; eauto].
        subst r'. left. rewrite <- Hx. apply mem_N_In. exact M.
    + destruct (IH (fld r i :: acc) Hl') as [out [Ho [Hnd Hin]]].
      { constructor; [apply mem_N_false; exact M|exact Hacc]. }
      exists out. split; [exact Ho|]. split; [exact Hnd|].
      intro x. rewrite Hin. simpl. split.
      * intros [[H|H]|[r' [Hr' Hx]]]; [right; exists r; auto|left; exact H|right; exists r'; auto].
      * intros [H|[r' [[Hr'|Hr'] Hx]]]; [left; right; exact H|subst r'; left; left; exact Hx|right; eauto].
Qed.

Lemma dedup_first_spec : forall l seen,
  NoDup (dedup_first seen l) /\ forall x, In x (dedup_first seen l) <-> In x l /\ ~ In x seen.
Proof.
  induction l as [|y l IH]; intro seen; simpl.
  - split; [constructor|]. intro x. tauto.
  - destruct (mem N.eqb y seen) eqn:M.
    + destruct (IH seen) as [Hnd Hin]. split; [exact Hnd|]. intro x. rewrite Hin. apply mem_N_In in M.
      split; [tauto|]. intros [[H|H] Hn]; [subst; contradiction|tauto].
    + destruct (IH (y :: seen)) as [Hnd Hin]. apply mem_N_false in M. split.
      * constructor; [|exact Hnd]. intro H. apply Hin in H. destruct H as [_ H]. apply H. left. reflexivity.
      * intro x. simpl. rewrite Hin. simpl. split.
        -- intros [H|[H1 H2]]; [subst; tauto|tauto].
        -- intros [[H|H] Hn]; [left; exact H|].
           destruct (N.eq_dec y x) as [E|E]; [left; exact E|right; tauto].
Qed.

(* the decision as a boolean (false also when enforce raises) *)
Definition allowedb (k : mkind) (s : mstate) (req : rule) : bool :=
  match snd (enforce_ex_m k s req) with Ok (true, _) => true | _ => false end.

Lemma allowedb_decision k s req : allowedb k s req = true <-> decision_of (snd (enforce_ex_m k s req)) = Ok true.
Proof.
  unfold allowedb. destruct (snd (enforce_ex_m k s req)) as [[[|] ex]|c]; simpl; split; congruence.
Qed.

Lemma same_stores_rules s s' : same_stores s s' -> same_rules s s'.
Proof. intros [E1 [E2 [E3 E4]]]. repeat split; symmetry; assumption. Qed.

Lemma users_allowed_filter k perm s0 : Inv k s0 ->
  forall subjects s, Inv k s -> same_stores s0 s ->
  (forall u, In u subjects -> exists b, decision_of (snd (enforce_ex_m k s0 (u :: perm))) = Ok b) ->
  exists s', users_allowed k s subjects perm = (s', Ok (filter (fun u => allowedb k s0 (u :: perm)) subjects))
    /\ Inv k s' /\ same_stores s0 s'.
Proof.
  intros HI0. induction subjects as [|u rest IH]; intros s HI Hs Hok.
  - exists s. split; [reflexivity|]. split; assumption.
  - cbn [users_allowed filter].
    pose proof (decisions_depend_on_rules_only k s0 s (u :: perm) HI0 HI (same_stores_rules _ _ Hs)) as Hsame.
    pose proof (enforce_ex_m_inv k s (u :: perm) HI) as HI1.
    pose proof (enforce_ex_m_stores k s (u :: perm)) as Hs1.
    destruct (Hok u (or_introl eq_refl)) as [b Hb].
    unfold allowedb. rewrite Hsame in *. destruct (enforce_ex_m k s (u :: perm)) as [s1 r]. cbn [fst snd] in *.
    destruct r as [[b' ex]|c]; [|discriminate]. simpl in Hb. inversion Hb; subst b'.
    destruct (IH s1 HI1 (same_stores_trans _ _ _ Hs Hs1)) as [s' [Hu [HI' Hs']]].
    { intros v Hv. apply Hok. right. exact Hv. }
    rewrite Hu. exists s'. split; [|split; assumption]. destruct b; reflexivity.
Qed.

(* some field of the permission is a non-empty string *)
Definition perm_named (perm : list name) : Prop := exists x, In x perm /\ x <> 0.

Lemma empty_rule_inert_perm k s u perm : rbac_kind k -> length perm = pred (r_arity k) -> perm_named perm ->
  rule_matches k s (u :: perm) (empty_rule k) = false.
Proof.
  intros [Hg [Hg2 [He [Hp Hf]]]] Hl [x [Hx Hx0]]. unfold rule_matches. rewrite Hg2, !fld_empty_rule.
  unfold r_arity in Hl. apply N.eqb_neq in Hx0.
  destruct (k_dom k).
  - destruct perm as [|d [|o [|a [|? ?]]]]; try discriminate. cbn [fld nth].
    destruct Hx as [<-|[<-|[<-|[]]]]; rewrite Hx0; rewrite ?andb_false_r; reflexivity.
  - destruct perm as [|o [|a [|? ?]]]; try discriminate. cbn [fld nth].
    destruct Hx as [<-|[<-|[]]]; rewrite Hx0; rewrite ?andb_false_r; reflexivity.
Qed.

Lemma links_at_rule k s d a b : In (a, b) (links_at k s d) -> exists r, In r (m_g s) /\ fld r 0 = a /\ fld r 1 = b.
Proof.
  unfold links_at, canon_links, glinks_dom, glinks. intro H.
  assert (G : exists r, In r (m_g s) /\ link_of r = (a, b)).
  { destruct (k_dom k); apply in_map_iff in H; destruct H as [r [Hr Hin]];
      [apply filter_In in Hin; destruct Hin as [Hin _]|]; eauto. }
  destruct G as [r [Hr Hl]]. exists r. split; [exact Hr|]. unfold link_of in Hl. inversion Hl. split; reflexivity.
Qed.

(* C15, third clause: get_implicit_users_for_permission returns, once each, exactly the non-role subjects
   for which enforce allows the permission ("role" = named as the role of some assignment) *)
Theorem users_for_permission_exact k s perm :
  rbac_kind k -> Inv k s -> wf_p k s -> m_enabled s = true ->
  length perm = pred (r_arity k) -> perm_named perm ->
  exists users s', get_implicit_users_for_permission k s perm = (s', Ok users)
    /\ NoDup users
    /\ forall u, In u users <->
         (~ exists r, In r (m_g s) /\ fld r 1 = u)
         /\ decision_of (snd (enforce_ex_m k s (u :: perm))) = Ok true.
Proof.
  intros Hk HI Hwf Hen Hl Hpn. pose proof Hk as [Hg [Hg2 [He [Hp Hf]]]].
  assert (Hparity : forall r, In r (m_p s) -> (3 <= length r)%nat).
  { intros r Hr. unfold wf_p in Hwf. rewrite Forall_forall in Hwf. rewrite (Hwf r Hr), (p_arity_rbac k Hk).
    destruct (k_dom k); lia. }
  assert (Hgarity : forall r, In r (m_g s) -> (2 <= length r)%nat).
  { intros r Hr. destruct HI as [[_ [Ha _]] _]. rewrite (arity_ok_In _ _ _ Ha Hr), g_count_G.
    destruct (k_dom k); lia. }
  unfold get_implicit_users_for_permission.
  destruct (values_for_field_spec (i_sub k) (m_p s) []) as [psub [E1 [N1 I1]]]; [|constructor|].
  { rewrite Forall_forall. intros r Hr. specialize (Hparity r Hr). unfold i_sub. rewrite Hp. lia. }
  destruct (values_for_field_spec 1 (m_g s) []) as [ginh [E2 [N2 I2]]]; [|constructor|].
  { rewrite Forall_forall. intros r Hr. specialize (Hgarity r Hr). lia. }
  destruct (values_for_field_spec 0 (m_g s) []) as [gsub [E3 [N3 I3]]]; [|constructor|].
  { rewrite Forall_forall. intros r Hr. specialize (Hgarity r Hr). lia. }
  rewrite E1, E2, E3.
  set (subjects := set_subtract (dedup_first [] (gsub ++ psub)) ginh).
  assert (Hdec : forall u, decision_of (snd (enforce_ex_m k s (u :: perm)))
                           = Ok (existsb (rule_matches k s (u :: perm)) (m_p s))).
  { intro u. apply enforce_char; try assumption.
    - simpl. rewrite Hl. unfold r_arity. destruct (k_dom k); reflexivity.
    - apply empty_rule_inert_perm; assumption. }
  destruct (users_allowed_filter k perm s HI subjects s HI (same_stores_refl s)) as [s' [Hu [HI' Hs']]].
  { intros u _. eauto. }
  rewrite Hu. eexists. exists s'. split; [reflexivity|].
  destruct (dedup_first_spec (gsub ++ psub) []) as [Nd Id].
  split; [apply NoDup_filter; unfold subjects, set_subtract; apply NoDup_filter; exact Nd|].
  intro u. rewrite filter_In, allowedb_decision. unfold subjects, set_subtract. rewrite filter_In, Id, in_app_iff.
  rewrite negb_true_iff, mem_N_false, I1, I2, I3. cbn [In].
  split.
  - intros [[_ Hnr] Hd]. split; [|exact Hd]. intros [r [Hr Hx]]. apply Hnr. right. eauto.
  - intros [Hnr Hd]. split; [|exact Hd]. split; [split; [|tauto]|intros [[]|[r [Hr Hx]]]; apply Hnr; eauto].
    (* an allowed subject occurs as the subject of a permission rule or of an assignment *)
    rewrite Hdec in Hd. inversion Hd as [Hex]. apply existsb_exists in Hex. destruct Hex as [r [Hr Hm]].
    unfold rule_matches in Hm. rewrite Hg in Hm. apply andb_true_iff in Hm. destruct Hm as [Hm _].
    apply andb_true_iff in Hm. destruct Hm as [Hm _]. apply andb_true_iff in Hm. destruct Hm as [Hm _].
    cbn [fld nth] in Hm. apply (g_link_near k s u _ _ HI) in Hm. destruct Hm as [j [_ Hpth]].
    destruct j as [|j].
    + inversion Hpth; subst. right. right. exists r. split; [exact Hr|reflexivity].
    + inversion Hpth as [|? ? b ? Hub _]; subst. destruct (links_at_rule _ _ _ _ _ Hub) as [g [Hgin [Hg0 _]]].
      left. right. exists g. split; assumption.
Qed.

(* ------------------------------------------------------------------------------------------ *)
(* 6. get_roles_for_user / get_users_for_role                                                  *)

Lemma links_at_NoDup k s d : Inv k s -> NoDup (links_at k s d).
Proof.
  intros HI. pose proof (Inv_kdom k s HI) as Hk. destruct HI as [[Hnd [Ha Hrm]] _].
  unfold links_at, canon_links. rewrite g_count_G in Ha.
  destruct (k_dom k); [apply glinks_dom_NoDup|apply glinks_NoDup]; assumption.
Qed.

Lemma NoDup_map_snd_filter (ls : list link) a : NoDup ls ->
  NoDup (map snd (filter (fun l => fst l =? a) ls)).
Proof.
  induction 1 as [|[x y] ls Hx Hnd IH]; simpl; [constructor|].
  destruct (x =? a) eqn:E; [|exact IH]. simpl. constructor; [|exact IH].
  intro Hin. apply in_map_iff in Hin. destruct Hin as [[x' y'] [Hy Hin]]. simpl in Hy. subst y'.
  apply filter_In in Hin. destruct Hin as [Hin Hf]. simpl in Hf. apply N.eqb_eq in Hf, E. subst. contradiction.
Qed.

Lemma NoDup_map_fst_filter (ls : list link) b : NoDup ls ->
  NoDup (map fst (filter (fun l => snd l =? b) ls)).
Proof.
  induction 1 as [|[x y] ls Hx Hnd IH]; simpl; [constructor|].
  destruct (y =? b) eqn:E; [|exact IH]. simpl. constructor; [|exact IH].
  intro Hin. apply in_map_iff in Hin. destruct Hin as [[x' y'] [Hy Hin]]. simpl in Hy. subst x'.
  apply filter_In in Hin. destruct Hin as [Hin Hf]. simpl in Hf. apply N.eqb_eq in Hf, E. subst. contradiction.
Qed.

(* the assignments in force ARE the grouping rules (of the domain) *)
Lemma links_at_rules k s u r d : Inv k s ->
  In (u, r) (links_at k s d) <-> In (if k_dom k then [u; r; d] else [u; r]) (m_g s).
Proof.
  intro HI. destruct HI as [[Hnd [Ha _]] _]. rewrite g_count_G in Ha. unfold links_at, canon_links.
  destruct (k_dom k).
  - apply (glinks_dom_In (m_g s) [u; r; d] Ha eq_refl).
  - apply (glinks_In (m_g s) [u; r] Ha eq_refl).
Qed.

(* C15, fourth clause: get_users_for_role and get_roles_for_user (and the _in_domain variants) are
   inverse views of the same assignments, each reported once *)
Theorem roles_users_inverse_views k s u r d : Inv k s ->
  (In r (fst (rmk_get_roles (m_rm s) u d)) <-> In u (fst (rmk_get_users (m_rm s) r d)))
  /\ (In r (fst (rmk_get_roles (m_rm s) u d)) <-> In (if k_dom k then [u; r; d] else [u; r]) (m_g s))
  /\ NoDup (fst (rmk_get_roles (m_rm s) u d)) /\ NoDup (fst (rmk_get_users (m_rm s) r d)).
Proof.
  intro HI. rewrite (get_roles_canon k s u d HI), (get_users_canon k s r d HI).
  fold (links_at k s d). unfold rm_get_roles. rewrite rm_succ_In, rm_get_users_In. cbn [rm_roles rm_users rm_set].
  split; [tauto|]. split; [apply links_at_rules; exact HI|].
  pose proof (links_at_NoDup k s d HI) as Hnd. unfold rm_succ, rm_get_users. cbn [rm_roles rm_users rm_set].
  split; [apply NoDup_map_snd_filter|apply NoDup_map_fst_filter]; exact Hnd.
Qed.

(* ------------------------------------------------------------------------------------------ *)
(* 7. the depth premise: executable form, and a sufficient condition                           *)

(* every implicit role of u is recognised by g(u, role): decidable on the running enforcer *)
Definition depth_okb (k : mkind) (s : mstate) (u d : name) : bool :=
  match get_implicit_roles k s u d with
  | Ok (roles, _) => forallb (fun r => g_link (m_rm s) u r d) roles
  | Err _ => false
  end.

Lemma MAXLVL_pos : (0 < MAXLVL)%nat.
Proof. unfold MAXLVL. lia. Qed.

Theorem depth_okb_shallow k s u d : k_g k = true -> k_g2 k = false -> Inv k s ->
  depth_okb k s u d = true <-> shallow (links_at k s d) u.
Proof.
  intros Hg Hg2 HI. destruct (implicit_roles_reach k s u d Hg Hg2 HI) as [roles [s' [Hr [_ [Hin _]]]]].
  unfold depth_okb. rewrite Hr. rewrite forallb_forall. split.
  - intros H x n Hp. destruct n as [|n].
    + inversion Hp; subst. exists 0%nat. split; [apply MAXLVL_pos|constructor].
    + apply (g_link_near k s u x d HI). apply H. apply Hin. eauto.
  - intros H r Hr'. apply (g_link_near k s u r d HI). apply Hin in Hr'. destruct Hr' as [n Hp]. apply (H r _ Hp).
Qed.

(* cutting cycles out of a path *)
Section Shorten.
  Variable E : name -> name -> Prop.
  Variable T : list name.
  Hypothesis E_T : forall a b, E a b -> In b T.

  Fixpoint chain (a : name) (l : list name) : Prop :=
    match l with [] => True | b :: l' => E a b /\ chain b l' end.
  Definition lastn (a : name) (l : list name) : name := fold_left (fun _ b => b) l a.

  Lemma path_chain : forall n a x, path E n a x -> exists l, length l = n /\ chain a l /\ lastn a l = x.
  Proof.
    intros n a x P. induction P as [a|n a b c Hab _ [l [Hl [Hc Hx]]]].
    - exists []. repeat split.
    - exists (b :: l). simpl. repeat split; auto.
  Qed.

  Lemma chain_path : forall l a, chain a l -> path E (length l) a (lastn a l).
  Proof.
    induction l as [|b l IH]; intros a H; simpl; [constructor|]. destruct H as [Hab Hc].
    econstructor; [exact Hab|apply IH; exact Hc].
  Qed.

  Lemma chain_app : forall l1 a l2, chain a (l1 ++ l2) <-> chain a l1 /\ chain (lastn a l1) l2.
  Proof.
    induction l1 as [|b l1 IH]; intros a l2; simpl; [tauto|]. rewrite IH. unfold lastn. simpl. tauto.
  Qed.

  Lemma chain_targets : forall l a, chain a l -> incl l T.
  Proof.
    induction l as [|b l IH]; intros a H x Hx; [destruct Hx|]. destruct H as [Hab Hc].
    destruct Hx as [<-|Hx]; [apply (E_T a); exact Hab|apply (IH b Hc); exact Hx].
  Qed.

  Lemma dup_split : forall l : list name, NoDup l \/ exists y l1 l2 l3, l = l1 ++ y :: l2 ++ y :: l3.
  Proof.
    induction l as [|y l IH]; [left; constructor|].
    destruct (in_dec N.eq_dec y l) as [Hin|Hn].
    - right. destruct (in_split _ _ Hin) as [l2 [l3 ->]]. exists y, [], l2, l3. reflexivity.
    - destruct IH as [Hnd|[z [l1 [l2 [l3 ->]]]]]; [left; constructor; assumption|].
      right. exists z, (y :: l1), l2, l3. reflexivity.
  Qed.

  Lemma path_shorten : forall n a x, path E n a x -> exists j, (j <= length T)%nat /\ path E j a x.
  Proof.
    induction n as [n IH] using lt_wf_ind. intros a x P.
    destruct (le_lt_dec n (length T)) as [Hle|Hlt]; [eauto|].
    destruct (path_chain n a x P) as [l [Hl [Hc Hx]]].
    destruct (dup_split l) as [Hnd|[y [l1 [l2 [l3 El]]]]].
    - pose proof (NoDup_incl_length Hnd (chain_targets l a Hc)). lia.
    - subst l. apply chain_app in Hc. destruct Hc as [H1 H2]. simpl in H2. destruct H2 as [Hy H2].
      apply chain_app in H2. destruct H2 as [_ H3]. simpl in H3. destruct H3 as [_ H3].
      assert (Hc' : chain a (l1 ++ y :: l3)).
      { apply chain_app. split; [exact H1|]. simpl. split; [exact Hy|].
        replace (lastn (lastn y l2) [y]) with y in H3 by reflexivity.
        unfold lastn in H3 |- *. simpl in H3 |- *. exact H3. }
      assert (Hx' : lastn a (l1 ++ y :: l3) = x).
      { rewrite <- Hx. unfold lastn. rewrite !fold_left_app. simpl. rewrite fold_left_app. reflexivity. }
      apply (IH (length (l1 ++ y :: l3))).
      + rewrite <- Hl. rewrite !app_length. simpl. rewrite app_length. simpl. lia.
      + rewrite <- Hx'. apply chain_path. exact Hc'.
  Qed.
End Shorten.

(* a role graph with fewer than max_hierarchy_level assignments (in the domain) is within the bound,
   whatever its shape *)
Theorem small_graph_shallow (ls : list link) u : (length ls < MAXLVL)%nat -> shallow ls u.
Proof.
  intros H x n P.
  destruct (path_shorten (link_edge ls) (map snd ls)) with (n := n) (a := u) (x := x) as [j [Hj Hp]].
  - intros a b Hab. apply (in_map snd) in Hab. exact Hab.
  - exact P.
  - exists j. split; [rewrite map_length in Hj; unfold link in *; lia|exact Hp].
Qed.

(* ------------------------------------------------------------------------------------------ *)
(* 8. boolean forms of the premises (for Examples) and the witnesses that the premises are needed *)

Definition wf_pb (k : mkind) (s : mstate) : bool := forallb (fun r => Nat.eqb (length r) (p_arity k)) (m_p s).
Lemma wf_pb_ok k s : wf_pb k s = true -> wf_p k s.
Proof.
  unfold wf_pb, wf_p. rewrite forallb_forall, Forall_forall. intros H r Hr. apply Nat.eqb_eq. apply H. exact Hr.
Qed.

Definition no_empty_roleb (ls : list link) : bool := forallb (fun l => negb (snd l =? 0)) ls.
Lemma no_empty_roleb_ok ls : no_empty_roleb ls = true -> no_empty_role ls.
Proof.
  unfold no_empty_roleb, no_empty_role. rewrite forallb_forall. intros H x Hx. specialize (H _ Hx).
  simpl in H. discriminate.
Qed.

Definition k_rbac15 : mkind := mkKind false true false false false AO true 0.
Definition k_dom15 : mkind := mkKind true true false false false AO true 0.

Lemma rbac_kind_rbac15 : rbac_kind k_rbac15.
Proof. repeat split. Qed.
Lemma rbac_kind_dom15 : rbac_kind k_dom15.
Proof. repeat split. Qed.

(* alice -> r1 -> ... -> r10 (ten assignments, one more than has_link follows), r10 may read data1,
   r9 may read data2 *)
Definition deep_ops : list op :=
  [OAdd 1 [1003; 2001]; OAdd 1 [2001; 2002]; OAdd 1 [2002; 2003]; OAdd 1 [2003; 2004]; OAdd 1 [2004; 2005];
   OAdd 1 [2005; 2006]; OAdd 1 [2006; 2007]; OAdd 1 [2007; 2008]; OAdd 1 [2008; 2009]; OAdd 1 [2009; 2010];
   OAdd 0 [2010; 1008; 1011]; OAdd 0 [2009; 1009; 1011]].
Definition deep_state : mstate := fst (run k_rbac15 (init k_rbac15 []) deep_ops).

Lemma deep_state_inv : Inv k_rbac15 deep_state.
Proof. apply run_inv; [apply init_inv|vm_compute; reflexivity]. Qed.

(* the depth premise cannot be dropped: all other premises hold, get_implicit_permissions lists r10's
   permission for alice, enforce refuses it *)
Theorem depth_premise_needed :
  rbac_kind k_rbac15 /\ Inv k_rbac15 deep_state /\ wf_p k_rbac15 deep_state /\ m_enabled deep_state = true
  /\ dom_ok k_rbac15 0 /\ 1003 <> 0 /\ no_empty_role (links_at k_rbac15 deep_state 0)
  /\ (exists perms s', get_implicit_permissions k_rbac15 deep_state 1003 0 = Ok (perms, s')
        /\ In [2010; 1008; 1011] perms)
  /\ decision_of (snd (enforce_ex_m k_rbac15 deep_state (mk_req k_rbac15 1003 0 1008 1011))) = Ok false
  /\ decision_of (snd (enforce_ex_m k_rbac15 deep_state (mk_req k_rbac15 1003 0 1009 1011))) = Ok true
  /\ ~ shallow (links_at k_rbac15 deep_state 0) 1003.
Proof.
  split; [apply rbac_kind_rbac15|]. split; [apply deep_state_inv|].
  split; [apply wf_pb_ok; vm_compute; reflexivity|]. split; [vm_compute; reflexivity|].
  split; [reflexivity|]. split; [discriminate|]. split; [apply no_empty_roleb_ok; vm_compute; reflexivity|].
  split.
  - destruct (get_implicit_permissions k_rbac15 deep_state 1003 0) as [[perms s']|c] eqn:E.
    + exists perms, s'. split; [reflexivity|].
      assert (Hp : perms = [[2009; 1009; 1011]; [2010; 1008; 1011]]).
      { assert (H : match get_implicit_permissions k_rbac15 deep_state 1003 0 with Ok (p, _) => p | Err _ => [] end
                    = [[2009; 1009; 1011]; [2010; 1008; 1011]]) by (vm_compute; reflexivity).
        rewrite E in H. exact H. }
      rewrite Hp. right. left. reflexivity.
    + exfalso.
      assert (H : match get_implicit_permissions k_rbac15 deep_state 1003 0 with Ok _ => true | Err _ => false end = true)
        by (vm_compute; reflexivity).
      rewrite E in H. discriminate.
  - split; [vm_compute; reflexivity|]. split; [vm_compute; reflexivity|].
    intro Hsh. apply (depth_okb_shallow k_rbac15 deep_state 1003 0 eq_refl eq_refl deep_state_inv) in Hsh.
    revert Hsh. vm_compute. discriminate.
Qed.

(* names must be non-empty strings: "" is get_filtered_policy's wildcard, so the permissions reported
   for the user "" are ALL rules, none of which enforce grants to "" *)
Definition empty_name_state : mstate :=
  fst (run k_rbac15 (init k_rbac15 []) [OAdd 0 [1003; 1008; 1011]]).
Theorem empty_user_name_refuted :
  Inv k_rbac15 empty_name_state /\ wf_p k_rbac15 empty_name_state
  /\ match get_implicit_permissions k_rbac15 empty_name_state 0 0 with
     | Ok (perms, _) => perms = [[1003; 1008; 1011]] | Err _ => False end
  /\ decision_of (snd (enforce_ex_m k_rbac15 empty_name_state (mk_req k_rbac15 0 0 1008 1011))) = Ok false.
Proof.
  split; [apply run_inv; [apply init_inv|vm_compute; reflexivity]|].
  split; [apply wf_pb_ok; vm_compute; reflexivity|]. split; vm_compute; reflexivity.
Qed.

(* ... and the empty-policy branch of enforce grants the all-empty request, although "" is nobody's
   subject: the permission must name something *)
Theorem unnamed_permission_refuted :
  let s := init k_rbac15 [] in
  Inv k_rbac15 s /\ wf_p k_rbac15 s
  /\ decision_of (snd (enforce_ex_m k_rbac15 s [0; 0; 0])) = Ok true
  /\ snd (get_implicit_users_for_permission k_rbac15 s [0; 0]) = Ok [].
Proof.
  cbv zeta. split; [apply init_inv|]. split; [apply wf_pb_ok; vm_compute; reflexivity|]. split; vm_compute; reflexivity.
Qed.

(* ------------------------------------------------------------------------------------------ *)
(* 9. readable instances: the plain RBAC model and the RBAC-with-domains model                 *)

Theorem enforce_iff_implicit_permission_plain k s u o a :
  rbac_kind k -> k_dom k = false -> Inv k s -> wf_p k s -> m_enabled s = true ->
  u <> 0 -> no_empty_role (glinks (m_g s)) -> shallow (glinks (m_g s)) u ->
  exists perms s' b,
    get_implicit_permissions k s u 0 = Ok (perms, s')
    /\ decision_of (snd (enforce_ex_m k s [u; o; a])) = Ok b
    /\ (b = true <-> exists r, In r perms /\ fld r 1 = o /\ fld r 2 = a).
Proof.
  intros Hk Kd HI Hwf Hen Hu Hne Hsh.
  pose proof (enforce_iff_implicit_permission k s u 0 o a Hk HI Hwf Hen) as H.
  unfold dom_ok, links_at, canon_links, mk_req, i_act, i_obj, i_sub in H.
  destruct Hk as [_ [_ [_ [Hp _]]]]. rewrite Kd, Hp in H. apply H; auto.
Qed.

Theorem enforce_iff_implicit_permission_domain k s u d o a :
  rbac_kind k -> k_dom k = true -> Inv k s -> wf_p k s -> m_enabled s = true ->
  d <> 0 -> u <> 0 -> no_empty_role (glinks_dom (m_g s) d) -> shallow (glinks_dom (m_g s) d) u ->
  exists perms s' b,
    get_implicit_permissions k s u d = Ok (perms, s')
    /\ decision_of (snd (enforce_ex_m k s [u; d; o; a])) = Ok b
    /\ (b = true <-> exists r, In r perms /\ fld r 2 = o /\ fld r 3 = a).
Proof.
  intros Hk Kd HI Hwf Hen Hd Hu Hne Hsh.
  pose proof (enforce_iff_implicit_permission k s u d o a Hk HI Hwf Hen) as H.
  unfold dom_ok, links_at, canon_links, mk_req, i_act, i_obj, i_sub in H.
  destruct Hk as [_ [_ [_ [Hp _]]]]. rewrite Kd, Hp in H. apply H; auto.
Qed.

(* every implicit permission of the domain variant lies in the queried domain *)
Theorem implicit_permissions_scoped k s u d : rbac_kind k -> Inv k s -> wf_p k s -> dom_ok k d ->
  u <> 0 -> no_empty_role (links_at k s d) ->
  exists perms s', get_implicit_permissions k s u d = Ok (perms, s')
    /\ Inv k s' /\ same_stores s s'
    /\ forall r, In r perms <->
         In r (m_p s) /\ (exists n, path (link_edge (links_at k s d)) n u (fld r 0))
         /\ (k_dom k = true -> fld r 1 = d).
Proof. exact (implicit_permissions_char k s u d). Qed.

(* the edges of the reachability statements are exactly the grouping rules (of the domain) *)
Theorem assignments_are_grouping_rules k s a b d : Inv k s ->
  link_edge (links_at k s d) a b <-> In (if k_dom k then [a; b; d] else [a; b]) (m_g s).
Proof. intro HI. unfold link_edge. apply links_at_rules. exact HI. Qed.

(* after ANY admissible management history (C04) the role queries are exact: no further premise *)
Theorem role_queries_after_any_history k db ops u d :
  k_g k = true -> k_g2 k = false -> forallb (op_ok k) ops = true ->
  let s := fst (run k (init k db) ops) in
  (exists roles s', get_implicit_roles k s u d = Ok (roles, s')
     /\ NoDup roles
     /\ forall r, In r roles <-> exists n, path (link_edge (links_at k s d)) (S n) u r)
  /\ (forall r, In r (fst (rmk_get_roles (m_rm s) u d)) <-> In u (fst (rmk_get_users (m_rm s) r d))).
Proof.
  intros Hg Hg2 Hok s. assert (HI : Inv k s) by (apply run_inv; [apply init_inv|exact Hok]). split.
  - destruct (implicit_roles_reach k s u d Hg Hg2 HI) as [roles [s' [H1 [H2 [H3 _]]]]]. eauto.
  - intro r. apply (roles_users_inverse_views k s u r d HI).
Qed.

(* ------------------------------------------------------------------------------------------ *)
(* 10. the resource-centred views                                                              *)

Lemma add_key_In acc r x : In x (add_key acc r) <-> In x acc \/ x = r.
Proof.
  unfold add_key. destruct (mem rule_eqb r acc) eqn:M.
  - apply mem_rule_In in M. split; [auto|intros [H | ->]; auto].
  - rewrite in_app_iff. simpl. split; [intros [H|[H|[]]]; auto|intros [H|H]; auto].
Qed.

Lemma add_key_NoDup acc r : NoDup acc -> NoDup (add_key acc r).
Proof.
  intro H. unfold add_key. destruct (mem rule_eqb r acc) eqn:M; [exact H|].
  apply NoDup_app_snoc; [exact H|]. apply has_policy_false. exact M.
Qed.

Lemma fold_add_key_spec (f : name -> rule) : forall us acc,
  (NoDup acc -> NoDup (fold_left (fun a u => add_key a (f u)) us acc))
  /\ forall x, In x (fold_left (fun a u => add_key a (f u)) us acc) <-> In x acc \/ exists u, In u us /\ x = f u.
Proof.
  induction us as [|u us IH]; intro acc; simpl.
  - split; [auto|]. intro x. split; [auto|intros [H|[u [[] _]]]; exact H].
  - destruct (IH (add_key acc (f u))) as [H1 H2]. split.
    + intro Hn. apply H1. apply add_key_NoDup. exact Hn.
    + intro x. rewrite H2, add_key_In. split.
      * intros [[H|H]|[v [Hv Hx]]]; [left; exact H|right; exists u; auto|right; exists v; auto].
      * intros [H|[v [[Hv|Hv] Hx]]]; [left; left; exact H|subst v; left; right; exact Hx|right; exists v; auto].
Qed.

(* what one permission rule contributes to the view *)
Definition res_contrib (k : mkind) (s : mstate) (roles : list name) (res : name) (dom : option name) (r x : rule) : Prop :=
  fld r (i_obj k) = res
  /\ (forall d, dom = Some d -> fld r (i_dom k) = d)
  /\ ((~ In (fld r (i_sub k)) roles /\ x = r)
      \/ (In (fld r (i_sub k)) roles
          /\ exists u, In (u, fld r (i_sub k)) (links_at k s (match dom with Some d => d | None => empty_dom end))
                       /\ x = set_nth (i_sub k) u r)).

Definition dom_arg (dom : option name) : name := match dom with Some d => d | None => empty_dom end.

Lemma i_cols_lt k (r : rule) : length r = p_arity k ->
  (i_sub k < length r)%nat /\ (i_dom k < length r)%nat /\ (i_obj k < length r)%nat /\ (i_act k < length r)%nat.
Proof.
  intro H. rewrite H. unfold p_arity, i_eft, i_act, i_obj, i_dom, i_sub.
  destruct (k_eft k), (k_dom k), (k_prio k); lia.
Qed.

Lemma synced_users k s rm sub dd : Inv k s -> synced (g_count k PT_G) rm (m_g s) ->
  forall u, In u (fst (rmk_get_users rm sub dd)) <-> In (u, sub) (links_at k s dd).
Proof.
  intros HI Hs u. assert (HI1 : Inv k (set_rm s rm)) by (apply Inv_set_rm; assumption).
  pose proof (get_users_canon k (set_rm s rm) sub dd HI1) as H. cbn [m_rm m_g set_rm] in H. rewrite H.
  rewrite rm_get_users_In. reflexivity.
Qed.

Lemma users_for_resource_spec k s roles res dom : Inv k s ->
  forall l rm acc, synced (g_count k PT_G) rm (m_g s) -> Forall (fun r => length r = p_arity k) l ->
  exists out rm', users_for_resource k rm roles res dom l acc = Ok (out, rm')
    /\ synced (g_count k PT_G) rm' (m_g s)
    /\ (NoDup acc -> NoDup out)
    /\ forall x, In x out <-> In x acc \/ exists r, In r l /\ res_contrib k s roles res dom r x.
Proof.
  intro HI. induction l as [|r l IH]; intros rm acc Hs Hl.
  - exists acc, rm. split; [reflexivity|]. split; [exact Hs|]. split; [auto|].
    intro x. split; [auto|]. intros [H|[r [[] _]]]. exact H.
  - inversion Hl as [|? ? Hr Hl']; subst. destruct (i_cols_lt k r Hr) as [L1 [L2 [L3 L4]]].
    cbn [users_for_resource]. unfold field. rewrite !(nth_error_fld r _ L3), !(nth_error_fld r _ L1), !(nth_error_fld r _ L2).
    assert (Hskip : forall rm0 acc0, synced (g_count k PT_G) rm0 (m_g s) ->
              (forall x, ~ res_contrib k s roles res dom r x) ->
              exists out rm', users_for_resource k rm0 roles res dom l acc0 = Ok (out, rm')
                /\ synced (g_count k PT_G) rm' (m_g s) /\ (NoDup acc0 -> NoDup out)
                /\ forall x, In x out <-> In x acc0 \/ exists r0, In r0 (r :: l) /\ res_contrib k s roles res dom r0 x).
    { intros rm0 acc0 Hs0 Hno. destruct (IH rm0 acc0 Hs0 Hl') as [out [rm' [E [S' [N I]]]]].
      exists out, rm'. split; [exact E|]. split; [exact S'|]. split; [exact N|].
      intro x. rewrite I. split.
      - intros [H|[r0 [Hr0 Hc]]]; [left; exact H|right; exists r0; split; [right; exact Hr0|exact Hc]].
      - intros [H|[r0 [[Hr0|Hr0] Hc]]]; [left; exact H|subst r0; exfalso; exact (Hno x Hc)|right; eauto]. }
    destruct (fld r (i_obj k) =? res) eqn:Eo; cbn [negb].
    2:{ apply Hskip; [exact Hs|]. intros x [Ho _]. apply N.eqb_neq in Eo. contradiction. }
    apply N.eqb_eq in Eo.
    set (skip := match dom with Some d => negb (fld r (i_dom k) =? d) | None => false end).
    destruct skip eqn:Esk.
    { apply Hskip; [exact Hs|]. intros x [_ [Hd _]]. unfold skip in Esk. destruct dom as [d|]; [|discriminate].
      apply negb_true_iff in Esk. apply N.eqb_neq in Esk. apply Esk. apply Hd. reflexivity. }
    assert (Hdom : forall d, dom = Some d -> fld r (i_dom k) = d).
    { intros d Hd. unfold skip in Esk. rewrite Hd in Esk. apply negb_false_iff in Esk. apply N.eqb_eq. exact Esk. }
    destruct (mem N.eqb (fld r (i_sub k)) roles) eqn:Em; cbn [negb].
    + (* a role: replaced by its direct users *)
      apply mem_N_In in Em.
      pose proof (synced_users k s rm (fld r (i_sub k)) (dom_arg dom) HI Hs) as Hus.
      pose proof (synced_get_users _ _ _ (fld r (i_sub k)) (dom_arg dom) Hs) as Hs'.
      unfold dom_arg in *. destruct (rmk_get_users rm (fld r (i_sub k)) match dom with Some d => d | None => empty_dom end)
        as [us rm1] eqn:Eu. cbn [fst snd] in Hus, Hs'.
      destruct (fold_add_key_spec (fun u => set_nth (i_sub k) u r) us acc) as [F1 F2].
      destruct (IH rm1 (fold_left (fun a u => add_key a (set_nth (i_sub k) u r)) us acc) Hs' Hl')
        as [out [rm' [E [S' [N I]]]]].
      exists out, rm'. split; [exact E|]. split; [exact S'|]. split; [intro Hn; apply N; apply F1; exact Hn|].
      intro x. rewrite I, F2. split.
      * intros [[H|[u [Hu Hx]]]|[r0 [Hr0 Hc]]]; [left; exact H| |right; exists r0; split; [right; exact Hr0|exact Hc]].
        right. exists r. split; [left; reflexivity|]. split; [exact Eo|]. split; [exact Hdom|].
        right. split; [exact Em|]. exists u. split; [apply Hus; exact Hu|exact Hx].
      * intros [H|[r0 [[Hr0|Hr0] Hc]]]; [left; left; exact H| |right; eauto].
        subst r0. destruct Hc as [_ [_ [[Hn _]|[_ [u [Hu Hx]]]]]]; [contradiction|].
        left. right. exists u. split; [apply Hus; exact Hu|exact Hx].
    + (* not a role: the rule itself *)
      apply mem_N_false in Em.
      destruct (IH rm (add_key acc r) Hs Hl') as [out [rm' [E [S' [N I]]]]].
      exists out, rm'. split; [exact E|]. split; [exact S'|]. split; [intro Hn; apply N; apply add_key_NoDup; exact Hn|].
      intro x. rewrite I, add_key_In. split.
      * intros [[H|H]|[r0 [Hr0 Hc]]]; [left; exact H| |right; exists r0; split; [right; exact Hr0|exact Hc]].
        right. exists r. split; [left; reflexivity|]. split; [exact Eo|]. split; [exact Hdom|]. left. split; assumption.
      * intros [H|[r0 [[Hr0|Hr0] Hc]]]; [left; left; exact H| |right; eauto].
        subst r0. destruct Hc as [_ [_ [[_ Hx]|[Hn _]]]]; [left; right; exact Hx|contradiction].
Qed.

(* which view is meaningful for which model: get_implicit_users_for_resource for the model without
   domains, get_implicit_users_for_resource_by_domain for the model with domains *)
Definition view_ok (k : mkind) (dom : option name) : Prop :=
  match dom with None => k_dom k = false | Some d => k_dom k = true /\ d <> 0 end.

Lemma MAXLVL_gt1 : (1 < MAXLVL)%nat.
Proof. unfold MAXLVL. lia. Qed.

(* the view is exactly: every rule on the resource (of the domain), its subject replaced by each
   direct user when the subject is one of `roles`; nothing twice; and every reported permission is
   one that enforce grants *)
Theorem resource_view_exact_and_sound k s roles res dom :
  rbac_kind k -> Inv k s -> wf_p k s -> m_enabled s = true -> res <> 0 -> view_ok k dom ->
  exists out rm', users_for_resource k (m_rm s) roles res dom (m_p s) [] = Ok (out, rm')
    /\ NoDup out
    /\ (forall x, In x out <-> exists r, In r (m_p s) /\ res_contrib k s roles res dom r x)
    /\ (forall x, In x out -> decision_of (snd (enforce_ex_m k s x)) = Ok true).
Proof.
  intros Hk HI Hwf Hen Hres Hv.
  destruct (users_for_resource_spec k s roles res dom HI (m_p s) (m_rm s) [] (proj1 HI) Hwf)
    as [out [rm' [E [_ [N I]]]]].
  exists out, rm'. split; [exact E|]. split; [apply N; constructor|].
  assert (I' : forall x, In x out <-> exists r, In r (m_p s) /\ res_contrib k s roles res dom r x).
  { intro x. rewrite I. split; [intros [[]|H]; exact H|intro H; right; exact H]. }
  split; [exact I'|].
  intros x Hx. apply I' in Hx. destruct Hx as [r [Hr [Ho [Hd Hc]]]].
  pose proof Hk as [Hg [Hg2 [He [Hp Hf]]]].
  assert (Hlen : length r = p_arity k) by (unfold wf_p in Hwf; rewrite Forall_forall in Hwf; apply Hwf; exact Hr).
  rewrite (p_arity_rbac k Hk) in Hlen.
  assert (Hone : forall u, In (u, fld r (i_sub k)) (links_at k s (dom_arg dom)) -> near (links_at k s (dom_arg dom)) u (fld r (i_sub k))).
  { intros u Hu. exists 1%nat. split; [apply MAXLVL_gt1|]. econstructor; [exact Hu|constructor]. }
  assert (Hzero : forall d, near (links_at k s d) (fld r (i_sub k)) (fld r (i_sub k))).
  { intro d. exists 0%nat. split; [apply MAXLVL_pos|constructor]. }
  unfold i_act, i_obj, i_dom, i_sub in *. rewrite Hp in *. unfold view_ok, dom_arg in *.
  destruct (k_dom k) eqn:Kd.
  - (* with domains *)
    destruct dom as [d|]; [|discriminate]. destruct Hv as [_ Hd0]. specialize (Hd d eq_refl).
    destruct r as [|sb [|d' [|o [|a [|? ?]]]]]; try discriminate. cbn [fld nth] in *. subst d' o.
    assert (G : forall u, near (links_at k s d) u sb -> decision_of (snd (enforce_ex_m k s [u; d; res; a])) = Ok true).
    { intros u Hn. rewrite enforce_char; try assumption.
      - f_equal. apply existsb_exists. exists [sb; d; res; a]. split; [exact Hr|].
        assert (Eq : [u; d; res; a] = mk_req k u d res a) by (unfold mk_req; rewrite Kd; reflexivity). rewrite Eq at 1.
        apply (rule_matches_grants k s u d res a _ Hk HI); [unfold dom_ok; rewrite Kd; exact Hd0|].
        unfold rule_grants, i_act, i_obj, i_sub. rewrite Kd, Hp. cbn [fld nth]. auto.
      - unfold r_arity. rewrite Kd. reflexivity.
      - apply empty_rule_inert_perm; [exact Hk|unfold r_arity; rewrite Kd; reflexivity|].
        exists res. split; [right; left; reflexivity|exact Hres]. }
    destruct Hc as [[_ ->]|[_ [u [Hu ->]]]]; cbn [set_nth]; apply G; [apply (Hzero d)|apply Hone; exact Hu].
  - (* without domains *)
    destruct dom as [d|]; [destruct Hv; discriminate|].
    destruct r as [|sb [|o [|a [|? ?]]]]; try discriminate. cbn [fld nth] in *. subst o.
    assert (G : forall u, near (links_at k s empty_dom) u sb -> decision_of (snd (enforce_ex_m k s [u; res; a])) = Ok true).
    { intros u Hn. rewrite enforce_char; try assumption.
      - f_equal. apply existsb_exists. exists [sb; res; a]. split; [exact Hr|].
        assert (Eq : [u; res; a] = mk_req k u 0 res a) by (unfold mk_req; rewrite Kd; reflexivity). rewrite Eq at 1.
        apply (rule_matches_grants k s u 0 res a _ Hk HI); [unfold dom_ok; rewrite Kd; reflexivity|].
        unfold rule_grants, i_act, i_obj, i_sub. rewrite Kd, Hp. cbn [fld nth]. split; [exact Hn|].
        split; [discriminate|split; reflexivity].
      - unfold r_arity. rewrite Kd. reflexivity.
      - apply empty_rule_inert_perm; [exact Hk|unfold r_arity; rewrite Kd; reflexivity|].
        exists res. split; [left; reflexivity|exact Hres]. }
    destruct Hc as [[_ ->]|[_ [u [Hu ->]]]]; cbn [set_nth]; apply G; [apply (Hzero empty_dom)|apply Hone; exact Hu].
Qed.
