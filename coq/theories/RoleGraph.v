(* RoleGraph.v — executable model of casbin/rbac/default_role_manager/role_manager.py:
     RoleManager   (lines 96-218)  WITHOUT a pattern matching function (matching_func == None, or
                                   the equality function DomainManagerBase installs, which is inert
                                   — see note (M) below),
     DomainManager (lines 221-362) WITHOUT a domain matching function.
   plus the reachability SPEC of property C03.  No proofs here (RoleGraphProofs.v has them).
   Shared: imported by Mgmt.v (C04/C05) — the interface is append-only.

   Conventions (DESIGN.md §4): names/domains are atoms N; Python sets whose order is only
   observable as unspecified iteration order are duplicate-free lists (results are compared
   sorted); dicts are association lists in insertion order; exceptions are values.

   (M) Inside a DomainManager every per-domain RoleManager gets matching_func =
       `lambda name1, name2: name1 == name2` (line 228, 264).  With that function
       _get_role (136-138) copies from roles whose name equals a name that is not yet a key: none;
       add_link (161-166) / delete_link (177-181) only touch roles r with r.name != x.name and
       r.name == x.name: none.  With matching_func None, delete_link's loop (177-181, not guarded
       by `if self.matching_func != None`) calls None(...) inside match_error_handler whose bare
       `except` turns the TypeError into False: no effect either.  So both are modelled as absent.
   (R) all_roles (the dict of Role objects created on demand by _get_role) is not observable
       through add/delete/has_link/get_roles/get_users without a pattern function, and there is
       exactly one Role object per name between two clear()s, so Role identity = name.  It is not
       part of the state. *)
From Coq Require Import List NArith Bool.
From PyCasbin Require Import Base.
Import ListNotations.

(* ------------------------------------------------------------------------------------------ *)
(* links                                                                                      *)

Definition link : Type := (name * name)%type.              (* Link(user, role), line 22 *)
Definition link_eqb (x y : link) : bool :=
  N.eqb (fst x) (fst y) && N.eqb (snd x) (snd y).

(* set.add on a duplicate-free list (position is irrelevant: results are compared sorted) *)
Definition set_add (x : link) (l : list link) : list link :=
  if mem link_eqb x l then l else l ++ [x].

(* list.remove after a successful `in` test: first occurrence, identity if absent *)
Definition remove1 (x : link) (l : list link) : list link :=
  match remove_first link_eqb x l with Some l' => l' | None => l end.

(* ------------------------------------------------------------------------------------------ *)
(* RoleManager, matching_func == None                                                         *)

Record rm_state : Type := mkRM {
  rm_max   : nat;          (* max_hierarchy_level (line 101) *)
  rm_links : list link;    (* all_links: a MULTISET in insertion order (line 104, 154) *)
  rm_roles : list link;    (* { (u, r) | Role r  in all_roles[u].roles }  (Role.roles, line 34) *)
  rm_users : list link     (* { (u, r) | Role u  in all_roles[r].users }  (Role.users, line 35) *)
}.
(* rm_roles and rm_users are two separately maintained sets, as in the code; that they always
   coincide is a theorem (roles_users_inverse), not a modelling choice. *)

Definition rm_empty (max_level : nat) : rm_state := mkRM max_level [] [] [].

(* clear(), lines 149-151 *)
Definition rm_clear (s : rm_state) : rm_state := mkRM (rm_max s) [] [] [].

(* add_link(name1, name2, *domain), lines 153-159: append the link (no duplicate test!),
   user.roles.add(role); role.users.add(user)  (Role.add_role, 39-41).  *domain is ignored. *)
Definition rm_add_link (s : rm_state) (u r : name) : rm_state :=
  mkRM (rm_max s) (rm_links s ++ [(u, r)]) (set_add (u, r) (rm_roles s)) (set_add (u, r) (rm_users s)).

(* delete_link(name1, name2, *domain), lines 168-175, with the state the exception leaves behind:
     link not in all_links            -> return None, nothing changes            (169-170)
     else all_links.remove(first occurrence)                                      (171)
          user.roles.remove(role)     -> KeyError if the edge is already gone      (44)  [stale link:
                                         the link had been added twice and deleted once before]
          role.users.remove(user)     -> KeyError if absent                        (45, 51)
   Returns (state afterwards, Some code if an exception was raised). *)
Definition rm_delete_link_x (s : rm_state) (u r : name) : rm_state * option N :=
  if negb (mem link_eqb (u, r) (rm_links s)) then (s, None)
  else
    let links' := remove1 (u, r) (rm_links s) in
    match remove_first link_eqb (u, r) (rm_roles s) with
    | None => (mkRM (rm_max s) links' (rm_roles s) (rm_users s), Some EKeyError)
    | Some roles' =>
        match remove_first link_eqb (u, r) (rm_users s) with
        | None => (mkRM (rm_max s) links' roles' (rm_users s), Some EKeyError)
        | Some users' => (mkRM (rm_max s) links' roles' users', None)
        end
    end.

Definition rm_delete_link (s : rm_state) (u r : name) : result rm_state :=
  match rm_delete_link_x s u r with
  | (s', None) => Ok s'
  | (_, Some e) => Err e
  end.

(* [r.name for r in all_roles[a].roles] *)
Definition rm_succ (s : rm_state) (a : name) : list name :=
  map snd (filter (fun l => N.eqb (fst l) a) (rm_roles s)).

(* _has_link(name, roles, level), lines 189-199.  The frontier is a list of role names
   (`list(next_roles)` of a set: duplicate-free, order irrelevant because the loop has no effect
   besides the early `return True`). *)
Section HasLink.
  Variable succ : name -> list name.
  Fixpoint has_link_lvl (level : nat) (target : name) (front : list name) : bool :=
    match level with
    | O => false                                               (* level <= 0 *)
    | S l =>
        match front with
        | [] => false                                          (* len(roles) == 0 *)
        | _ => if existsb (N.eqb target) front then true       (* name == role.name *)
               else has_link_lvl l target (dedup N.eqb (flat_map succ front))
        end
    end.
End HasLink.

(* has_link(name1, name2, *domain), lines 183-187 *)
Definition rm_has_link (s : rm_state) (a b : name) : bool :=
  has_link_lvl (rm_succ s) (rm_max s) b [a].

(* get_roles / get_users, lines 201-207 (order unspecified: set iteration) *)
Definition rm_get_roles (s : rm_state) (u : name) : list name := rm_succ s u.
Definition rm_get_users (s : rm_state) (r : name) : list name :=
  map fst (filter (fun l => N.eqb (snd l) r) (rm_users s)).

(* the `*domain` rest-argument of the RoleManager methods is accepted and ignored, whatever its
   length (153, 168, 183, 201, 205) *)
Definition rm_add_link_d (s : rm_state) (u r : name) (doms : list name) : rm_state := rm_add_link s u r.
Definition rm_delete_link_d (s : rm_state) (u r : name) (doms : list name) : result rm_state := rm_delete_link s u r.
Definition rm_has_link_d (s : rm_state) (a b : name) (doms : list name) : bool := rm_has_link s a b.
Definition rm_get_roles_d (s : rm_state) (u : name) (doms : list name) : list name := rm_get_roles s u.
Definition rm_get_users_d (s : rm_state) (r : name) (doms : list name) : list name := rm_get_users s r.

(* build a manager from a list of links, in order (what Assertion.build_role_links and
   DomainManagerBase._get_role_manager 263-267 do) *)
Definition rm_add_all (s : rm_state) (ls : list link) : rm_state :=
  fold_left (fun s l => rm_add_link s (fst l) (snd l)) ls s.
Definition rm_of_links (max_level : nat) (ls : list link) : rm_state :=
  rm_add_all (rm_empty max_level) ls.

(* ------------------------------------------------------------------------------------------ *)
(* association lists = dicts in insertion order                                               *)

Section Assoc.
  Context {V : Type}.
  Fixpoint alookup (k : name) (m : list (name * V)) : option V :=
    match m with
    | [] => None
    | (k', v) :: r => if N.eqb k k' then Some v else alookup k r
    end.
  (* m[k] = v : in place if the key exists, appended otherwise *)
  Fixpoint aset (k : name) (v : V) (m : list (name * V)) : list (name * V) :=
    match m with
    | [] => [(k, v)]
    | (k', v') :: r => if N.eqb k k' then (k', v) :: r else (k', v') :: aset k v r
    end.
End Assoc.

(* ------------------------------------------------------------------------------------------ *)
(* DomainManager, domain_matching_func == None                                                *)

Record dm_state : Type := mkDM {
  dm_max   : nat;                          (* max_hierarchy_level *)
  dm_links : list (name * list link);      (* all_links : dict domain -> list of Link (224) *)
  dm_cache : list (name * rm_state)        (* rm_map : dict domain -> RoleManager, built lazily (301) *)
}.

Definition empty_dom : name := 0%N.       (* the atom of the empty string "" (domain when no argument) *)

Definition dm_empty (max_level : nat) : dm_state := mkDM max_level [] [].
(* clear(), 336-338 *)
Definition dm_clear (s : dm_state) : dm_state := mkDM (dm_max s) [] [].

(* all_links.get(domain, []) *)
Definition dm_links_of (s : dm_state) (d : name) : list link :=
  match alookup d (dm_links s) with Some l => l | None => [] end.

(* DomainManagerBase._get_role_manager, 254-267: a fresh RoleManager fed with the domain's links *)
Definition dm_build (s : dm_state) (d : name) : rm_state := rm_of_links (dm_max s) (dm_links_of s d).

(* DomainManager._get_role_manager, 306-311: cached, else build and store *)
Definition dm_get_rm (s : dm_state) (d : name) : rm_state * dm_state :=
  match alookup d (dm_cache s) with
  | Some rm => (rm, s)
  | None => let rm := dm_build s d in (rm, mkDM (dm_max s) (dm_links s) (dm_cache s ++ [(d, rm)]))
  end.

(* add_link, 340-343 = DomainManagerBase.add_link 272-274 (_get_links creates the entry)
   then the cached manager of exactly that domain, if any (323) *)
Definition dm_add_link (s : dm_state) (u r d : name) : dm_state :=
  let links' := aset d (dm_links_of s d ++ [(u, r)]) (dm_links s) in
  let cache' := match alookup d (dm_cache s) with
                | Some rm => aset d (rm_add_link rm u r) (dm_cache s)
                | None => dm_cache s
                end in
  mkDM (dm_max s) links' cache'.

(* delete_link, 345-348 = DomainManagerBase.delete_link 276-280, then the cached manager.
     absent link -> RuntimeError("error: link between ... does not exist") AFTER _get_links has
                    created an (empty) entry for the domain;
     present     -> first occurrence removed; the cached manager's delete_link may raise KeyError
                    (stale link) after the domain's list and the manager's all_links were updated. *)
Definition dm_delete_link_x (s : dm_state) (u r d : name) : dm_state * option N :=
  let ls := dm_links_of s d in
  if negb (mem link_eqb (u, r) ls) then
    (mkDM (dm_max s) (aset d ls (dm_links s)) (dm_cache s), Some ELinkMissing)
  else
    let links' := aset d (remove1 (u, r) ls) (dm_links s) in
    match alookup d (dm_cache s) with
    | None => (mkDM (dm_max s) links' (dm_cache s), None)
    | Some rm =>
        let '(rm', e) := rm_delete_link_x rm u r in
        (mkDM (dm_max s) links' (aset d rm' (dm_cache s)), e)
    end.

Definition dm_delete_link (s : dm_state) (u r d : name) : result dm_state :=
  match dm_delete_link_x s u r d with
  | (s', None) => Ok s'
  | (_, Some e) => Err e
  end.

(* queries, 282-292 / 350-357: may create the cache entry -> new state returned *)
Definition dm_has_link (s : dm_state) (a b d : name) : bool * dm_state :=
  let '(rm, s') := dm_get_rm s d in (rm_has_link rm a b, s').
Definition dm_get_roles (s : dm_state) (u d : name) : list name * dm_state :=
  let '(rm, s') := dm_get_rm s d in (rm_get_roles rm u, s').
Definition dm_get_users (s : dm_state) (r d : name) : list name * dm_state :=
  let '(rm, s') := dm_get_rm s d in (rm_get_users rm r, s').

(* _get_domain( *domain), 236-244: no argument -> "", one -> it, more -> RuntimeError (before any
   state change in every method) *)
Definition dm_domain_of (doms : list name) : result name :=
  match doms with
  | [] => Ok empty_dom
  | [d] => Ok d
  | _ => Err ERuntime
  end.

Definition dm_add_link_d (s : dm_state) (u r : name) (doms : list name) : result dm_state :=
  rbind (dm_domain_of doms) (fun d => Ok (dm_add_link s u r d)).
Definition dm_delete_link_d (s : dm_state) (u r : name) (doms : list name) : result dm_state :=
  rbind (dm_domain_of doms) (fun d => dm_delete_link s u r d).
Definition dm_has_link_d (s : dm_state) (a b : name) (doms : list name) : result (bool * dm_state) :=
  rbind (dm_domain_of doms) (fun d => Ok (dm_has_link s a b d)).
Definition dm_get_roles_d (s : dm_state) (u : name) (doms : list name) : result (list name * dm_state) :=
  rbind (dm_domain_of doms) (fun d => Ok (dm_get_roles s u d)).
Definition dm_get_users_d (s : dm_state) (r : name) (doms : list name) : result (list name * dm_state) :=
  rbind (dm_domain_of doms) (fun d => Ok (dm_get_users s r d)).

(* ------------------------------------------------------------------------------------------ *)
(* SPEC of C03: reachability over the assignments currently in force                           *)

(* a path of exactly k edges of the relation E *)
Inductive path (E : name -> name -> Prop) : nat -> name -> name -> Prop :=
| path0 : forall a, path E 0 a a
| pathS : forall k a b c, E a b -> path E k b c -> path E (S k) a c.

(* the edge relation of a role manager = what its Role.roles sets say *)
Definition rm_edge (s : rm_state) (a b : name) : Prop := In b (rm_succ s a).
(* the edge relation of a set of assignments *)
Definition link_edge (ls : list link) (a b : name) : Prop := In (a, b) ls.

(* histories of the plain manager *)
Inductive rm_op : Type :=
| OAdd (u r : name)
| ODel (u r : name)
| OClear.

(* the assignments in force after a history, as the property understands them: a SET (adding an
   assignment that is in force does not create a second one), in insertion order *)
Definition links_step (ls : list link) (o : rm_op) : list link :=
  match o with
  | OAdd u r => if mem link_eqb (u, r) ls then ls else ls ++ [(u, r)]
  | ODel u r => remove1 (u, r) ls
  | OClear => []
  end.
Definition links_spec (ops : list rm_op) : list link := fold_left links_step ops [].

(* the implementation model run over a history (exceptions of delete_link are swallowed: the state
   the exception leaves behind is kept, as a caller catching it would see) *)
Definition rm_step (s : rm_state) (o : rm_op) : rm_state :=
  match o with
  | OAdd u r => rm_add_link s u r
  | ODel u r => fst (rm_delete_link_x s u r)
  | OClear => rm_clear s
  end.
Definition rm_run (s : rm_state) (ops : list rm_op) : rm_state := fold_left rm_step ops s.

(* "without double adds": no add of an assignment that is in force at that moment *)
Fixpoint no_double_add_from (ls : list link) (ops : list rm_op) : bool :=
  match ops with
  | [] => true
  | o :: rest =>
      match o with
      | OAdd u r => negb (mem link_eqb (u, r) ls)
      | _ => true
      end && no_double_add_from (links_step ls o) rest
  end.
Definition no_double_add (ops : list rm_op) : bool := no_double_add_from [] ops.

(* histories of the domain manager, queries included (they create cache entries) *)
Inductive dm_op : Type :=
| DAdd (u r d : name)
| DDel (u r d : name)
| DClear
| DQuery (d : name).          (* has_link / get_roles / get_users in domain d: same state effect *)

Definition dm_step (s : dm_state) (o : dm_op) : dm_state :=
  match o with
  | DAdd u r d => dm_add_link s u r d
  | DDel u r d => fst (dm_delete_link_x s u r d)
  | DClear => dm_clear s
  | DQuery d => snd (dm_get_rm s d)
  end.
Definition dm_run (s : dm_state) (ops : list dm_op) : dm_state := fold_left dm_step ops s.

Fixpoint dm_no_double_add_from (s : dm_state) (ops : list dm_op) : bool :=
  match ops with
  | [] => true
  | o :: rest =>
      match o with
      | DAdd u r d => negb (mem link_eqb (u, r) (dm_links_of s d))
      | _ => true
      end && dm_no_double_add_from (dm_step s o) rest
  end.

(* executable reachability spec, independent of the frontier algorithm: is there a path of at
   most k edges?  (exponential; used on small inputs by the oracle and in Examples) *)
Fixpoint reach_le (ls : list link) (k : nat) (a b : name) : bool :=
  N.eqb a b ||
  match k with
  | O => false
  | S k' => existsb (fun l => N.eqb (fst l) a && reach_le ls k' (snd l) b) ls
  end.

(* ------------------------------------------------------------------------------------------ *)
(* wire encodings shared by the oracles of C03 (and reusable by Mgmt)                          *)

Definition as_link (v : val) : option link :=
  match v with VL [VN a; VN b] => Some (a, b) | _ => None end.
Definition vlink (l : link) : val := VL [VN (fst l); VN (snd l)].
Definition vnames (l : list name) : val := VL (map VN l).
Definition vrm (s : rm_state) : val :=
  VL [vnat (rm_max s); vlist vlink (rm_links s); vlist vlink (rm_roles s); vlist vlink (rm_users s)].

(* the plain-manager history that a domain-manager history amounts to for domain d
   (spec of "only assignments recorded for the queried domain are followed") *)
Definition dm_proj (d : name) (ops : list dm_op) : list rm_op :=
  flat_map (fun o => match o with
                     | DAdd u r d' => if N.eqb d' d then [OAdd u r] else []
                     | DDel u r d' => if N.eqb d' d then [ODel u r] else []
                     | DClear => [OClear]
                     | DQuery _ => []
                     end) ops.

(* the state in which all three stores hold the same duplicate-free list *)
Definition rm_set (max_level : nat) (ls : list link) : rm_state := mkRM max_level ls ls ls.
