(* RoleGraphProofs.v — lemmas behind Props/C03.v (no bound on graph size or history length). *)
From Coq Require Import List NArith Bool Arith Lia.
From PyCasbin Require Import Base RoleGraph.
Import ListNotations.

(* ------------------------------------------------------------------------------------------ *)
(* small facts about links, mem, dedup, remove_first                                           *)

Lemma link_eqb_eq : forall x y : link, link_eqb x y = true <-> x = y.
Proof.
  intros [a b] [c d]. unfold link_eqb. simpl. rewrite andb_true_iff, !N.eqb_eq.
  split; [intros [-> ->]; reflexivity | intros H; inversion H; auto].
Qed.

Lemma link_eqb_refl : forall x, link_eqb x x = true.
Proof. intro x. apply link_eqb_eq. reflexivity. Qed.

Lemma mem_link_In : forall x l, mem link_eqb x l = true <-> In x l.
Proof.
  induction l as [|y r IH]; simpl.
  - split; [discriminate | tauto].
  - rewrite orb_true_iff, IH, link_eqb_eq.
    split; (intros [H|H]; [left; congruence | right; assumption]).
Qed.

Lemma mem_link_false : forall x l, mem link_eqb x l = false <-> ~ In x l.
Proof.
  intros x l. rewrite <- mem_link_In. destruct (mem link_eqb x l); split; congruence.
Qed.

Lemma mem_N_In : forall (x : N) l, mem N.eqb x l = true <-> In x l.
Proof.
  induction l as [|y r IH]; simpl.
  - split; [discriminate | tauto].
  - rewrite orb_true_iff, IH, N.eqb_eq.
    split; (intros [H|H]; [left; congruence | right; assumption]).
Qed.

Lemma dedup_In : forall (x : N) l, In x (dedup N.eqb l) <-> In x l.
Proof.
  induction l as [|y r IH]; simpl; [tauto|].
  destruct (mem N.eqb y r) eqn:E.
  - rewrite IH. apply mem_N_In in E. split; [auto | intros [->|H]; auto].
  - simpl. rewrite IH. tauto.
Qed.

Lemma remove_first_None : forall x l, remove_first link_eqb x l = None <-> ~ In x l.
Proof.
  induction l as [|y r IH]; simpl.
  - split; [tauto | reflexivity].
  - destruct (link_eqb x y) eqn:E.
    + apply link_eqb_eq in E. subst. split; [discriminate | intros H; exfalso; apply H; auto].
    + destruct (remove_first link_eqb x r) eqn:R.
      * split; [discriminate|]. intros H. exfalso.
        assert (Hn : ~ In x r) by (intro; apply H; auto). apply IH in Hn. discriminate.
      * split; [|reflexivity]. intros _ [H|H].
        -- subst. rewrite link_eqb_refl in E. discriminate.
        -- apply (proj1 IH eq_refl). exact H.
Qed.

Lemma remove_first_Some : forall x l l', remove_first link_eqb x l = Some l' ->
  exists l1 l2, l = l1 ++ x :: l2 /\ l' = l1 ++ l2 /\ ~ In x l1.
Proof.
  induction l as [|y r IH]; simpl; intros l' H; [discriminate|].
  destruct (link_eqb x y) eqn:E.
  - apply link_eqb_eq in E. subst. inversion H; subst. exists [], l'. simpl. auto.
  - destruct (remove_first link_eqb x r) as [l0|] eqn:R; [|discriminate]. inversion H; subst.
    destruct (IH l0 eq_refl) as [l1 [l2 [H1 [H2 H3]]]]. subst.
    exists (y :: l1), l2. simpl. repeat split; auto.
    intros [Hy|Hy]; [subst; rewrite link_eqb_refl in E; discriminate | contradiction].
Qed.

Lemma remove_first_In : forall x l, In x l -> exists l', remove_first link_eqb x l = Some l'.
Proof.
  intros x l H. destruct (remove_first link_eqb x l) eqn:R; [eauto|].
  apply remove_first_None in R. contradiction.
Qed.

Lemma remove1_notin : forall x l, ~ In x l -> remove1 x l = l.
Proof. intros x l H. unfold remove1. apply remove_first_None in H. rewrite H. reflexivity. Qed.

Lemma remove1_keeps : forall x y l, y <> x -> In y l -> In y (remove1 x l).
Proof.
  intros x y l Hne Hin. unfold remove1. destruct (remove_first link_eqb x l) eqn:R; [|exact Hin].
  apply remove_first_Some in R. destruct R as [l1 [l2 [-> [-> _]]]].
  apply in_app_iff in Hin. apply in_app_iff. destruct Hin as [H|[H|H]]; auto. congruence.
Qed.

Lemma remove1_incl : forall x y l, In y (remove1 x l) -> In y l.
Proof.
  intros x y l. unfold remove1. destruct (remove_first link_eqb x l) eqn:R; [|auto].
  apply remove_first_Some in R. destruct R as [l1 [l2 [-> [-> _]]]].
  rewrite !in_app_iff. simpl. tauto.
Qed.

Lemma remove1_NoDup : forall x l, NoDup l -> NoDup (remove1 x l) /\ ~ In x (remove1 x l).
Proof.
  intros x l H. unfold remove1. destruct (remove_first link_eqb x l) eqn:R.
  - apply remove_first_Some in R. destruct R as [l1 [l2 [-> [-> _]]]].
    split; [eapply NoDup_remove_1; eauto | eapply NoDup_remove_2; eauto].
  - split; [exact H | apply remove_first_None; exact R].
Qed.

Lemma NoDup_snoc : forall (x : link) l, NoDup l -> ~ In x l -> NoDup (l ++ [x]).
Proof.
  intros x l H Hn. induction H as [|y r Hy Hr IH]; simpl.
  - constructor; [tauto | constructor].
  - constructor.
    + rewrite in_app_iff. simpl. intros [H|[H|[]]]; [contradiction | subst; apply Hn; left; reflexivity].
    + apply IH. intro; apply Hn; right; assumption.
Qed.

Lemma set_add_In : forall x y l, In y (set_add x l) <-> y = x \/ In y l.
Proof.
  intros x y l. unfold set_add. destruct (mem link_eqb x l) eqn:E.
  - apply mem_link_In in E. split; [auto | intros [->|H]; auto].
  - rewrite in_app_iff. simpl. split; [intros [H|[H|[]]]; auto | intros [H|H]; auto].
Qed.

Lemma set_add_NoDup : forall x l, NoDup l -> NoDup (set_add x l).
Proof.
  intros x l H. unfold set_add. destruct (mem link_eqb x l) eqn:E; [exact H|].
  apply NoDup_snoc; [exact H | apply mem_link_false; exact E].
Qed.

(* ------------------------------------------------------------------------------------------ *)
(* the level countdown = bounded path existence, for ANY successor function (no hypothesis on   *)
(* the graph: cycles, self-loops, diamonds)                                                     *)

Lemma path_impl : forall (E E' : name -> name -> Prop), (forall a b, E a b -> E' a b) ->
  forall k a b, path E k a b -> path E' k a b.
Proof.
  intros E E' H k a b P. induction P as [a|k a b c Hab _ IH]; [constructor | econstructor; eauto].
Qed.

Lemma path_iff : forall (E E' : name -> name -> Prop), (forall a b, E a b <-> E' a b) ->
  forall k a b, path E k a b <-> path E' k a b.
Proof.
  intros E E' H k a b. split; apply path_impl; intros x y; apply H.
Qed.

Section Lvl.
  Variable succ : name -> list name.
  Definition succ_edge (a b : name) : Prop := In b (succ a).

  Lemma existsb_eqb : forall t l, existsb (N.eqb t) l = true <-> In t l.
  Proof.
    intros t l. rewrite existsb_exists. split.
    - intros [x [Hx He]]. apply N.eqb_eq in He. now subst.
    - intros H. exists t. split; [exact H | apply N.eqb_refl].
  Qed.

  Lemma lvl_iff : forall L t front,
    has_link_lvl succ L t front = true <-> exists k a, k < L /\ In a front /\ path succ_edge k a t.
  Proof.
    induction L as [|L IH]; intros t front.
    - simpl. split; [discriminate | intros [k [a [Hk _]]]; lia].
    - simpl. destruct front as [|x xs] eqn:Hf.
      + split; [discriminate | intros [k [a [_ [[] _]]]]].
      + rewrite <- Hf. destruct (existsb (N.eqb t) front) eqn:He.
        * split; [intros _ | reflexivity].
          apply existsb_eqb in He. exists 0, t. repeat split; [lia | exact He | constructor].
        * rewrite IH. split.
          -- intros [k [a [Hk [Ha Hp]]]]. apply dedup_In, in_flat_map in Ha. destruct Ha as [y [Hy Hay]].
             exists (S k), y. repeat split; [lia | exact Hy | econstructor; eauto].
          -- intros [k [a [Hk [Ha Hp]]]]. destruct Hp as [a|k a b c Hab Hp].
             ++ apply existsb_eqb in Ha. congruence.
             ++ exists k, b. repeat split; [lia | | exact Hp].
                apply dedup_In, in_flat_map. exists a. split; assumption.
  Qed.

  Lemma lvl_single : forall L a b,
    has_link_lvl succ L b [a] = true <-> exists k, k < L /\ path succ_edge k a b.
  Proof.
    intros L a b. rewrite lvl_iff. split.
    - intros [k [x [Hk [[<-|[]] Hp]]]]. eauto.
    - intros [k [Hk Hp]]. exists k, a. simpl. auto.
  Qed.
End Lvl.

(* ------------------------------------------------------------------------------------------ *)
(* plain RoleManager                                                                           *)

Lemma rm_succ_In : forall s a b, In b (rm_succ s a) <-> In (a, b) (rm_roles s).
Proof.
  intros s a b. unfold rm_succ. rewrite in_map_iff. split.
  - intros [[x y] [Hy Hin]]. simpl in Hy. subst. apply filter_In in Hin. destruct Hin as [Hin He].
    simpl in He. apply N.eqb_eq in He. subst. exact Hin.
  - intros H. exists (a, b). split; [reflexivity|]. apply filter_In. split; [exact H | simpl; apply N.eqb_refl].
Qed.

Lemma rm_get_users_In : forall s r u, In u (rm_get_users s r) <-> In (u, r) (rm_users s).
Proof.
  intros s r u. unfold rm_get_users. rewrite in_map_iff. split.
  - intros [[x y] [Hx Hin]]. simpl in Hx. subst. apply filter_In in Hin. destruct Hin as [Hin He].
    simpl in He. apply N.eqb_eq in He. subst. exact Hin.
  - intros H. exists (u, r). split; [reflexivity|]. apply filter_In. split; [exact H | simpl; apply N.eqb_refl].
Qed.

(* has_link = existence of a path of FEWER THAN max_hierarchy_level edges, on any state *)
Theorem has_link_reach : forall s a b,
  rm_has_link s a b = true <-> exists k, k < rm_max s /\ path (rm_edge s) k a b.
Proof.
  intros s a b. unfold rm_has_link. rewrite lvl_single. split; intros [k [Hk Hp]]; exists k; split; auto.
Qed.

Corollary has_link_reflexive : forall s a, 1 <= rm_max s -> rm_has_link s a a = true.
Proof.
  intros s a H. apply has_link_reach. exists 0. split; [lia | constructor].
Qed.

Corollary has_link_level0 : forall s a b, rm_max s = 0 -> rm_has_link s a b = false.
Proof.
  intros s a b H. destruct (rm_has_link s a b) eqn:E; [|reflexivity].
  apply has_link_reach in E. destruct E as [k [Hk _]]. lia.
Qed.

(* chains are never followed beyond the bound: if every path needs at least max edges, no link *)
Corollary has_link_never_beyond : forall s a b,
  (forall k, path (rm_edge s) k a b -> rm_max s <= k) -> rm_has_link s a b = false.
Proof.
  intros s a b H. destruct (rm_has_link s a b) eqn:E; [|reflexivity].
  apply has_link_reach in E. destruct E as [k [Hk Hp]]. apply H in Hp. lia.
Qed.

(* ... and always followed up to it *)
Corollary has_link_within : forall s a b k,
  path (rm_edge s) k a b -> k < rm_max s -> rm_has_link s a b = true.
Proof. intros s a b k Hp Hk. apply has_link_reach. eauto. Qed.

(* monotone in the bound *)
Corollary has_link_mono : forall L L' ls rs us a b, L <= L' ->
  rm_has_link (mkRM L ls rs us) a b = true -> rm_has_link (mkRM L' ls rs us) a b = true.
Proof.
  intros L L' ls rs us a b HL H. apply has_link_reach in H. destruct H as [k [Hk Hp]].
  apply has_link_reach. exists k. split; [simpl in *; lia | exact Hp].
Qed.

Theorem direct_only_state : forall s u r, In r (rm_get_roles s u) <-> In (u, r) (rm_roles s).
Proof. intros. apply rm_succ_In. Qed.

(* ---- invariants over histories ---- *)

(* (G) holds after EVERY history, double adds and stale deletes included *)
Definition rm_sym (s : rm_state) : Prop :=
  rm_roles s = rm_users s /\ NoDup (rm_roles s) /\ incl (rm_roles s) (rm_links s).

Lemma rm_sym_empty : forall L, rm_sym (rm_empty L).
Proof. intro L. repeat split; simpl; [constructor | intros x []]. Qed.

Lemma rm_sym_add : forall s u r, rm_sym s -> rm_sym (rm_add_link s u r).
Proof.
  intros s u r [H1 [H2 H3]]. unfold rm_add_link. repeat split; simpl.
  - rewrite H1. reflexivity.
  - apply set_add_NoDup. exact H2.
  - intros y Hy. apply set_add_In in Hy. apply in_app_iff. destruct Hy as [->|Hy]; [right; left; reflexivity | left; auto].
Qed.

Lemma rm_sym_del : forall s u r, rm_sym s -> rm_sym (fst (rm_delete_link_x s u r)).
Proof.
  intros s u r [H1 [H2 H3]]. unfold rm_delete_link_x.
  destruct (mem link_eqb (u, r) (rm_links s)) eqn:M; simpl; [|repeat split; assumption].
  rewrite <- H1. destruct (remove_first link_eqb (u, r) (rm_roles s)) eqn:R; simpl.
  - pose proof (remove_first_Some _ _ _ R) as [l1 [l2 [E1 [E2 Hn]]]].
    repeat split; simpl.
    + subst l. rewrite E1 in H2. eapply NoDup_remove_1; eauto.
    + intros y Hy. assert (Hy' : In y (rm_roles s) /\ y <> (u, r)).
      { subst l. rewrite E1 in H2 |- *. split.
        - apply in_app_iff in Hy. apply in_app_iff. simpl. tauto.
        - intro; subst y. apply NoDup_remove_2 in H2. contradiction. }
      destruct Hy' as [Hy1 Hy2]. apply remove1_keeps; auto.
  - repeat split; simpl; auto.
    intros y Hy. apply remove_first_None in R. apply remove1_keeps; [congruence | auto].
Qed.

Lemma rm_sym_step : forall s o, rm_sym s -> rm_sym (rm_step s o).
Proof.
  intros s [u r|u r|] H; simpl.
  - apply rm_sym_add; exact H.
  - apply rm_sym_del; exact H.
  - apply rm_sym_empty.
Qed.

Lemma rm_sym_run : forall ops s, rm_sym s -> rm_sym (rm_run s ops).
Proof.
  induction ops as [|o ops IH]; intros s H; simpl; [exact H|]. apply IH, rm_sym_step, H.
Qed.

(* get_roles and get_users are inverse views, after any history whatsoever *)
Theorem roles_users_inverse : forall L ops u r,
  In r (rm_get_roles (rm_run (rm_empty L) ops) u) <-> In u (rm_get_users (rm_run (rm_empty L) ops) r).
Proof.
  intros L ops u r. destruct (rm_sym_run ops _ (rm_sym_empty L)) as [H _].
  unfold rm_get_roles. rewrite rm_succ_In, rm_get_users_In, H. tauto.
Qed.

(* an edge always has a link behind it, after any history whatsoever *)
Theorem edges_subset_links : forall L ops l,
  In l (rm_roles (rm_run (rm_empty L) ops)) -> In l (rm_links (rm_run (rm_empty L) ops)).
Proof.
  intros L ops l. destruct (rm_sym_run ops _ (rm_sym_empty L)) as [_ [_ H]]. apply H.
Qed.

(* states in which all three stores hold one duplicate-free list ([rm_set]) are closed under
   every step that is not a double add *)
Lemma rm_add_set : forall L ls u r, ~ In (u, r) ls ->
  rm_add_link (rm_set L ls) u r = rm_set L (ls ++ [(u, r)]).
Proof.
  intros L ls u r H. unfold rm_add_link, rm_set, set_add. simpl.
  apply mem_link_false in H. rewrite H. reflexivity.
Qed.

Lemma rm_del_set : forall L ls u r, NoDup ls ->
  rm_delete_link_x (rm_set L ls) u r = (rm_set L (remove1 (u, r) ls), None).
Proof.
  intros L ls u r H. unfold rm_delete_link_x, rm_set. simpl.
  destruct (mem link_eqb (u, r) ls) eqn:M; simpl.
  - apply mem_link_In in M. destruct (remove_first_In _ _ M) as [l' R].
    unfold remove1. rewrite R. reflexivity.
  - apply mem_link_false in M. rewrite remove1_notin by exact M. reflexivity.
Qed.

Lemma rm_max_step : forall s o, rm_max (rm_step s o) = rm_max s.
Proof.
  intros s [u r|u r|]; simpl; try reflexivity.
  unfold rm_delete_link_x. destruct (negb _); [reflexivity|].
  destruct (remove_first _ _ (rm_roles s)); [destruct (remove_first _ _ (rm_users s))|]; reflexivity.
Qed.

Lemma rm_max_run : forall ops s, rm_max (rm_run s ops) = rm_max s.
Proof.
  induction ops as [|o ops IH]; intros s; simpl; [reflexivity|]. rewrite IH. apply rm_max_step.
Qed.

Lemma links_step_NoDup : forall ls o, NoDup ls -> NoDup (links_step ls o).
Proof.
  intros ls [u r|u r|] H; simpl.
  - destruct (mem link_eqb (u, r) ls) eqn:M; [exact H|].
    apply NoDup_snoc; [exact H | apply mem_link_false; exact M].
  - apply remove1_NoDup; exact H.
  - constructor.
Qed.

(* one step from a "set" state, the add not being a double add *)
Lemma rm_step_set : forall L ls o, NoDup ls ->
  match o with OAdd u r => mem link_eqb (u, r) ls = false | _ => True end ->
  rm_step (rm_set L ls) o = rm_set L (links_step ls o).
Proof.
  intros L ls [u r|u r|] H G; simpl.
  - rewrite G. apply rm_add_set. apply mem_link_false. exact G.
  - rewrite rm_del_set by exact H. reflexivity.
  - reflexivity.
Qed.

Lemma rm_run_set : forall ops L ls, NoDup ls -> no_double_add_from ls ops = true ->
  rm_run (rm_set L ls) ops = rm_set L (fold_left links_step ops ls) /\ NoDup (fold_left links_step ops ls).
Proof.
  induction ops as [|o ops IH]; intros L ls H G; simpl; [auto|].
  simpl in G. apply andb_true_iff in G. destruct G as [G1 G2].
  rewrite rm_step_set; auto.
  - apply IH; [apply links_step_NoDup; exact H | exact G2].
  - destruct o; auto. apply negb_true_iff. exact G1.
Qed.

(* edges = the set of links in force, by induction on any add/delete/clear history without double
   adds: all three stores ARE the specification's list *)
Theorem edges_are_links : forall L ops, no_double_add ops = true ->
  rm_run (rm_empty L) ops = rm_set L (links_spec ops) /\ NoDup (links_spec ops).
Proof.
  intros L ops G. change (rm_empty L) with (rm_set L []). apply rm_run_set; [constructor | exact G].
Qed.

(* no delete raises along such a history *)
Theorem no_stale_delete : forall L ops u r, no_double_add ops = true ->
  snd (rm_delete_link_x (rm_run (rm_empty L) ops) u r) = None.
Proof.
  intros L ops u r G. destruct (edges_are_links L ops G) as [-> H]. rewrite rm_del_set by exact H. reflexivity.
Qed.

Theorem direct_only : forall L ops u r, no_double_add ops = true ->
  (In r (rm_get_roles (rm_run (rm_empty L) ops) u) <-> In (u, r) (links_spec ops)) /\
  (In u (rm_get_users (rm_run (rm_empty L) ops) r) <-> In (u, r) (links_spec ops)).
Proof.
  intros L ops u r G. destruct (edges_are_links L ops G) as [-> _].
  unfold rm_get_roles. rewrite rm_succ_In, rm_get_users_In. simpl. tauto.
Qed.

Lemma rm_edge_set : forall L ls a b, rm_edge (rm_set L ls) a b <-> link_edge ls a b.
Proof. intros. unfold rm_edge, link_edge. rewrite rm_succ_In. simpl. tauto. Qed.

Lemma has_link_set : forall L ls a b,
  rm_has_link (rm_set L ls) a b = true <-> exists k, k < L /\ path (link_edge ls) k a b.
Proof.
  intros L ls a b. rewrite has_link_reach. simpl.
  split; intros [k [Hk Hp]]; exists k; (split; [exact Hk|]);
    eapply path_iff; try exact Hp; intros x y; [symmetry|]; apply rm_edge_set.
Qed.

(* THE statement of C03 for the plain manager *)
Theorem has_link_history : forall L ops a b, no_double_add ops = true ->
  (rm_has_link (rm_run (rm_empty L) ops) a b = true
   <-> exists k, k < L /\ path (link_edge (links_spec ops)) k a b).
Proof.
  intros L ops a b G. destruct (edges_are_links L ops G) as [-> _]. apply has_link_set.
Qed.

(* the negative side, again on ANY graph: the countdown stops and answers "no" exactly when no
   short enough path exists (a cyclic graph has infinitely many paths; only those of fewer than
   max edges count) *)
Corollary has_link_false_iff : forall s a b,
  rm_has_link s a b = false <-> forall k, k < rm_max s -> ~ path (rm_edge s) k a b.
Proof.
  intros s a b. split.
  - intros H k Hk Hp. assert (T : rm_has_link s a b = true) by (apply has_link_reach; eauto). congruence.
  - intros H. destruct (rm_has_link s a b) eqn:E; [|reflexivity].
    apply has_link_reach in E. destruct E as [k [Hk Hp]]. exfalso. exact (H k Hk Hp).
Qed.

(* the executable reachability spec used by the harness means what it should *)
Theorem reach_le_spec : forall ls k a b,
  reach_le ls k a b = true <-> exists j, j <= k /\ path (link_edge ls) j a b.
Proof.
  intros ls k. induction k as [|k IH]; intros a b; simpl; rewrite orb_true_iff, N.eqb_eq.
  - split.
    + intros [->|H]; [|discriminate]. exists 0. split; [lia | constructor].
    + intros [j [Hj Hp]]. left. destruct Hp; [reflexivity | lia].
  - rewrite existsb_exists. split.
    + intros [->|[[x y] [Hin Hc]]].
      * exists 0. split; [lia | constructor].
      * simpl in Hc. apply andb_true_iff in Hc. destruct Hc as [Hx Hr]. apply N.eqb_eq in Hx. subst x.
        apply IH in Hr. destruct Hr as [j [Hj Hp]]. exists (S j). split; [lia|].
        econstructor; [|exact Hp]. exact Hin.
    + intros [j [Hj Hp]]. destruct Hp as [a|j a x c Hax Hp]; [left; reflexivity|].
      right. exists (a, x). split; [exact Hax|]. simpl. rewrite N.eqb_refl. simpl.
      apply IH. exists j. split; [lia | exact Hp].
Qed.

(* what a repeated add_link does: the link list is a multiset, the edges are a set *)
Theorem double_add_refuted : exists ops,
  no_double_add ops = false /\
  let s := rm_run (rm_empty 10) ops in
  rm_links s = [(1, 2)]%N /\ rm_roles s = [] /\ rm_has_link s 1%N 2%N = false /\
  rm_has_link (rm_of_links 10 (rm_links s)) 1%N 2%N = true /\
  snd (rm_delete_link_x s 1%N 2%N) = Some EKeyError.
Proof.
  exists [OAdd 1 2; OAdd 1 2; ODel 1 2]%N. vm_compute. repeat split; reflexivity.
Qed.

(* ------------------------------------------------------------------------------------------ *)
(* a manager rebuilt from a duplicate-free link list                                           *)

Lemma rm_add_all_set : forall ls L l0, NoDup (l0 ++ ls) ->
  rm_add_all (rm_set L l0) ls = rm_set L (l0 ++ ls).
Proof.
  induction ls as [|[u r] ls IH]; intros L l0 H; simpl.
  - rewrite app_nil_r. reflexivity.
  - rewrite rm_add_set.
    + rewrite IH.
      * rewrite <- app_assoc. reflexivity.
      * rewrite <- app_assoc. exact H.
    + apply NoDup_remove_2 in H. intro Hin. apply H. apply in_app_iff. auto.
Qed.

Lemma rm_of_links_set : forall L ls, NoDup ls -> rm_of_links L ls = rm_set L ls.
Proof. intros L ls H. unfold rm_of_links. change (rm_empty L) with (rm_set L []). apply rm_add_all_set. exact H. Qed.

(* ------------------------------------------------------------------------------------------ *)
(* DomainManager                                                                               *)

Section AssocFacts.
  Context {V : Type}.
  Lemma alookup_aset_eq : forall k (v : V) m, alookup k (aset k v m) = Some v.
  Proof.
    induction m as [|[k' v'] m IH]; simpl.
    - rewrite N.eqb_refl. reflexivity.
    - destruct (N.eqb k k') eqn:E; simpl; rewrite E; [reflexivity | exact IH].
  Qed.
  Lemma alookup_aset_neq : forall k k' (v : V) m, k' <> k -> alookup k' (aset k v m) = alookup k' m.
  Proof.
    intros k k' v m Hne. induction m as [|[k2 v2] m IH]; simpl.
    - apply N.eqb_neq in Hne. rewrite Hne. reflexivity.
    - destruct (N.eqb k k2) eqn:E; simpl.
      + apply N.eqb_eq in E. subst k2. apply N.eqb_neq in Hne. rewrite Hne. reflexivity.
      + destruct (N.eqb k' k2); [reflexivity | exact IH].
  Qed.
  Lemma alookup_app : forall k (m m' : list (name * V)),
    alookup k (m ++ m') = match alookup k m with Some v => Some v | None => alookup k m' end.
  Proof.
    induction m as [|[k2 v2] m IH]; intros m'; simpl; [reflexivity|].
    destruct (N.eqb k k2); [reflexivity | apply IH].
  Qed.
End AssocFacts.

Lemma dm_links_of_aset : forall L L' links c c' d v d',
  dm_links_of (mkDM L (aset d v links) c) d' = if N.eqb d' d then v else dm_links_of (mkDM L' links c') d'.
Proof.
  intros. unfold dm_links_of. simpl. destruct (N.eqb d' d) eqn:E.
  - apply N.eqb_eq in E. subst. rewrite alookup_aset_eq. reflexivity.
  - apply N.eqb_neq in E. rewrite alookup_aset_neq by exact E. reflexivity.
Qed.

Definition dm_inv (s : dm_state) : Prop :=
  (forall d, NoDup (dm_links_of s d)) /\
  (forall d rm, alookup d (dm_cache s) = Some rm -> rm = rm_set (dm_max s) (dm_links_of s d)).

Lemma dm_inv_empty : forall L, dm_inv (dm_empty L).
Proof. intro L. split; [intro d; constructor | intros d rm H; discriminate]. Qed.

Lemma dm_inv_add : forall s u r d, dm_inv s -> mem link_eqb (u, r) (dm_links_of s d) = false ->
  dm_inv (dm_add_link s u r d).
Proof.
  intros [L links c] u r d [H1 H2] G. apply mem_link_false in G. unfold dm_add_link. simpl in *. split.
  - intro d'. rewrite (dm_links_of_aset _ L _ _ c). destruct (N.eqb d' d); [|apply H1].
    apply NoDup_snoc; [apply H1 | exact G].
  - intros d' rm. simpl. rewrite (dm_links_of_aset _ L _ _ c). destruct (N.eqb d' d) eqn:E.
    + apply N.eqb_eq in E. subst d'. destruct (alookup d c) eqn:C.
      * rewrite alookup_aset_eq. intro Hr. inversion Hr; subst rm.
        rewrite (H2 d r0 C). simpl. apply rm_add_set. exact G.
      * rewrite C. discriminate.
    + apply N.eqb_neq in E. destruct (alookup d c) eqn:C.
      * rewrite alookup_aset_neq by exact E. apply H2.
      * apply H2.
Qed.

Lemma dm_inv_del : forall s u r d, dm_inv s ->
  dm_inv (fst (dm_delete_link_x s u r d)) /\
  (snd (dm_delete_link_x s u r d) = None \/ snd (dm_delete_link_x s u r d) = Some ELinkMissing) /\
  (forall d', dm_links_of (fst (dm_delete_link_x s u r d)) d' =
              if N.eqb d' d then remove1 (u, r) (dm_links_of s d) else dm_links_of s d').
Proof.
  intros [L links c] u r d [H1 H2]. unfold dm_delete_link_x. simpl in *.
  set (ls := dm_links_of (mkDM L links c) d).
  destruct (mem link_eqb (u, r) ls) eqn:M; simpl.
  - (* present *)
    destruct (alookup d c) eqn:C; simpl.
    + rewrite (H2 d r0 C). simpl. fold ls. rewrite rm_del_set by apply H1. simpl.
      split; [split|split; [left; reflexivity|]].
      * intro d'. rewrite (dm_links_of_aset _ L _ _ c). destruct (N.eqb d' d); [apply remove1_NoDup; apply H1 | apply H1].
      * intros d' rm. simpl. rewrite (dm_links_of_aset _ L _ _ c). destruct (N.eqb d' d) eqn:E.
        -- apply N.eqb_eq in E. subst d'. rewrite alookup_aset_eq. intro Hr; inversion Hr; reflexivity.
        -- apply N.eqb_neq in E. rewrite alookup_aset_neq by exact E. apply H2.
      * intro d'. apply dm_links_of_aset.
    + split; [split|split; [left; reflexivity|]].
      * intro d'. rewrite (dm_links_of_aset _ L _ _ c). destruct (N.eqb d' d); [apply remove1_NoDup; apply H1 | apply H1].
      * intros d' rm. simpl. rewrite (dm_links_of_aset _ L _ _ c). destruct (N.eqb d' d) eqn:E.
        -- apply N.eqb_eq in E. subst d'. rewrite C. discriminate.
        -- apply H2.
      * intro d'. apply dm_links_of_aset.
  - (* absent: only an empty entry may appear *)
    apply mem_link_false in M.
    assert (Hsame : forall d', dm_links_of (mkDM L (aset d ls links) c) d' = dm_links_of (mkDM L links c) d').
    { intro d'. rewrite (dm_links_of_aset _ L _ _ c). destruct (N.eqb d' d) eqn:E; [|reflexivity].
      apply N.eqb_eq in E. subst d'. reflexivity. }
    split; [split|split; [right; reflexivity|]].
    + intro d'. rewrite Hsame. apply H1.
    + intros d' rm. simpl. rewrite Hsame. apply H2.
    + intro d'. rewrite Hsame. destruct (N.eqb d' d) eqn:E; [|reflexivity].
      apply N.eqb_eq in E. subst d'. fold ls. rewrite remove1_notin by exact M. reflexivity.
Qed.

Lemma dm_inv_query : forall s d, dm_inv s ->
  dm_inv (snd (dm_get_rm s d)) /\ fst (dm_get_rm s d) = rm_set (dm_max s) (dm_links_of s d) /\
  (forall d', dm_links_of (snd (dm_get_rm s d)) d' = dm_links_of s d').
Proof.
  intros [L links c] d [H1 H2]. unfold dm_get_rm. simpl in *.
  destruct (alookup d c) eqn:C; simpl.
  - split; [split; assumption|]. split; [apply H2; exact C | reflexivity].
  - assert (B : dm_build (mkDM L links c) d = rm_set L (dm_links_of (mkDM L links c) d)).
    { unfold dm_build. simpl. apply rm_of_links_set. apply H1. }
    split; [split|split; [exact B | reflexivity]].
    + exact H1.
    + intros d' rm. simpl. rewrite alookup_app. destruct (alookup d' c) eqn:C'.
      * intro Hr; inversion Hr; subst. apply (H2 d' rm C').
      * simpl. destruct (N.eqb d' d) eqn:E; [|discriminate].
        apply N.eqb_eq in E. subst d'. intro Hr; inversion Hr; subst. exact B.
Qed.

Lemma dm_max_step : forall s o, dm_max (dm_step s o) = dm_max s.
Proof.
  intros s [u r d|u r d| |d]; simpl; try reflexivity.
  - unfold dm_delete_link_x. destruct (negb _); [reflexivity|].
    destruct (alookup d (dm_cache s)); [destruct (rm_delete_link_x r0 u r)|]; reflexivity.
  - unfold dm_get_rm. destruct (alookup d (dm_cache s)); reflexivity.
Qed.

Lemma dm_inv_step : forall s o, dm_inv s ->
  match o with DAdd u r d => mem link_eqb (u, r) (dm_links_of s d) = false | _ => True end ->
  dm_inv (dm_step s o).
Proof.
  intros s [u r d|u r d| |d] H G; simpl.
  - apply dm_inv_add; assumption.
  - apply dm_inv_del; assumption.
  - apply dm_inv_empty.
  - apply dm_inv_query; assumption.
Qed.

Lemma dm_inv_run : forall ops s, dm_inv s -> dm_no_double_add_from s ops = true -> dm_inv (dm_run s ops).
Proof.
  induction ops as [|o ops IH]; intros s H G; simpl; [exact H|].
  simpl in G. apply andb_true_iff in G. destruct G as [G1 G2].
  apply IH; [|exact G2]. apply dm_inv_step; [exact H|].
  destruct o; auto. apply negb_true_iff. exact G1.
Qed.

Lemma dm_max_run : forall ops s, dm_max (dm_run s ops) = dm_max s.
Proof.
  induction ops as [|o ops IH]; intros s; simpl; [reflexivity|]. rewrite IH. apply dm_max_step.
Qed.

(* the cached per-domain manager always equals the one a fresh build from the domain's current
   links would give — over histories of adds / deletes / clears / queries in any order *)
Theorem cache_consistent : forall L ops, dm_no_double_add_from (dm_empty L) ops = true ->
  let s := dm_run (dm_empty L) ops in
  forall d rm, alookup d (dm_cache s) = Some rm -> rm = dm_build s d.
Proof.
  intros L ops G s d rm C.
  destruct (dm_inv_run ops _ (dm_inv_empty L) G) as [H1 H2]. fold s in H1, H2.
  rewrite (H2 d rm C). unfold dm_build. symmetry. apply rm_of_links_set. apply H1.
Qed.

(* per-domain links after a history = the plain-manager spec of the history projected on d *)
Lemma dm_links_add : forall s u r d d',
  dm_links_of (dm_add_link s u r d) d' = if N.eqb d' d then dm_links_of s d ++ [(u, r)] else dm_links_of s d'.
Proof. intros [L links c] u r d d'. unfold dm_add_link. simpl. apply dm_links_of_aset. Qed.

Lemma dm_links_step : forall s o d, dm_inv s ->
  match o with DAdd u r d0 => mem link_eqb (u, r) (dm_links_of s d0) = false | _ => True end ->
  dm_links_of (dm_step s o) d = fold_left links_step (dm_proj d [o]) (dm_links_of s d).
Proof.
  intros s [u r d0|u r d0| |d0] d H G; unfold dm_proj; simpl.
  - rewrite dm_links_add. rewrite (N.eqb_sym d d0). destruct (N.eqb d0 d) eqn:E; simpl; [|reflexivity].
    apply N.eqb_eq in E. subst d0. rewrite G. reflexivity.
  - destruct (dm_inv_del s u r d0 H) as [_ [_ Hl]]. rewrite Hl. rewrite (N.eqb_sym d d0).
    destruct (N.eqb d0 d) eqn:E; simpl; [|reflexivity]. apply N.eqb_eq in E. subst. reflexivity.
  - reflexivity.
  - apply dm_inv_query. exact H.
Qed.

Lemma dm_proj_cons : forall d o ops, dm_proj d (o :: ops) = dm_proj d [o] ++ dm_proj d ops.
Proof. intros. unfold dm_proj. simpl. rewrite app_nil_r. reflexivity. Qed.

Lemma dm_links_run : forall ops s d, dm_inv s -> dm_no_double_add_from s ops = true ->
  dm_links_of (dm_run s ops) d = fold_left links_step (dm_proj d ops) (dm_links_of s d).
Proof.
  induction ops as [|o ops IH]; intros s d H G; [reflexivity|].
  simpl in G. apply andb_true_iff in G. destruct G as [G1 G2].
  assert (G1' : match o with DAdd u r d0 => mem link_eqb (u, r) (dm_links_of s d0) = false | _ => True end).
  { destruct o; auto. apply negb_true_iff. exact G1. }
  change (dm_run s (o :: ops)) with (dm_run (dm_step s o) ops).
  rewrite IH; [| apply dm_inv_step; assumption | exact G2].
  rewrite (dm_links_step s o d H G1'). rewrite (dm_proj_cons d o ops), fold_left_app. reflexivity.
Qed.

Lemma dm_has_link_fst : forall s a b d, fst (dm_has_link s a b d) = rm_has_link (fst (dm_get_rm s d)) a b.
Proof. intros. unfold dm_has_link. destruct (dm_get_rm s d). reflexivity. Qed.
Lemma dm_get_roles_fst : forall s u d, fst (dm_get_roles s u d) = rm_get_roles (fst (dm_get_rm s d)) u.
Proof. intros. unfold dm_get_roles. destruct (dm_get_rm s d). reflexivity. Qed.
Lemma dm_get_users_fst : forall s r d, fst (dm_get_users s r d) = rm_get_users (fst (dm_get_rm s d)) r.
Proof. intros. unfold dm_get_users. destruct (dm_get_rm s d). reflexivity. Qed.

(* in a model with domains only the assignments recorded for the queried domain are followed *)
Theorem domain_scoped : forall L ops a b d, dm_no_double_add_from (dm_empty L) ops = true ->
  let s := dm_run (dm_empty L) ops in
  dm_links_of s d = links_spec (dm_proj d ops) /\
  (fst (dm_has_link s a b d) = true <-> exists k, k < L /\ path (link_edge (dm_links_of s d)) k a b).
Proof.
  intros L ops a b d G s. pose proof (dm_inv_run ops _ (dm_inv_empty L) G) as I. fold s in I.
  split.
  - unfold s. rewrite dm_links_run; [reflexivity | apply dm_inv_empty | exact G].
  - rewrite dm_has_link_fst. destruct (dm_inv_query s d I) as [_ [-> _]].
    unfold s at 1. rewrite dm_max_run. simpl. apply has_link_set.
Qed.

Theorem domain_direct_only : forall L ops u r d, dm_no_double_add_from (dm_empty L) ops = true ->
  let s := dm_run (dm_empty L) ops in
  (In r (fst (dm_get_roles s u d)) <-> In (u, r) (dm_links_of s d)) /\
  (In u (fst (dm_get_users s r d)) <-> In (u, r) (dm_links_of s d)).
Proof.
  intros L ops u r d G s. pose proof (dm_inv_run ops _ (dm_inv_empty L) G) as I. fold s in I.
  rewrite dm_get_roles_fst, dm_get_users_fst. destruct (dm_inv_query s d I) as [_ [-> _]].
  unfold rm_get_roles. rewrite rm_succ_In, rm_get_users_In. simpl. tauto.
Qed.

(* deletes never raise KeyError along such a history (only "link does not exist" for absent links) *)
Theorem domain_no_stale_delete : forall L ops u r d, dm_no_double_add_from (dm_empty L) ops = true ->
  let s := dm_run (dm_empty L) ops in
  snd (dm_delete_link_x s u r d) = if mem link_eqb (u, r) (dm_links_of s d) then None else Some ELinkMissing.
Proof.
  intros L ops u r d G s. pose proof (dm_inv_run ops _ (dm_inv_empty L) G) as [I1 I2]. fold s in I1, I2.
  unfold dm_delete_link_x. destruct (mem link_eqb (u, r) (dm_links_of s d)) eqn:M; simpl; [|reflexivity].
  destruct (alookup d (dm_cache s)) eqn:C; [|reflexivity].
  rewrite (I2 d r0 C). rewrite rm_del_set by apply I1. reflexivity.
Qed.

(* what a repeated add does to a domain manager: with a cache entry the edge disappears at the
   first delete although a link remains (and a rebuild would show it); without a cache entry the
   edge survives the delete — the two views of one history differ *)
Theorem dm_double_add_refuted :
  (let ops := [DAdd 1 2 7; DQuery 7; DAdd 1 2 7; DDel 1 2 7]%N in
   let s := dm_run (dm_empty 10) ops in
   dm_no_double_add_from (dm_empty 10) ops = false /\
   dm_links_of s 7%N = [(1, 2)]%N /\ links_spec (dm_proj 7%N ops) = [] /\
   fst (dm_has_link s 1 2 7)%N = false /\ rm_has_link (dm_build s 7%N) 1%N 2%N = true) /\
  (let ops := [DAdd 1 2 7; DAdd 1 2 7; DDel 1 2 7]%N in
   let s := dm_run (dm_empty 10) ops in
   dm_no_double_add_from (dm_empty 10) ops = false /\
   links_spec (dm_proj 7%N ops) = [] /\ fst (dm_has_link s 1 2 7)%N = true).
Proof. vm_compute. repeat split; reflexivity. Qed.
