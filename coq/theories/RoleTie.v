(* RoleTie.v — C03: RoleManager._has_link and RoleManager.has_link regenerated from
   casbin/rbac/default_role_manager/role_manager.py on this run (coq/gen/HasLinkGen.v), executed by the interpreter of
   RoleLang.v, compute RoleGraph.has_link_lvl / rm_has_link - for every role graph, every frontier, every level, and
   EVERY order in which Python may iterate a set (`shuffle`: only "same elements" is assumed). *)
From Coq Require Import List NArith ZArith Bool Lia Arith.
From PyCasbin Require Import Base RoleGraph RoleGraphProofs RoleLang.
From PyCasbinGen Require Import HasLinkGen.
Import ListNotations.
Local Open Scope N_scope.

Definition RFUEL : nat := 30.

Definition run_rec (succ : name -> list name) (shuffle : list name -> list name) (depth : nat)
                   (t : name) (front : list name) (lvl : Z) : result rv :=
  rrec succ shuffle RFUEL has_link_rec_params has_link_rec_locals has_link_rec_gen depth [RName t; RRoles front; RZ lvl].

Definition run_has_link (succ : name -> list name) (shuffle : list name -> list name) (max_level : Z) (depth : nat)
                        (a b : name) : result rv :=
  rbody succ shuffle max_level (rrec succ shuffle RFUEL has_link_rec_params has_link_rec_locals has_link_rec_gen depth)
        RFUEL has_link_params has_link_locals has_link_gen [RName a; RName b].

(* ------------------------------------------------------------------ stepping equations *)
Section Steps.
  Variable succ : name -> list name.
  Variable shuffle : list name -> list name.
  Variable mx : Z.
  Variable self : list rv -> result rv.
  Notation rblock' := (rblock succ shuffle mx self).
  Notation rexec' := (rexec succ shuffle mx self).
  Notation reval' := (reval succ shuffle mx self).

  Lemma rblock_nil n l : rblock' (S n) l [] = RNext l.
  Proof. reflexivity. Qed.
  Lemma rblock_step n l c r o : rexec' n l c = o ->
    rblock' (S n) l (c :: r) = match o with RNext l' => rblock' n l' r | RRet v => RRet v | RErr e => RErr e end.
  Proof.
    intros <-. change (rblock' (S n) l (c :: r)) with (match rexec' n l c with RNext l' => rblock' n l' r | o => o end).
    destruct (rexec' n l c); reflexivity.
  Qed.
  Lemma rexec_if n l c a b v : reval' n l c = v ->
    rexec' (S n) l (RIf c a b) =
    match v with Ok (RB true) => rblock' n l a | Ok (RB false) => rblock' n l b | Ok _ => RErr 90 | Err e => RErr e end.
  Proof. intros <-. reflexivity. Qed.
  Lemma rexec_for n l x it body s : reval' n l it = Ok (RRoles s) ->
    rexec' (S n) l (RFor x it body) = for_names (fun r l' => rblock' n (rupd x (RName r) l') body) s l.
  Proof.
    intro H. change (rexec' (S n) l (RFor x it body)) with
      (match reval' n l it with
       | Ok (RRoles s) => for_names (fun r l' => rblock' n (rupd x (RName r) l') body) s l
       | Ok (RSet s) => for_names (fun r l' => rblock' n (rupd x (RName r) l') body) (shuffle s) l
       | Ok _ => RErr EType
       | Err c => RErr c end).
    rewrite H. reflexivity.
  Qed.
End Steps.

Ltac r_atomic c := lazymatch c with RIf _ _ _ => fail | RFor _ _ _ => fail | _ => idtac end.
Ltac rlz t := let v := eval lazy -[N.eqb Z.leb Z.eqb Z.sub Z.of_nat length set_union for_names name rrec] in t in v.
Ltac rbstep :=
  lazymatch goal with
  | |- context [rblock ?a ?b ?c ?d (S ?n) ?s []] => rewrite (rblock_nil a b c d n s)
  | |- context [rblock ?a ?b ?c ?d (S ?n) ?s (?st :: ?r)] =>
      tryif r_atomic st then (let o := rlz (rexec a b c d n s st) in rewrite (rblock_step a b c d n s st r o eq_refl))
      else rewrite (rblock_step a b c d n s st r _ eq_refl)
  end; cbv beta iota.
Ltac restep :=
  lazymatch goal with
  | |- context [rexec ?a ?b ?c ?d (S ?n) ?s (RIf ?cond ?x ?y)] =>
      let v := rlz (reval a b c d n s cond) in rewrite (rexec_if a b c d n s cond x y v eq_refl)
  end; cbv beta iota.
Ltac rstep := first [restep | rbstep].

(* ------------------------------------------------------------------ sets *)
Lemma set_ins_In x a s : In a (set_ins x s) <-> a = x \/ In a s.
Proof.
  unfold set_ins. destruct (mem N.eqb x s) eqn:E.
  - apply mem_N_In in E. split; [auto | intros [->|H]; assumption].
  - rewrite in_app_iff. simpl. split; [intros [H|[H|[]]]; auto | intros [->|H]; auto].
Qed.

Lemma set_union_In : forall l s a, In a (set_union s l) <-> In a s \/ In a l.
Proof.
  unfold set_union. induction l as [|x r IH]; intros s a; simpl.
  - tauto.
  - rewrite IH, set_ins_In. split; [intros [[->|H]|H] | intros [H|[->|H]]]; auto.
Qed.

Lemma has_link_lvl_ext succ L t f1 f2 : (forall a, In a f1 <-> In a f2) ->
  has_link_lvl succ L t f1 = has_link_lvl succ L t f2.
Proof.
  intro H. apply eq_true_iff_eq. rewrite !lvl_iff.
  split; intros (k & a & Hk & Ha & Hp); exists k, a; (split; [exact Hk | split; [apply H; exact Ha | exact Hp]]).
Qed.

(* ------------------------------------------------------------------ _has_link *)
Definition LBODY : list rst :=
  Eval lazy in match nth_error has_link_rec_gen 2 with Some (RFor _ _ b) => b | _ => [] end.

Definition mkR (t : name) (front : list name) (lvl : Z) (acc : list name) (role : rv) : rlocals :=
  [(1, RName t); (2, RRoles front); (3, RZ lvl); (4, RSet acc); (5, role)].

Section Rec.
  Variable succ : name -> list name.
  Variable shuffle : list name -> list name.
  Hypothesis shuffle_same : forall l a, In a (shuffle l) <-> In a l.
  Variable self : list rv -> result rv.

  Lemma body_role n t front lvl acc role0 r :
    rblock succ shuffle 0%Z self (10 + n) (rupd 5 (RName r) (mkR t front lvl acc role0)) LBODY =
    if t =? r then RRet (RB true) else RNext (mkR t front lvl (set_union acc (succ r)) (RName r)).
  Proof.
    unfold LBODY, mkR. cbn [Nat.add].
    rstep. rstep. destruct (t =? r); cbv beta iota; repeat rstep; reflexivity.
  Qed.

  Lemma loop_roles n t front lvl : forall xs acc role0,
    exists role1,
      for_names (fun r l' => rblock succ shuffle 0%Z self (10 + n) (rupd 5 (RName r) l') LBODY) xs (mkR t front lvl acc role0) =
      if existsb (N.eqb t) xs then RRet (RB true)
      else RNext (mkR t front lvl (fold_left (fun a r => set_union a (succ r)) xs acc) role1).
  Proof.
    induction xs as [|r xs IH]; intros acc role0.
    - exists role0. reflexivity.
    - cbn [for_names existsb fold_left]. rewrite body_role. destruct (t =? r); cbn [orb].
      + exists role0. reflexivity.
      + apply IH.
  Qed.

  Lemma fold_union_In : forall xs acc a,
    In a (fold_left (fun a r => set_union a (succ r)) xs acc) <-> In a acc \/ In a (flat_map succ xs).
  Proof.
    induction xs as [|r xs IH]; intros acc a; simpl; [tauto|].
    rewrite IH, set_union_In, in_app_iff. tauto.
  Qed.
End Rec.

Lemma leb_succ_0 l : (Z.of_nat (S l) <=? 0)%Z = false.
Proof. apply Z.leb_gt. lia. Qed.
Lemma len_cons_0 {A} (x : A) xs : (Z.of_nat (length (x :: xs)) =? 0)%Z = false.
Proof. apply Z.eqb_neq. simpl length. lia. Qed.
Lemma of_nat_pred l : (Z.of_nat (S l) - 1)%Z = Z.of_nat l.
Proof. lia. Qed.

Theorem tie_has_link_rec succ shuffle (shuffle_same : forall l a, In a (shuffle l) <-> In a l) :
  forall lvl depth t front, (lvl < depth)%nat ->
  run_rec succ shuffle depth t front (Z.of_nat lvl) = Ok (RB (has_link_lvl succ lvl t front)).
Proof.
  unfold run_rec.
  induction lvl as [|l IH]; intros depth t front Hd; (destruct depth as [|d]; [lia|]);
    cbn [rrec]; unfold rbody, RFUEL;
    let b := eval lazy in has_link_rec_gen in change has_link_rec_gen with b;
    let b := eval lazy in (combine has_link_rec_params [RName t; RRoles front; RZ (Z.of_nat 0)] ++ map (fun x : N => (x, RNone)) has_link_rec_locals) in
      idtac.
  - (* level 0 *)
    change (negb (Nat.eqb (length has_link_rec_params) (length [RName t; RRoles front; RZ (Z.of_nat 0)]))) with false. cbv beta iota.
    lazymatch goal with |- context [rblock _ _ _ _ _ ?L _] => let L' := eval lazy -[Z.of_nat] in L in change L with L' end.
    rstep. rstep. change (Z.of_nat 0 <=? 0)%Z with true. cbv beta iota. repeat rstep. reflexivity.
  - change (negb (Nat.eqb (length has_link_rec_params) (length [RName t; RRoles front; RZ (Z.of_nat (S l))]))) with false. cbv beta iota.
    lazymatch goal with |- context [rblock _ _ _ _ _ ?L _] => let L' := eval lazy -[Z.of_nat] in L in change L with L' end.
    rstep. rstep. rewrite leb_succ_0. cbv beta iota.
    destruct front as [|x xs].
    + change (Z.of_nat (length (@nil name)) =? 0)%Z with true. cbv beta iota. repeat rstep. reflexivity.
    + rewrite len_cons_0. cbv beta iota. rstep. rstep. rstep.
      match goal with |- context [rexec ?a ?b ?c ?s (S ?n) ?loc (RFor ?v ?it ?body)] =>
        rewrite (rexec_for a b c s n loc v it body (x :: xs) eq_refl) end.
      destruct (loop_roles succ shuffle (rrec succ shuffle 30 has_link_rec_params has_link_rec_locals
                   [RIf (ROr (RLe (RVar 3) (RInt 0)) (REq (RLen (RVar 2)) (RInt 0))) [RReturn (RBool false)] []; RAssign 4 RSetNew;
                    RFor 5 (RVar 2) [RIf (REq (RVar 1) (RAttrName (RVar 5))) [RReturn (RBool true)] []; RUpdate 4 (RSetOf (RAttrRoles (RVar 5)))];
                    RReturn (RSelf [RVar 1; RListOf (RVar 4); RSub (RVar 3) (RInt 1)])] d)
                 16 t (x :: xs) (Z.of_nat (S l)) (x :: xs) [] RNone) as (role1 & HL).
      change (10 + 16)%nat with 26%nat in HL. unfold LBODY, mkR in HL.
      match type of HL with ?lhs = _ =>
        match goal with |- context [for_names ?F ?xs0 ?s0] => change (for_names F xs0 s0) with lhs end end.
      rewrite HL. clear HL.
      cbn [has_link_lvl].
      destruct (existsb (N.eqb t) (x :: xs)); cbv beta iota; [reflexivity|].
      rstep. rewrite of_nat_pred.
      match goal with |- context [rrec ?a ?b ?n ?p ?lo ?bd d ?args] =>
        change (rrec a b n p lo bd d args) with
          (run_rec succ shuffle d t (shuffle (fold_left (fun a r => set_union a (succ r)) (x :: xs) [])) (Z.of_nat l)) end.
      unfold run_rec. rewrite (IH d t _ ltac:(lia)). cbv beta iota.
      f_equal. f_equal. apply has_link_lvl_ext. intro a.
      rewrite shuffle_same, fold_union_In, RoleGraphProofs.dedup_In. simpl In at 1. tauto.
Qed.

(* RoleManager.has_link(name1, name2) on a manager whose direct-role sets are `succ` and whose bound is max *)
Theorem tie_has_link succ shuffle (shuffle_same : forall l a, In a (shuffle l) <-> In a l) :
  forall (mx : nat) depth a b, (mx < depth)%nat ->
  run_has_link succ shuffle (Z.of_nat mx) depth a b = Ok (RB (has_link_lvl succ mx b [a])).
Proof.
  intros mx depth a b Hd. unfold run_has_link, rbody, RFUEL.
  let g := eval lazy in has_link_gen in change has_link_gen with g.
  change (negb (Nat.eqb (length has_link_params) (length [RName a; RName b]))) with false. cbv beta iota.
  lazymatch goal with |- context [rblock _ _ _ _ _ ?L _] => let L' := eval lazy in L in change L with L' end.
  rstep. rstep. rstep.
  match goal with |- context [rrec ?s ?sh ?n ?p ?lo ?bd depth ?args] =>
    change (rrec s sh n p lo bd depth args) with (run_rec succ shuffle depth b [a] (Z.of_nat mx)) end.
  rewrite (tie_has_link_rec succ shuffle shuffle_same mx depth b [a] Hd). reflexivity.
Qed.

(* on a RoleGraph state: the regenerated has_link is rm_has_link *)
Corollary tie_rm_has_link shuffle (shuffle_same : forall l a, In a (shuffle l) <-> In a l) s a b :
  run_has_link (rm_succ s) shuffle (Z.of_nat (rm_max s)) (S (rm_max s)) a b = Ok (RB (rm_has_link s a b)).
Proof. unfold rm_has_link. apply tie_has_link; [exact shuffle_same | lia]. Qed.
