(* RsrcLang.v — a small language for Enforcer.get_implicit_users_for_resource and get_implicit_users_for_resource_by_domain
   (casbin/enforcer.py; C15).  translators/implresource.py renders the two methods into this syntax on every run
   (coq/gen/ImplResourceGen.v): every statement must be, as a syntax tree, one of the recognised steps, and the methods they call
   must be the recognised functions; RsrcTie.v proves that the interpreter run on the regenerated programs computes
   Mgmt.users_for_resource (with the roles list each method starts from).

   Each step's meaning, in Mgmt.v's vocabulary (trusted reading):
   - permissions = dict();  permissions[tuple(x)] = True;  the final list of its keys          the keys in insertion order, a key
     already present stays where it is (Mgmt.add_key);
   - subject_index / object_index / dom_index = self.get_field_index("p", "sub" / "obj" / "dom")   Mgmt.i_sub / i_obj / i_dom of
     the model's kind (for "dom": on a kind WITH a domain column - the by-domain theorem assumes it);
   - rm = self.get_role_manager()                          g's role manager (threaded: a domain manager may create nodes);
   - roles = self.get_all_roles()                          the distinct values of g's column 1 (Policy.values_for_field);
   - roles = self.get_all_roles_by_domain(domain)          checked to be the recognised method: the second-to-last field of every
     g rule whose last field is the domain - as a set; only membership is used (Mgmt.roles_by_domain);
   - for rule in self.get_policy(): B                      B for every p rule in store order;
   - if rule[object_index] == resource: B                  a rule too short for the column raises (Err EIndex);
   - if domain != rule[dom_index]: continue;  sub = rule[subject_index];  if sub not in roles: A else: B;
   - users = rm.get_users(sub [, domain])                  Mgmt.rmk_get_users (with the empty domain when none is given);
   - for user in users: B;  implicit_rule = rule.copy();  implicit_rule[subject_index] = user      Base.set_nth. *)
From Coq Require Import List NArith Bool.
From PyCasbin Require Import Base Policy RoleGraph Mgmt.
Import ListNotations.
Local Open Scope N_scope.

Inductive rstmt : Type :=
| RInitPerms | RSubIdx | RObjIdx | RDomIdx | RGetRm | RAllRoles | RRolesByDomain
| RForRule (body : list rstmt)
| RIfObj (body : list rstmt)
| RSkipOtherDomain
| RSub
| RIfNotRole (a b : list rstmt)
| RKeepRule | RGetUsers | RGetUsersDom
| RForUser (body : list rstmt)
| RCopy | RSetSub | RKeepImplicit | RListPerms | RReturn.

Record rstate := { r_rm : rmk; r_roles : list name; r_perms : list rule; r_si : nat; r_oi : nat; r_di : nat;
                   r_rule : rule; r_sub : name; r_users : list name; r_user : name; r_impl : rule }.

Inductive rout := ROk (st : rstate) | RCont (st : rstate) | RErr (e : N).

(* a for loop: `continue` ends the round, an error ends the call *)
Fixpoint rfor {A} (f : rstate -> A -> rout) (l : list A) (st : rstate) : rout :=
  match l with
  | [] => ROk st
  | x :: l' => match f st x with ROk st' | RCont st' => rfor f l' st' | RErr e => RErr e end
  end.

Section Interp.
  Variable k : mkind.
  Variable s : mstate.
  Variable res : name.
  Variable dom : option name.

  Definition mkR rm roles perms si oi di rule sub users user impl : rstate :=
    {| r_rm := rm; r_roles := roles; r_perms := perms; r_si := si; r_oi := oi; r_di := di; r_rule := rule; r_sub := sub;
       r_users := users; r_user := user; r_impl := impl |}.

  Fixpoint rexec (n : nat) (st : rstate) (c : rstmt) {struct n} : rout :=
    match n with
    | O => RErr ESyntax
    | S n' =>
      match c with
      | RInitPerms => ROk (mkR (r_rm st) (r_roles st) [] (r_si st) (r_oi st) (r_di st) (r_rule st) (r_sub st) (r_users st) (r_user st) (r_impl st))
      | RSubIdx => ROk (mkR (r_rm st) (r_roles st) (r_perms st) (i_sub k) (r_oi st) (r_di st) (r_rule st) (r_sub st) (r_users st) (r_user st) (r_impl st))
      | RObjIdx => ROk (mkR (r_rm st) (r_roles st) (r_perms st) (r_si st) (i_obj k) (r_di st) (r_rule st) (r_sub st) (r_users st) (r_user st) (r_impl st))
      | RDomIdx => ROk (mkR (r_rm st) (r_roles st) (r_perms st) (r_si st) (r_oi st) (i_dom k) (r_rule st) (r_sub st) (r_users st) (r_user st) (r_impl st))
      | RGetRm => ROk (mkR (m_rm s) (r_roles st) (r_perms st) (r_si st) (r_oi st) (r_di st) (r_rule st) (r_sub st) (r_users st) (r_user st) (r_impl st))
      | RAllRoles => match values_for_field (m_g s) 1 [] with
                     | Ok v => ROk (mkR (r_rm st) v (r_perms st) (r_si st) (r_oi st) (r_di st) (r_rule st) (r_sub st) (r_users st) (r_user st) (r_impl st))
                     | Err e => RErr e
                     end
      | RRolesByDomain => match dom with
                          | Some d => ROk (mkR (r_rm st) (roles_by_domain (m_g s) d) (r_perms st) (r_si st) (r_oi st) (r_di st) (r_rule st)
                                               (r_sub st) (r_users st) (r_user st) (r_impl st))
                          | None => RErr ESyntax
                          end
      | RForRule body =>
          rfor (fun st0 r => rblock n' (mkR (r_rm st0) (r_roles st0) (r_perms st0) (r_si st0) (r_oi st0) (r_di st0) r (r_sub st0)
                                            (r_users st0) (r_user st0) (r_impl st0)) body) (m_p s) st
      | RIfObj body => match field (r_rule st) (r_oi st) with
                       | None => RErr EIndex
                       | Some o => if o =? res then rblock n' st body else ROk st
                       end
      | RSkipOtherDomain => match dom, field (r_rule st) (r_di st) with
                            | Some d, Some rd => if negb (rd =? d) then RCont st else ROk st
                            | Some _, None => RErr EIndex
                            | None, _ => RErr ESyntax
                            end
      | RSub => match field (r_rule st) (r_si st) with
                | Some v => ROk (mkR (r_rm st) (r_roles st) (r_perms st) (r_si st) (r_oi st) (r_di st) (r_rule st) v (r_users st) (r_user st) (r_impl st))
                | None => RErr EIndex
                end
      | RIfNotRole a b => if negb (mem N.eqb (r_sub st) (r_roles st)) then rblock n' st a else rblock n' st b
      | RKeepRule => ROk (mkR (r_rm st) (r_roles st) (add_key (r_perms st) (r_rule st)) (r_si st) (r_oi st) (r_di st) (r_rule st) (r_sub st)
                              (r_users st) (r_user st) (r_impl st))
      | RGetUsers => let '(us, rm') := rmk_get_users (r_rm st) (r_sub st) empty_dom in
                     ROk (mkR rm' (r_roles st) (r_perms st) (r_si st) (r_oi st) (r_di st) (r_rule st) (r_sub st) us (r_user st) (r_impl st))
      | RGetUsersDom => match dom with
                        | Some d => let '(us, rm') := rmk_get_users (r_rm st) (r_sub st) d in
                                    ROk (mkR rm' (r_roles st) (r_perms st) (r_si st) (r_oi st) (r_di st) (r_rule st) (r_sub st) us (r_user st) (r_impl st))
                        | None => RErr ESyntax
                        end
      | RForUser body =>
          rfor (fun st0 u => rblock n' (mkR (r_rm st0) (r_roles st0) (r_perms st0) (r_si st0) (r_oi st0) (r_di st0) (r_rule st0) (r_sub st0)
                                            (r_users st0) u (r_impl st0)) body) (r_users st) st
      | RCopy => ROk (mkR (r_rm st) (r_roles st) (r_perms st) (r_si st) (r_oi st) (r_di st) (r_rule st) (r_sub st) (r_users st) (r_user st) (r_rule st))
      | RSetSub => ROk (mkR (r_rm st) (r_roles st) (r_perms st) (r_si st) (r_oi st) (r_di st) (r_rule st) (r_sub st) (r_users st) (r_user st)
                            (set_nth (r_si st) (r_user st) (r_impl st)))
      | RKeepImplicit => ROk (mkR (r_rm st) (r_roles st) (add_key (r_perms st) (r_impl st)) (r_si st) (r_oi st) (r_di st) (r_rule st) (r_sub st)
                                  (r_users st) (r_user st) (r_impl st))
      | RListPerms => ROk st
      | RReturn => ROk st
      end
    end
  with rblock (n : nat) (st : rstate) (b : list rstmt) {struct n} : rout :=
    match n with
    | O => RErr ESyntax
    | S n' =>
      match b with
      | [] => ROk st
      | c :: r => match rexec n' st c with ROk st' => rblock n' st' r | RCont st' => RCont st' | RErr e => RErr e end
      end
    end.

  Definition rrun (n : nat) (body : list rstmt) : result (list rule * rmk) :=
    match rblock n (mkR (m_rm s) [] [] 0 0 0 [] 0 [] 0 []) body with
    | ROk st => Ok (r_perms st, r_rm st)
    | RCont _ => Err ESyntax
    | RErr e => Err e
    end.
End Interp.
