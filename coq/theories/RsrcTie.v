(* RsrcTie.v — C15: Enforcer.get_implicit_users_for_resource and get_implicit_users_for_resource_by_domain regenerated from
   casbin/enforcer.py on this run (coq/gen/ImplResourceGen.v), executed by the interpreter of RsrcLang.v, compute
   Mgmt.users_for_resource on the roles list each method starts from (result, threaded role manager, errors). *)
From Coq Require Import List NArith Bool Lia Arith.
From PyCasbin Require Import Base Policy RoleGraph Mgmt RsrcLang.
From PyCasbinGen Require Import ImplResourceGen.
Import ListNotations.
Local Open Scope N_scope.

(* one rule of the model's walk *)
Definition ufr_step (k : mkind) (roles : list name) (res : name) (dom : option name) (rm : rmk) (acc : list rule) (r : rule)
  : result (list rule * rmk) :=
  match field r (i_obj k) with
  | None => Err EIndex
  | Some o =>
      if negb (o =? res) then Ok (acc, rm)
      else
        match field r (i_sub k) with
        | None => Err EIndex
        | Some sub =>
            let skip := match dom with
                        | Some d => match field r (i_dom k) with Some rd => negb (rd =? d) | None => false end
                        | None => false
                        end in
            if skip then Ok (acc, rm)
            else if negb (mem N.eqb sub roles) then Ok (add_key acc r, rm)
            else
              let '(us, rm') := rmk_get_users rm sub (match dom with Some d => d | None => empty_dom end) in
              Ok (fold_left (fun a u => add_key a (set_nth (i_sub k) u r)) us acc, rm')
        end
  end.

Lemma ufr_unfold k roles res dom rm acc r rest :
  users_for_resource k rm roles res dom (r :: rest) acc =
  match ufr_step k roles res dom rm acc r with
  | Ok (acc', rm') => users_for_resource k rm' roles res dom rest acc'
  | Err e => Err e
  end.
Proof.
  cbn [users_for_resource]. unfold ufr_step.
  destruct (field r (i_obj k)) as [o|]; [|reflexivity].
  destruct (negb (o =? res)); [reflexivity|].
  destruct (field r (i_sub k)) as [sub|]; [|reflexivity].
  match goal with |- context [if ?b then _ else _] => destruct b end; [reflexivity|].
  destruct (negb (mem N.eqb sub roles)); [reflexivity|].
  destruct (rmk_get_users rm sub _) as [us rm']. reflexivity.
Qed.

Definition rinv (k : mkind) (roles : list name) (di : nat) (st : rstate) : Prop :=
  r_roles st = roles /\ r_si st = i_sub k /\ r_oi st = i_obj k /\ r_di st = di.

(* the loop over the p rules *)
Lemma rule_loop k roles res dom di (f : rstate -> rule -> rout) :
  (forall st r, rinv k roles di st ->
     match ufr_step k roles res dom (r_rm st) (r_perms st) r with
     | Ok (acc', rm') => exists st', (f st r = ROk st' \/ f st r = RCont st') /\ r_rm st' = rm' /\ r_perms st' = acc' /\ rinv k roles di st'
     | Err e => f st r = RErr e
     end) ->
  forall l st, rinv k roles di st ->
    match users_for_resource k (r_rm st) roles res dom l (r_perms st) with
    | Ok (acc', rm') => exists st', rfor f l st = ROk st' /\ r_rm st' = rm' /\ r_perms st' = acc'
    | Err e => rfor f l st = RErr e
    end.
Proof.
  intro Hf. induction l as [|r rest IH]; intros st HI.
  - cbn [users_for_resource rfor]. exists st. repeat split.
  - rewrite ufr_unfold. cbn [rfor]. specialize (Hf st r HI).
    destruct (ufr_step k roles res dom (r_rm st) (r_perms st) r) as [[acc' rm']|e].
    + destruct Hf as (st1 & [E1|E1] & Hrm & Hp & HI1); rewrite E1; specialize (IH st1 HI1); rewrite Hrm, Hp in IH; exact IH.
    + rewrite Hf. reflexivity.
Qed.

(* the loop over the users of a role *)
Lemma user_loop (f : rstate -> name -> rout) :
  (forall st u, exists st', f st u = ROk st' /\ r_perms st' = add_key (r_perms st) (set_nth (r_si st) u (r_rule st)) /\
                            r_rm st' = r_rm st /\ r_roles st' = r_roles st /\ r_si st' = r_si st /\ r_oi st' = r_oi st /\
                            r_di st' = r_di st /\ r_rule st' = r_rule st) ->
  forall us st, exists st', rfor f us st = ROk st' /\
     r_perms st' = fold_left (fun a u => add_key a (set_nth (r_si st) u (r_rule st))) us (r_perms st) /\
     r_rm st' = r_rm st /\ r_roles st' = r_roles st /\ r_si st' = r_si st /\ r_oi st' = r_oi st /\ r_di st' = r_di st.
Proof.
  intro Hf. induction us as [|u us IH]; intro st.
  - exists st. repeat split.
  - cbn [rfor fold_left]. destruct (Hf st u) as (st1 & E1 & Hp & Hrm & Hro & Hsi & Hoi & Hdi & Hru). rewrite E1.
    destruct (IH st1) as (st2 & E2 & Hp2 & Hrm2 & Hro2 & Hsi2 & Hoi2 & Hdi2). exists st2. split; [exact E2|].
    rewrite Hp2, Hp, Hsi, Hru. repeat split; congruence.
Qed.

Lemma nth_error_below {A} (l : list A) i j x : nth_error l j = Some x -> (i < j)%nat -> exists y, nth_error l i = Some y.
Proof.
  intros H Hlt. assert (Hj : (j < length l)%nat) by (apply nth_error_Some; congruence).
  destruct (nth_error l i) as [y|] eqn:E; [exists y; reflexivity|]. apply nth_error_None in E. lia.
Qed.

Ltac rcbn := cbn [rblock rexec mkR r_rm r_roles r_perms r_si r_oi r_di r_rule r_sub r_users r_user r_impl].
Ltac rcbn_in H := cbn [rblock rexec mkR r_rm r_roles r_perms r_si r_oi r_di r_rule r_sub r_users r_user r_impl] in H.

(* the body of the user loop, as regenerated *)
Lemma user_body_ok k s res dom n st u :
  exists st', rblock k s res dom (4 + n) (mkR (r_rm st) (r_roles st) (r_perms st) (r_si st) (r_oi st) (r_di st) (r_rule st) (r_sub st) (r_users st) u (r_impl st))
                     [RCopy; RSetSub; RKeepImplicit] = ROk st' /\
              r_perms st' = add_key (r_perms st) (set_nth (r_si st) u (r_rule st)) /\
              r_rm st' = r_rm st /\ r_roles st' = r_roles st /\ r_si st' = r_si st /\ r_oi st' = r_oi st /\
              r_di st' = r_di st /\ r_rule st' = r_rule st.
Proof. eexists. cbn [Nat.add]. rcbn. repeat split. Qed.

Theorem tie_users_for_resource k s res :
  rrun k s res None 40 users_for_resource_gen =
  match values_for_field (m_g s) 1 [] with
  | Err c => Err c
  | Ok roles => users_for_resource k (m_rm s) roles res None (m_p s) []
  end.
Proof.
  unfold rrun, users_for_resource_gen. rcbn.
  destruct (values_for_field (m_g s) 1 []) as [roles|e]; [|reflexivity]. rcbn.
  match goal with |- context [rfor ?f (m_p s) ?st0] => pose proof (rule_loop k roles res None 0%nat f) as HL; set (st := st0) end.
  lapply HL.
  - clear HL. intro HL. specialize (HL (m_p s) st ltac:(repeat split)).
    change (r_rm st) with (m_rm s) in HL. change (r_perms st) with (@nil rule) in HL.
    destruct (users_for_resource k (m_rm s) roles res None (m_p s) []) as [[acc rm]|e].
    + destruct HL as (st' & E & Hrm & Hp). rewrite E. rcbn. rewrite Hrm, Hp. reflexivity.
    + rewrite HL. reflexivity.
  - clear HL st. intros st r (Hro & Hsi & Hoi & Hdi). unfold ufr_step. rcbn. rewrite Hoi.
    destruct (field r (i_obj k)) as [o|]; [|reflexivity].
    destruct (o =? res); cbn [negb]; [|eexists; split; [left; reflexivity|]; repeat split; assumption].
    rcbn. rewrite Hsi. destruct (field r (i_sub k)) as [sub|]; [|reflexivity]. rcbn. rewrite Hro.
    destruct (negb (mem N.eqb sub roles)).
    + rcbn. eexists; split; [left; reflexivity|]. rcbn. repeat split; assumption.
    + rcbn. destruct (rmk_get_users (r_rm st) sub empty_dom) as [us rm'] eqn:Eu. rcbn.
      match goal with |- context [rfor ?f us ?st0] => destruct (user_loop f ltac:(intros stx u; eexists; rcbn; repeat split) us st0) as (st2 & E2 & Hp2 & Hrm2 & Hro2 & Hsi2 & Hoi2 & Hdi2) end.
      rewrite E2. exists st2. split; [left; reflexivity|]. rcbn_in Hp2; rcbn_in Hrm2; rcbn_in Hro2; rcbn_in Hsi2; rcbn_in Hoi2; rcbn_in Hdi2.
      rewrite ?Hsi in Hp2. repeat split; congruence.
Qed.

Theorem tie_users_for_resource_by_domain k s res d : k_dom k = true ->
  rrun k s res (Some d) 40 users_for_resource_by_domain_gen =
  users_for_resource k (m_rm s) (roles_by_domain (m_g s) d) res (Some d) (m_p s) [].
Proof.
  intro Hk. unfold rrun, users_for_resource_by_domain_gen. rcbn.
  set (roles := roles_by_domain (m_g s) d).
  match goal with |- context [rfor ?f (m_p s) ?st0] => pose proof (rule_loop k roles res (Some d) (i_dom k) f) as HL; set (st := st0) end.
  lapply HL.
  - clear HL. intro HL. specialize (HL (m_p s) st ltac:(repeat split)).
    change (r_rm st) with (m_rm s) in HL. change (r_perms st) with (@nil rule) in HL.
    destruct (users_for_resource k (m_rm s) roles res (Some d) (m_p s) []) as [[acc rm]|e].
    + destruct HL as (st' & E & Hrm & Hp). rewrite E. rcbn. rewrite Hrm, Hp. reflexivity.
    + rewrite HL. reflexivity.
  - clear HL st. intros st r (Hro & Hsi & Hoi & Hdi). unfold ufr_step. rcbn. rewrite Hoi.
    destruct (field r (i_obj k)) as [o|] eqn:Eo; [|reflexivity].
    destruct (o =? res); cbn [negb]; [|eexists; split; [left; reflexivity|]; repeat split; assumption].
    assert (Hlt : (i_dom k < i_obj k)%nat) by (unfold i_obj, i_dom; rewrite Hk; lia).
    destruct (nth_error_below r (i_dom k) (i_obj k) o Eo Hlt) as (rd & Erd).
    destruct (nth_error_below r (i_sub k) (i_obj k) o Eo ltac:(unfold i_dom in Hlt; lia)) as (sub & Esub).
    unfold field in *. rcbn. rewrite Hdi, Erd, Esub.
    destruct (negb (rd =? d)).
    + eexists; split; [right; reflexivity|]. repeat split; assumption.
    + rcbn. rewrite Hsi, Esub. rcbn. rewrite Hro.
      destruct (negb (mem N.eqb sub roles)).
      * rcbn. eexists; split; [left; reflexivity|]. rcbn. repeat split; assumption.
      * rcbn. destruct (rmk_get_users (r_rm st) sub d) as [us rm'] eqn:Eu. rcbn.
        match goal with |- context [rfor ?f us ?st0] => destruct (user_loop f ltac:(intros stx u; eexists; rcbn; repeat split) us st0) as (st2 & E2 & Hp2 & Hrm2 & Hro2 & Hsi2 & Hoi2 & Hdi2) end.
        rewrite E2. exists st2. split; [left; reflexivity|]. rcbn_in Hp2; rcbn_in Hrm2; rcbn_in Hro2; rcbn_in Hsi2; rcbn_in Hoi2; rcbn_in Hdi2.
        rewrite ?Hsi in Hp2. repeat split; congruence.
Qed.

Print Assumptions tie_users_for_resource.
Print Assumptions tie_users_for_resource_by_domain.
