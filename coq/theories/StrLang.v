(* StrLang.v — a small language for the two built-in matching functions of casbin/util/builtin_operators.py that are plain
   string code (no regular expression): key_match and key_get; and its interpreter.  translators/keymatch.py renders the
   Python source into this syntax on every run (coq/gen/KeyMatchGen.v); StrTie.v proves that the interpreter run on the
   regenerated programs computes KeyMatch.key_match / key_get - the functions the C13 keyMatch theorems are about.

   Meaning fixed by the interpreter (trusted): s.find(c) for a one-character c is the index of the first occurrence or -1;
   s[:i] / s[i:] for a NON-NEGATIVE i are firstn / skipn (a negative index, which would count from the end, is refused:
   error 90); len; == on strings and integers; integers are Z; falling off the end of an `if` continues below it. *)
From Coq Require Import List NArith ZArith Bool.
From PyCasbin Require Import Base KeyMatch.
Import ListNotations.
Local Open Scope N_scope.

Inductive sv := SVS (s : str) | SVZ (z : Z) | SVB (b : bool) | SVNone.

Inductive sex : Type :=
| SVar (x : N) | SStr (s : str) | SInt (z : Z)
| SFind (a : sex) (c : N)          (* a.find("c") *)
| SLen (a : sex)
| SEq (a b : sex) | SGt (a b : sex)
| SSliceTo (a i : sex) | SSliceFrom (a i : sex).

Inductive sst : Type :=
| SAssign (x : N) (e : sex)
| SIf (c : sex) (a b : list sst)
| SReturn (e : sex).

Definition skeyb (a b : N) : bool :=
  match a, b with N0, N0 => true | Npos p, Npos q => Pos.eqb p q | _, _ => false end.
Fixpoint slookup (x : N) (l : list (N * sv)) : option sv :=
  match l with [] => None | (y, v) :: r => if skeyb x y then Some v else slookup x r end.
Fixpoint supd (x : N) (v : sv) (l : list (N * sv)) : list (N * sv) :=
  match l with
  | [] => [(x, v)]
  | (y, w) :: r => if skeyb x y then (y, v) :: r else (y, w) :: supd x v r
  end.

Fixpoint seval (n : nat) (l : list (N * sv)) (e : sex) {struct n} : result sv :=
  match n with
  | O => Err EFuel
  | S n' =>
    let ev := seval n' l in
    match e with
    | SVar x => match slookup x l with Some v => Ok v | None => Err EName end
    | SStr t => Ok (SVS t)
    | SInt z => Ok (SVZ z)
    | SFind a c => rbind (ev a) (fun va => match va with
                                           | SVS t => Ok (SVZ (match find_char c t with Some i => Z.of_nat i | None => (-1)%Z end))
                                           | _ => Err EAttr end)
    | SLen a => rbind (ev a) (fun va => match va with SVS t => Ok (SVZ (Z.of_nat (length t))) | _ => Err EType end)
    | SEq a b => rbind (ev a) (fun va => rbind (ev b) (fun vb =>
                   match va, vb with
                   | SVS x, SVS y => Ok (SVB (str_eqb x y))
                   | SVZ x, SVZ y => Ok (SVB (x =? y)%Z)
                   | _, _ => Err 90
                   end))
    | SGt a b => rbind (ev a) (fun va => rbind (ev b) (fun vb =>
                   match va, vb with SVZ x, SVZ y => Ok (SVB (y <? x)%Z) | _, _ => Err EType end))
    | SSliceTo a i => rbind (ev a) (fun va => rbind (ev i) (fun vi =>
                   match va, vi with
                   | SVS t, SVZ z => if (z <? 0)%Z then Err 90 else Ok (SVS (firstn (Z.to_nat z) t))
                   | _, _ => Err EType
                   end))
    | SSliceFrom a i => rbind (ev a) (fun va => rbind (ev i) (fun vi =>
                   match va, vi with
                   | SVS t, SVZ z => if (z <? 0)%Z then Err 90 else Ok (SVS (skipn (Z.to_nat z) t))
                   | _, _ => Err EType
                   end))
    end
  end.

Inductive sout := SNext (l : list (N * sv)) | SRet (v : sv) | SErr (c : N).

Fixpoint sexec (n : nat) (l : list (N * sv)) (c : sst) {struct n} : sout :=
  match n with
  | O => SErr EFuel
  | S n' =>
    match c with
    | SAssign x e => match seval n' l e with Ok v => SNext (supd x v l) | Err c => SErr c end
    | SIf c a b =>
        match seval n' l c with
        | Ok (SVB true) => sblock n' l a
        | Ok (SVB false) => sblock n' l b
        | Ok _ => SErr 90
        | Err c => SErr c
        end
    | SReturn e => match seval n' l e with Ok v => SRet v | Err c => SErr c end
    end
  end
with sblock (n : nat) (l : list (N * sv)) (b : list sst) {struct n} : sout :=
  match n with
  | O => SErr EFuel
  | S n' =>
    match b with
    | [] => SNext l
    | c :: r => match sexec n' l c with SNext l' => sblock n' l' r | o => o end
    end
  end.

Definition srun (n : nat) (params locals : list N) (body : list sst) (args : list sv) : result sv :=
  match sblock n (combine params args ++ map (fun x => (x, SVNone)) locals) body with
  | SRet v => Ok v
  | SNext _ => Ok SVNone
  | SErr c => Err c
  end.
