(* StrTie.v — C13: key_match and key_get regenerated from casbin/util/builtin_operators.py on this run
   (coq/gen/KeyMatchGen.v), executed by the interpreter of StrLang.v, compute KeyMatch.key_match / key_get for every key and
   every pattern. *)
From Coq Require Import List NArith ZArith Bool Lia Arith.
From PyCasbin Require Import Base PatBase KeyMatch StrLang.
From PyCasbinGen Require Import KeyMatchGen.
Import ListNotations.
Local Open Scope N_scope.

Definition SFUEL : nat := 20.
Definition run_key_match (k p : str) : result sv := srun SFUEL key_match_params key_match_locals key_match_gen [SVS k; SVS p].
Definition run_key_get (k p : str) : result sv := srun SFUEL key_get_params key_get_locals key_get_gen [SVS k; SVS p].

Ltac slz t := let v := eval lazy -[N.eqb str_eqb list_eqb find_char firstn skipn length Z.of_nat Z.eqb Z.ltb Z.to_nat str] in t in v.

Lemma of_nat_not_m1 i : (Z.of_nat i =? -1)%Z = false.
Proof. apply Z.eqb_neq. lia. Qed.
Lemma of_nat_not_neg i : (Z.of_nat i <? 0)%Z = false.
Proof. apply Z.ltb_ge. lia. Qed.
Lemma of_nat_ltb i j : (Z.of_nat i <? Z.of_nat j)%Z = Nat.ltb i j.
Proof.
  destruct (Nat.ltb i j) eqn:E.
  - apply Nat.ltb_lt in E. apply Z.ltb_lt. lia.
  - apply Nat.ltb_ge in E. apply Z.ltb_ge. lia.
Qed.

Theorem tie_key_match k p : run_key_match k p = Ok (SVB (key_match k p)).
Proof.
  unfold run_key_match, key_match, cSTAR.
  match goal with |- ?l = _ => let v := slz l in change l with v end.
  destruct (find_char 42 p) as [i|].
  - rewrite of_nat_not_m1. cbv beta iota. rewrite of_nat_ltb.
    destruct (Nat.ltb i (length k)); cbv beta iota; rewrite ?of_nat_not_neg; cbv beta iota; rewrite ?Nat2Z.id; reflexivity.
  - reflexivity.
Qed.

Theorem tie_key_get k p : run_key_get k p = Ok (SVS (key_get k p)).
Proof.
  unfold run_key_get, key_get, cSTAR.
  match goal with |- ?l = _ => let v := slz l in change l with v end.
  destruct (find_char 42 p) as [i|].
  - rewrite of_nat_not_m1. cbv beta iota. rewrite of_nat_ltb.
    destruct (Nat.ltb i (length k)); cbv beta iota; [|reflexivity].
    rewrite ?of_nat_not_neg; cbv beta iota; rewrite ?Nat2Z.id.
    destruct (str_eqb (firstn i k) (firstn i p)); cbv beta iota; rewrite ?of_nat_not_neg; cbv beta iota; rewrite ?Nat2Z.id; reflexivity.
  - reflexivity.
Qed.
