(* Subject.v — C07, subject-priority models: executable model of
   Model.get_subject_hierarchy_map (casbin/model/model.py:164-203) and
   Model.sort_policies_by_subject_hierarchy (139-162).  Model + spec, NO proofs (SubjectProofs.v).

   A subject name in the code is the string "<domain>::<name>" (get_name_with_domain); here it is the
   pair (domain, name) — ASSUMPTION recorded in meta/C07.json: names and domains do not contain "::",
   so the concatenation is injective.  The default domain is the atom [default_dom]. *)
From Coq Require Import List NArith Bool Arith.
From PyCasbin Require Import Base.
Import ListNotations.

Definition node := (N * N)%type.                        (* (domain, name) *)
Definition node_eqb (a b : node) : bool := N.eqb (fst a) (fst b) && N.eqb (snd a) (snd b).
Definition default_dom : N := 0%N.
Definition edge := (node * node)%type.                  (* (child, parent) *)

(* 174-184: one g rule -> [child, parent]; fewer than 2 fields raises RuntimeError; a third field is the
   domain, further fields are ignored *)
Definition edge_of (r : rule) : result edge :=
  match r with
  | [c; p] => Ok ((default_dom, c), (default_dom, p))
  | c :: p :: d :: _ => Ok ((d, c), (d, p))
  | _ => Err ERuntime
  end.

Fixpoint edges_of (rs : list rule) : result (list edge) :=
  match rs with
  | [] => Ok []
  | r :: rest => match edge_of r with
                 | Err c => Err c
                 | Ok e => match edges_of rest with Err c => Err c | Ok es => Ok (e :: es) end
                 end
  end.

(* unsorted_sub: a Python set — a duplicate-free list here (only membership is ever observed) *)
Definition set_add (x : node) (s : list node) : list node := if mem node_eqb x s then s else s ++ [x].
Definition subs_of (es : list edge) : list node :=
  fold_left (fun s e => set_add (snd e) (set_add (fst e) s)) es [].

(* 187-199: the rounds.  [lvl] = len(sorted_sub_list); the result is the dict as an association list.
   The loop is not structurally recursive (it runs while edges remain), so it takes fuel; SubjectProofs
   proves that fuel [S (length subs)] is never exhausted. *)
Definition ECycle : N := ERuntime.                        (* RuntimeError("cycle dependency ...") *)
Fixpoint rounds (fuel : nat) (es : list edge) (subs : list node) (lvl : nat) (acc : list (node * nat))
  : result (list (node * nat)) :=
  match es with
  | [] => Ok (acc ++ map (fun s => (s, lvl)) subs)      (* 200-201: the rest shares the last level *)
  | _ :: _ =>
      match fuel with
      | O => Err EFuel
      | S fuel' =>
          let parents := map snd es in                                          (* 189 *)
          let sorted := filter (fun s => negb (mem node_eqb s parents)) subs in (* 191 *)
          match sorted with
          | [] => Err ECycle                                                    (* 192-193 *)
          | _ :: _ =>
              rounds fuel'
                     (filter (fun e => negb (mem node_eqb (fst e) sorted)) es)   (* 197 *)
                     (filter (fun s => negb (mem node_eqb s sorted)) subs)       (* 199 *)
                     (S lvl)
                     (acc ++ map (fun s => (s, lvl)) sorted)                     (* 195 *)
          end
      end
  end.

Definition hierarchy_map (g_rules : list rule) : result (list (node * nat)) :=
  match edges_of g_rules with
  | Err c => Err c
  | Ok es => let subs := subs_of es in rounds (S (length subs)) es subs 0 []
  end.

Fixpoint lookup (m : list (node * nat)) (x : node) : option nat :=
  match m with
  | [] => None
  | (y, l) :: rest => if node_eqb x y then Some l else lookup rest x
  end.
Definition level (m : list (node * nat)) (x : node) : nat :=      (* subject_hierarchy_map.get(name, 0) *)
  match lookup m x with Some l => l | None => 0 end.

(* 153-158: the sort key of a p rule.  sub_index is 0; [dom_index] = position of the "p_dom" token, None if
   the policy definition has none.  A rule too short for the column raises IndexError. *)
Definition subject_of (dom_index : option nat) (r : rule) : result node :=
  match nth_error r 0 with
  | None => Err EIndex
  | Some s => match dom_index with
              | None => Ok (default_dom, s)
              | Some di => match nth_error r di with Some d => Ok (d, s) | None => Err EIndex end
              end
  end.

(* Python's sorted(key=...): stable.  Generic stable insertion sort on nat keys. *)
Section SortBy.
  Context {A : Type} (key : A -> nat).
  Fixpoint insert_by (x : A) (sorted : list A) : list A :=
    match sorted with
    | [] => [x]
    | y :: rest => if key x <=? key y then x :: y :: rest else y :: insert_by x rest
    end.
  Definition sort_by (l : list A) : list A := fold_right insert_by [] l.
End SortBy.

Definition key_of (m : list (node * nat)) (dom_index : option nat) (r : rule) : nat :=
  match subject_of dom_index r with Ok n => level m n | Err _ => 0 end.

(* 139-162 for the p assertion (the effect test of line 140 is made by the caller) *)
Definition sort_by_subject (dom_index : option nat) (g_rules p_rules : list rule) : result (list rule) :=
  match hierarchy_map g_rules with
  | Err c => Err c
  | Ok m =>
      if forallb (fun r => match subject_of dom_index r with Ok _ => true | Err _ => false end) p_rules
      then Ok (sort_by (key_of m dom_index) p_rules)
      else match p_rules with [] => Ok [] | _ => Err EIndex end
  end.

(* ---------- SPEC ---------- *)
(* s inherits from t: a chain of >= 1 role assignments child -> parent *)
Inductive inherits (es : list edge) : node -> node -> Prop :=
| inh_one a b : In (a, b) es -> inherits es a b
| inh_step a b c : In (a, b) es -> inherits es b c -> inherits es a c.

(* r1 is consulted before r2 in the list l *)
Definition consulted_before (l : list rule) (r1 r2 : rule) : Prop :=
  exists l1 l2 l3, l = l1 ++ r1 :: l2 ++ r2 :: l3.

(* ---------- oracle ---------- *)
Definition vnode_level (p : node * nat) : val := VL [VN (fst (fst p)); VN (snd (fst p)); vnat (snd p)].
Definition vrule (r : rule) : val := VL (map VN r).
Definition as_rules : val -> option (list rule) := as_listof as_names.

Definition oracle_C07 (tag : N) (v : val) : val :=
  match tag, v with
  | 1%N, g => match as_rules g with
              | Some gr => vres (vlist vnode_level) (hierarchy_map gr)
              | None => vbad
              end
  | 2%N, VL [di; g; p] =>
      match as_listof as_nat di, as_rules g, as_rules p with
      | Some dil, Some gr, Some pr =>
          vres (vlist vrule) (sort_by_subject (match dil with [] => None | d :: _ => Some d end) gr pr)
      | _, _, _ => vbad
      end
  | _, _ => vbad
  end.
