(* SubjectProofs.v — C07, subject priority: the level rounds terminate within their fuel, every role
   assignment goes from a strictly lower to a strictly higher level, hence after the stable sort every rule
   of a subject is consulted before every rule of any role it inherits from, and the first decisive match
   in that order decides. *)
From Coq Require Import List NArith Bool Arith Lia Sorted Permutation.
From PyCasbin Require Import Base Effect Subject.
Import ListNotations.

(* ---------- nodes ---------- *)
Lemma node_eqb_eq a b : node_eqb a b = true <-> a = b.
Proof.
  destruct a as [a1 a2], b as [b1 b2]. unfold node_eqb. cbn [fst snd]. rewrite andb_true_iff, !N.eqb_eq.
  split; [intros [? ?]; subst; reflexivity|intro H; inversion H; auto].
Qed.

Lemma mem_node_In x l : mem node_eqb x l = true <-> In x l.
Proof.
  induction l as [|y l IH]; cbn [mem In]; [split; [discriminate|tauto]|].
  rewrite orb_true_iff, IH, node_eqb_eq. split; (intros [H|H]; [left; congruence|right; exact H]).
Qed.

Lemma mem_node_false x l : mem node_eqb x l = false <-> ~ In x l.
Proof. rewrite <- mem_node_In. destruct (mem node_eqb x l); split; congruence. Qed.

(* ---------- lookup in the level map ---------- *)
Lemma lookup_app m1 m2 x :
  lookup (m1 ++ m2) x = match lookup m1 x with Some l => Some l | None => lookup m2 x end.
Proof.
  induction m1 as [|[y l] m1 IH]; [reflexivity|]. cbn [app lookup]. destruct (node_eqb x y); [reflexivity|exact IH].
Qed.

Lemma lookup_const_in lvl x l : In x l -> lookup (map (fun s => (s, lvl)) l) x = Some lvl.
Proof.
  induction l as [|y l IH]; [intros []|]. intro H. cbn [map lookup]. destruct (node_eqb x y) eqn:E; [reflexivity|].
  destruct H as [H|H]; [subst y; rewrite (proj2 (node_eqb_eq x x) eq_refl) in E; discriminate|exact (IH H)].
Qed.

Lemma lookup_const_notin (lvl : nat) x l : ~ In x l -> lookup (map (fun s => (s, lvl)) l) x = None.
Proof.
  induction l as [|y l IH]; [reflexivity|]. intro H. cbn [map lookup]. destruct (node_eqb x y) eqn:E.
  - apply node_eqb_eq in E. subst y. exfalso. apply H. left. reflexivity.
  - apply IH. intro Hx. apply H. right. exact Hx.
Qed.

Lemma lookup_In m x l : lookup m x = Some l -> In (x, l) m.
Proof.
  induction m as [|[y k] m IH]; [discriminate|]. cbn [lookup]. destruct (node_eqb x y) eqn:E.
  - intro H. inversion H; subst. apply node_eqb_eq in E. subst. left. reflexivity.
  - intro H. right. exact (IH H).
Qed.

(* ---------- fuel ---------- *)
Lemma filter_len_le {A} (f : A -> bool) l : length (filter f l) <= length l.
Proof. induction l as [|y l IH]; [apply le_n|]. cbn [filter]. destruct (f y); cbn [length]; lia. Qed.

Lemma filter_length_lt {A} (f : A -> bool) l x : In x l -> f x = false -> length (filter f l) < length l.
Proof.
  induction l as [|y l IH]; [intros []|]. intros [H|H] Hf; cbn [filter length].
  - subst y. rewrite Hf. pose proof (filter_len_le f l). lia.
  - specialize (IH H Hf). destruct (f y); cbn [length]; lia.
Qed.

Lemma rounds_fuel : forall fuel es subs lvl acc, length subs < fuel -> rounds fuel es subs lvl acc <> Err EFuel.
Proof.
  induction fuel as [|fuel IH]; intros es subs lvl acc Hlen; [lia|].
  destruct es as [|e es]; [cbn [rounds]; discriminate|]. cbn [rounds].
  set (parents := map snd (e :: es)).
  destruct (filter (fun s => negb (mem node_eqb s parents)) subs) as [|s0 srt] eqn:Es; [discriminate|].
  apply IH.
  assert (Hin : In s0 (filter (fun s => negb (mem node_eqb s parents)) subs)) by (rewrite Es; left; reflexivity).
  apply filter_In in Hin. destruct Hin as [Hin _].
  assert (Hlt : length (filter (fun s => negb (mem node_eqb s (s0 :: srt))) subs) < length subs).
  { apply (filter_length_lt _ subs s0 Hin). apply negb_false_iff. apply mem_node_In. left. reflexivity. }
  lia.
Qed.

Lemma edges_of_err : forall rs c, edges_of rs = Err c -> c = ERuntime.
Proof.
  induction rs as [|r rs IH]; intros c H; cbn [edges_of] in H; [discriminate|].
  destruct (edge_of r) as [e0|c1] eqn:Ee.
  - destruct (edges_of rs) as [es0|c2]; [discriminate|]. inversion H; subst. apply IH. reflexivity.
  - inversion H; subst. unfold edge_of in Ee. destruct r as [|a [|b [|d r']]]; inversion Ee; reflexivity.
Qed.

(* the explicit fuel of the model is never exhausted: the loop of get_subject_hierarchy_map terminates *)
Theorem hierarchy_map_fuel_suffices g : hierarchy_map g <> Err EFuel.
Proof.
  unfold hierarchy_map. destruct (edges_of g) as [es|c] eqn:E.
  - apply rounds_fuel. lia.
  - apply edges_of_err in E. subst c. discriminate.
Qed.

(* ---------- the rounds: what the returned map says ---------- *)
Lemma rounds_spec : forall fuel es subs lvl acc m,
  rounds fuel es subs lvl acc = Ok m ->
  (forall e, In e es -> In (fst e) subs /\ In (snd e) subs) ->
  exists rest, m = acc ++ rest
    /\ (forall x l, In (x, l) rest -> In x subs /\ lvl <= l)
    /\ (forall x, In x subs -> exists l, lookup rest x = Some l)
    /\ (forall c p, In (c, p) es -> exists lc lp, lookup rest c = Some lc /\ lookup rest p = Some lp /\ lc < lp).
Proof.
  induction fuel as [|fuel IH]; intros es subs lvl acc m Hr Hends.
  - destruct es as [|e es]; cbn [rounds] in Hr; [|discriminate]. inversion Hr; subst. clear Hr.
    exists (map (fun s => (s, lvl)) subs). split; [reflexivity|]. split; [|split].
    + intros x l Hin. apply in_map_iff in Hin. destruct Hin as [s [Hs Hin]]. inversion Hs; subst. split; [exact Hin|apply le_n].
    + intros x Hx. exists lvl. apply lookup_const_in. exact Hx.
    + intros c p [].
  - destruct es as [|e0 es0]; cbn [rounds] in Hr.
    + inversion Hr; subst. clear Hr.
      exists (map (fun s => (s, lvl)) subs). split; [reflexivity|]. split; [|split].
      * intros x l Hin. apply in_map_iff in Hin. destruct Hin as [s [Hs Hin]]. inversion Hs; subst. split; [exact Hin|apply le_n].
      * intros x Hx. exists lvl. apply lookup_const_in. exact Hx.
      * intros c p [].
    + set (es := e0 :: es0) in *. set (parents := map snd es) in *.
      set (sorted := filter (fun s => negb (mem node_eqb s parents)) subs) in *.
      destruct sorted as [|s0 srt] eqn:Es; [discriminate|]. rewrite <- Es in Hr.
      assert (Hsorted : forall x, In x sorted <-> In x subs /\ ~ In x parents).
      { intro x. unfold sorted. rewrite filter_In, negb_true_iff, mem_node_false. tauto. }
      set (es' := filter (fun e => negb (mem node_eqb (fst e) sorted)) es) in *.
      set (subs' := filter (fun s => negb (mem node_eqb s sorted)) subs) in *.
      assert (Hsubs' : forall x, In x subs' <-> In x subs /\ ~ In x sorted).
      { intro x. unfold subs'. rewrite filter_In, negb_true_iff, mem_node_false. tauto. }
      assert (Hes' : forall e, In e es' <-> In e es /\ ~ In (fst e) sorted).
      { intro e. unfold es'. rewrite filter_In, negb_true_iff, mem_node_false. tauto. }
      assert (Hpar : forall c p, In (c, p) es -> In p subs' ).
      { intros c p Hin. apply Hsubs'. split; [apply (Hends (c, p) Hin)|].
        intro Hs. apply Hsorted in Hs. destruct Hs as [_ Hn]. apply Hn. unfold parents.
        apply in_map_iff. exists (c, p). split; [reflexivity|exact Hin]. }
      destruct (IH es' subs' (S lvl) (acc ++ map (fun s => (s, lvl)) sorted) m Hr) as [rest' [Em [H1 [H2 H3]]]].
      { intros [c p] Hin. apply Hes' in Hin. destruct Hin as [Hin Hn]. cbn [fst snd] in *. split.
        - apply Hsubs'. split; [apply (Hends (c, p) Hin)|exact Hn].
        - apply (Hpar c p Hin). }
      exists (map (fun s => (s, lvl)) sorted ++ rest'). split; [rewrite Em, app_assoc; reflexivity|]. split; [|split].
      * intros x l Hin. apply in_app_or in Hin. destruct Hin as [Hin|Hin].
        -- apply in_map_iff in Hin. destruct Hin as [s [Hs Hin]]. inversion Hs; subst.
           split; [apply Hsorted in Hin; tauto|apply le_n].
        -- destruct (H1 x l Hin) as [Hx Hl]. split; [apply Hsubs' in Hx; tauto|lia].
      * intros x Hx. rewrite lookup_app. destruct (mem node_eqb x sorted) eqn:Em'.
        -- apply mem_node_In in Em'. rewrite (lookup_const_in lvl x sorted Em'). eauto.
        -- apply mem_node_false in Em'. rewrite (lookup_const_notin lvl x sorted Em'). apply H2. apply Hsubs'. tauto.
      * intros c p Hin. pose proof (Hpar c p Hin) as Hp.
        assert (Hpn : ~ In p sorted) by (apply Hsubs' in Hp; tauto).
        destruct (H2 p Hp) as [lp Hlp]. destruct (H1 p lp (lookup_In _ _ _ Hlp)) as [_ Hge].
        rewrite !lookup_app, (lookup_const_notin lvl p sorted Hpn).
        destruct (mem node_eqb c sorted) eqn:Ec.
        -- apply mem_node_In in Ec. rewrite (lookup_const_in lvl c sorted Ec). exists lvl, lp. repeat split; [exact Hlp|lia].
        -- apply mem_node_false in Ec. rewrite (lookup_const_notin lvl c sorted Ec).
           apply (H3 c p). apply Hes'. split; [exact Hin|exact Ec].
Qed.

(* every endpoint of an edge is among the subjects the rounds start from *)
Lemma set_add_In x y s : In x (set_add y s) <-> x = y \/ In x s.
Proof.
  unfold set_add. destruct (mem node_eqb y s) eqn:E.
  - apply mem_node_In in E. split; [tauto|intros [H|H]; [subst; exact E|exact H]].
  - rewrite in_app_iff. cbn [In]. split; [intros [H|[H|[]]]; auto|intros [H|H]; auto].
Qed.

Lemma subs_of_fold : forall es s0 x,
  In x (fold_left (fun s e => set_add (snd e) (set_add (fst e) s)) es s0)
  <-> In x s0 \/ exists e, In e es /\ (x = fst e \/ x = snd e).
Proof.
  induction es as [|e es IH]; intros s0 x; cbn [fold_left].
  - split; [tauto|intros [H|[e [[] _]]]; exact H].
  - rewrite IH, !set_add_In. split.
    + intros [[H|[H|H]]|[e' [He' H]]].
      * right. exists e. split; [left; reflexivity|right; exact H].
      * right. exists e. split; [left; reflexivity|left; exact H].
      * left. exact H.
      * right. exists e'. split; [right; exact He'|exact H].
    + intros [H|[e' [[He'|He'] H]]].
      * left. right. right. exact H.
      * subst e'. left. destruct H as [H|H]; [right; left; exact H|left; exact H].
      * right. exists e'. split; [exact He'|exact H].
Qed.

Lemma subs_of_ends es e : In e es -> In (fst e) (subs_of es) /\ In (snd e) (subs_of es).
Proof. intro H. unfold subs_of. split; apply subs_of_fold; right; exists e; tauto. Qed.

(* C07: every role assignment child -> parent goes from a strictly smaller to a strictly larger level *)
Theorem edge_increases_level g es m : edges_of g = Ok es -> hierarchy_map g = Ok m ->
  forall c p, In (c, p) es -> level m c < level m p.
Proof.
  intros Ee Hm c p Hin. unfold hierarchy_map in Hm. rewrite Ee in Hm.
  destruct (rounds_spec _ _ _ _ _ _ Hm (subs_of_ends es)) as [rest [Em [_ [_ H3]]]].
  cbn [app] in Em. subst rest. destruct (H3 c p Hin) as [lc [lp [Hc [Hp Hlt]]]].
  unfold level. rewrite Hc, Hp. exact Hlt.
Qed.

Theorem inherits_increases_level g es m : edges_of g = Ok es -> hierarchy_map g = Ok m ->
  forall s t, inherits es s t -> level m s < level m t.
Proof.
  intros Ee Hm s t H. induction H as [a b Hab|a b c Hab Hbc IH].
  - apply (edge_increases_level g es m Ee Hm a b Hab).
  - pose proof (edge_increases_level g es m Ee Hm a b Hab). lia.
Qed.

(* a cyclic hierarchy (in particular a self-assignment) is refused, never sorted *)
Theorem cycle_is_refused g es s : edges_of g = Ok es -> inherits es s s -> exists c, hierarchy_map g = Err c.
Proof.
  intros Ee H. destruct (hierarchy_map g) as [m|c] eqn:Hm; [|eauto].
  pose proof (inherits_increases_level g es m Ee Hm s s H). lia.
Qed.

(* ---------- Python's stable sorted(key=...) ---------- *)
Section SortByProofs.
  Context {A : Type} (key : A -> nat).
  Definition ksorted (l : list A) : Prop := StronglySorted (fun a b => key a <= key b) l.

  Lemma insert_by_spec x : forall l, ksorted l ->
    ksorted (insert_by key x l) /\ Permutation (insert_by key x l) (x :: l)
    /\ forall k, filter (fun y => key y =? k) (insert_by key x l)
                 = (if key x =? k then [x] else []) ++ filter (fun y => key y =? k) l.
  Proof.
    induction l as [|y l IH]; intro Hs.
    - cbn. split; [constructor; constructor|]. split; [reflexivity|]. intro k. destruct (key x =? k); reflexivity.
    - inversion Hs as [|? ? Hs' Hf]; subst. cbn [insert_by]. destruct (key x <=? key y) eqn:E.
      + apply Nat.leb_le in E. split; [|split; [reflexivity|]].
        * constructor; [exact Hs|]. constructor; [exact E|]. rewrite Forall_forall in *. intros z Hz.
          specialize (Hf z Hz). lia.
        * intro k. cbn [filter]. destruct (key x =? k); reflexivity.
      + apply Nat.leb_gt in E. destruct (IH Hs') as [I1 [I2 I3]]. split; [|split].
        * constructor; [exact I1|]. rewrite Forall_forall in *. intros z Hz.
          apply (Permutation_in _ I2) in Hz. destruct Hz as [Hz|Hz]; [subst; lia|apply Hf; exact Hz].
        * rewrite I2. apply perm_swap.
        * intro k. cbn [filter]. rewrite I3. destruct (key y =? k) eqn:Ey; destruct (key x =? k) eqn:Ex; try reflexivity.
          apply Nat.eqb_eq in Ey, Ex. lia.
  Qed.

  (* sorted ascending, same rules, equal keys keep their arrival order *)
  Theorem sort_by_spec : forall l,
    ksorted (sort_by key l) /\ Permutation (sort_by key l) l
    /\ forall k, filter (fun y => key y =? k) (sort_by key l) = filter (fun y => key y =? k) l.
  Proof.
    induction l as [|x l IH].
    - cbn. split; [constructor|]. split; [reflexivity|]. reflexivity.
    - destruct IH as [I1 [I2 I3]]. unfold sort_by in *. cbn [fold_right].
      destruct (insert_by_spec x _ I1) as [J1 [J2 J3]].
      split; [exact J1|]. split; [rewrite J2; constructor; exact I2|].
      intro k. rewrite J3, I3. cbn [filter]. destruct (key x =? k); reflexivity.
  Qed.

  (* in a sorted list an element with a strictly smaller key stands before one with a larger key *)
  Lemma sorted_before l a b : ksorted l -> In a l -> In b l -> key a < key b ->
    exists l1 l2 l3, l = l1 ++ a :: l2 ++ b :: l3.
  Proof.
    intros Hs Ha Hb Hlt. destruct (in_split a l Ha) as [l1 [l' E]]. subst l.
    assert (Hb' : In b l').
    { apply in_app_or in Hb. destruct Hb as [Hb|[Hb|Hb]]; [|subst; lia|exact Hb].
      exfalso. unfold ksorted in Hs. clear Ha. induction l1 as [|y l1 IH]; [contradiction|].
      cbn [app] in Hs. inversion Hs as [|? ? Hs' Hf]; subst. destruct Hb as [Hb|Hb].
      - subst y. rewrite Forall_forall in Hf. assert (Hia : In a (l1 ++ a :: l')) by (apply in_or_app; right; left; reflexivity).
        specialize (Hf a Hia). lia.
      - exact (IH Hb Hs'). }
    destruct (in_split b l' Hb') as [l2 [l3 E]]. subst l'. exists l1, l2, l3. reflexivity.
  Qed.

  (* everything standing before an element of a sorted list has a key that is not larger *)
  Lemma sorted_prefix_le l1 a l2 : ksorted (l1 ++ a :: l2) -> forall x, In x l1 -> key x <= key a.
  Proof.
    induction l1 as [|y l1 IH]; intros Hs x Hx; [contradiction|]. cbn [app] in Hs.
    inversion Hs as [|? ? Hs' Hf]; subst. destruct Hx as [Hx|Hx].
    - subst y. rewrite Forall_forall in Hf. apply Hf. apply in_or_app. right. left. reflexivity.
    - apply (IH Hs' x Hx).
  Qed.
End SortByProofs.

(* ---------- C07: the more specific subject is consulted first ---------- *)
Section SubjectPriority.
  Variables (di : option nat) (g p l : list rule) (es : list edge).
  Hypothesis Hes : edges_of g = Ok es.
  Hypothesis Hsort : sort_by_subject di g p = Ok l.

  Lemma sort_by_subject_inv : exists m, hierarchy_map g = Ok m /\ l = sort_by (key_of m di) p.
  Proof.
    unfold sort_by_subject in Hsort. destruct (hierarchy_map g) as [m|c]; [|discriminate]. exists m. split; [reflexivity|].
    destruct (forallb _ p); [inversion Hsort; reflexivity|]. destruct p; inversion Hsort. reflexivity.
  Qed.

  (* same rules, none lost, none invented *)
  Theorem subject_sort_permutes : Permutation l p.
  Proof. destruct sort_by_subject_inv as [m [_ E]]. subst l. apply sort_by_spec. Qed.

  (* rules of one level (in particular of one subject) keep their arrival order *)
  Theorem subject_sort_stable : exists m, hierarchy_map g = Ok m /\
    forall k, filter (fun r => key_of m di r =? k) l = filter (fun r => key_of m di r =? k) p.
  Proof. destruct sort_by_subject_inv as [m [Hm E]]. exists m. split; [exact Hm|]. subst l. apply sort_by_spec. Qed.

  (* every rule given to a subject s stands before every rule given to a role t that s inherits from *)
  Theorem subject_before_inherited r1 r2 s t :
    In r1 p -> In r2 p -> subject_of di r1 = Ok s -> subject_of di r2 = Ok t -> inherits es s t ->
    consulted_before l r1 r2.
  Proof.
    intros H1 H2 Hs Ht Hin. destruct sort_by_subject_inv as [m [Hm E]].
    destruct (sort_by_spec (key_of m di) p) as [S1 [S2 _]]. rewrite <- E in S1, S2.
    apply (sorted_before (key_of m di) l r1 r2 S1).
    - apply (Permutation_in _ (Permutation_sym S2)). exact H1.
    - apply (Permutation_in _ (Permutation_sym S2)). exact H2.
    - unfold key_of. rewrite Hs, Ht. apply (inherits_increases_level g es m Hes Hm s t Hin).
  Qed.

  (* ... so the more specific subject wins: whatever the matcher (an arbitrary per-rule outcome function), if a
     rule r1 of subject s matches with a definite effect and every OTHER rule that matches with a definite
     effect belongs to a role s inherits from, then the first decisive match in stored order is r1 *)
  Variable out : rule -> outcome.
  Theorem specific_subject_wins r1 s e :
    In r1 p -> subject_of di r1 = Ok s -> out r1 = Match e -> e <> EOther ->
    (forall r, In r p -> decisive_out (out r) = true -> r = r1 \/ exists t, subject_of di r = Ok t /\ inherits es s t) ->
    first_decisive (map out l) = match e with EAllow => true | _ => false end.
  Proof.
    intros H1 Hs Ho He Hall. destruct sort_by_subject_inv as [m [Hm E]].
    destruct (sort_by_spec (key_of m di) p) as [S1 [S2 _]]. rewrite <- E in S1, S2.
    assert (Hl : In r1 l) by (apply (Permutation_in _ (Permutation_sym S2)); exact H1).
    destruct (in_split r1 l Hl) as [l1 [l2 El]].
    assert (Hpre : forall x, In x l1 -> decisive_out (out x) = false \/ x = r1).
    { intros x Hx. destruct (decisive_out (out x)) eqn:Ed; [|left; reflexivity]. right.
      assert (Hxp : In x p) by (apply (Permutation_in _ S2); rewrite El; apply in_or_app; left; exact Hx).
      destruct (Hall x Hxp Ed) as [Hx1|[t [Ht Hin]]]; [exact Hx1|]. exfalso.
      rewrite El in S1. pose proof (sorted_prefix_le (key_of m di) l1 r1 l2 S1 x Hx) as Hle.
      unfold key_of in Hle. rewrite Hs, Ht in Hle.
      pose proof (inherits_increases_level g es m Hes Hm s t Hin). lia. }
    rewrite El. clear - Hpre Ho He. induction l1 as [|x l1 IH]; cbn [app map first_decisive].
    - rewrite Ho. destruct e; [reflexivity|reflexivity|contradiction].
    - destruct (Hpre x (or_introl eq_refl)) as [Hd|Hx].
      + assert (IH' := IH (fun y Hy => Hpre y (or_intror Hy))).
        destruct (out x) as [|[]| |]; cbn in Hd; try discriminate; exact IH'.
      + subst x. rewrite Ho. destruct e; [reflexivity|reflexivity|contradiction].
  Qed.
End SubjectPriority.
