(* Synced.v — C17: SyncedEnforcer calls are atomic and equivalent to the plain enforcer.
   Model + spec, NO proofs (SyncedProofs.v: the generic theorems; SyncedTie.v: the facts about the table
   regenerated from casbin/synced_enforcer.py on this run).

   Part 1  hand tables over the plain Enforcer API: [api_table] classifies every public method as
           reading / mutating / stateless and says whether it returns a value;  [mutating], [returns_value].
           Tied to the code (a) statically: SyncedTie.v proves that the table covers exactly the public API
           regenerated from the four enforcer classes and that [returns_value] agrees with the `return`
           statements found there; (b) dynamically: harness/props/c17.py runs every method classified
           non-mutating on generated states and compares deep snapshots.
   Part 2  [wrapper_faults] / [wrapper_ok]: the lock discipline of ONE record of the regenerated wrapper table.
   Part 3  the abstract concurrent machine (any number of threads, any call lists): events Invoke / Enter
           (guarded by the readers-writer specification that C16 proves of rwlock.py) / Micro (one micro step of
           the call on the LIVE shared state — a writer passes through dirty intermediate states, a reader
           reads whatever is there) / Exit; the atomic sequential semantics [atomic] / [seq_run] derived from
           the same micro steps.
   Part 4  the free instance (state = the sequence of writers so far, a dirty marker while a writer is at
           work) used by the oracle as a monitor of observed executions and by the examples.
   Part 5  [oracle_C17]. *)
From Coq Require Import List Ascii Bool NArith Arith.
From PyCasbin Require Import Base SyncedBase.
From PyCasbinGen Require Import SyncedGen.
Import ListNotations.

(* ================================================================== Part 1: hand tables *)
Inductive mclass :=
| CRead     (* reads policy / role links / model / configuration, changes none of them
               (memoising caches excepted: RoleManager._get_role entries, DomainManager.rm_map, the `g`
               closures that enforce() stores in the function map — TRUSTED to commute, see meta/C17.json) *)
| CWrite    (* changes policy, role links, model or configuration *)
| CPure.    (* touches no state of the enforcer instance at all *)

(* (method, (class, returns a value)) for EVERY public method of casbin.Enforcer *)
Local Open Scope text_scope.
Definition api_table : list (text * (mclass * bool)) := [
  (* core_enforcer.py *)
  ("init_with_file", (CWrite, false)); ("init_with_adapter", (CWrite, false));
  ("init_with_model_and_adapter", (CWrite, false)); ("new_model", (CPure, true));
  ("load_model", (CWrite, false)); ("get_model", (CRead, true)); ("set_model", (CWrite, false));
  ("get_adapter", (CRead, true)); ("set_adapter", (CWrite, false)); ("set_watcher", (CWrite, false));
  ("get_role_manager", (CRead, true)); ("get_named_role_manager", (CRead, true));
  ("set_role_manager", (CWrite, false)); ("set_named_role_manager", (CWrite, false));
  ("set_effector", (CWrite, false)); ("clear_policy", (CWrite, false)); ("init_rm_map", (CWrite, false));
  ("load_policy", (CWrite, false)); ("load_filtered_policy", (CWrite, false));
  ("load_increment_filtered_policy", (CWrite, false)); ("is_filtered", (CRead, true));
  (* save_policy writes the ADAPTER's store and notifies the watcher; it changes neither policy, role links,
     model nor configuration of the enforcer *)
  ("save_policy", (CRead, false));
  ("enable_enforce", (CWrite, false)); ("enable_auto_save", (CWrite, false));
  ("enable_auto_build_role_links", (CWrite, false)); ("enable_auto_notify_watcher", (CWrite, false));
  ("build_role_links", (CWrite, false));
  ("add_named_matching_func", (CWrite, true)); ("add_named_domain_matching_func", (CWrite, true));
  ("add_named_link_condition_func", (CWrite, true)); ("add_named_domain_link_condition_func", (CWrite, true));
  ("set_named_link_condition_func_params", (CWrite, true));
  ("set_named_domain_link_condition_func_params", (CWrite, true));
  ("new_enforce_context", (CPure, true));
  ("enforce", (CRead, true)); ("enforce_ex", (CRead, true)); ("batch_enforce", (CRead, true));
  ("configure_logging", (CPure, false));
  (* internal_enforcer.py *)
  ("get_field_index", (CRead, true)); ("set_field_index", (CWrite, false));
  (* management_enforcer.py *)
  ("get_all_subjects", (CRead, true)); ("get_all_named_subjects", (CRead, true));
  ("get_all_objects", (CRead, true)); ("get_all_named_objects", (CRead, true));
  ("get_all_actions", (CRead, true)); ("get_all_named_actions", (CRead, true));
  ("get_all_roles", (CRead, true)); ("get_all_named_roles", (CRead, true));
  ("get_policy", (CRead, true)); ("get_filtered_policy", (CRead, true));
  ("get_named_policy", (CRead, true)); ("get_filtered_named_policy", (CRead, true));
  ("get_grouping_policy", (CRead, true)); ("get_filtered_grouping_policy", (CRead, true));
  ("get_named_grouping_policy", (CRead, true)); ("get_filtered_named_grouping_policy", (CRead, true));
  ("has_policy", (CRead, true)); ("has_named_policy", (CRead, true));
  ("add_policy", (CWrite, true)); ("add_policies", (CWrite, true));
  ("add_named_policy", (CWrite, true)); ("add_named_policies", (CWrite, true));
  ("update_policy", (CWrite, true)); ("update_policies", (CWrite, true));
  ("update_named_policy", (CWrite, true)); ("update_named_policies", (CWrite, true));
  ("update_filtered_policies", (CWrite, true)); ("update_filtered_named_policies", (CWrite, true));
  ("remove_policy", (CWrite, true)); ("remove_policies", (CWrite, true));
  ("remove_filtered_policy", (CWrite, true)); ("remove_named_policy", (CWrite, true));
  ("remove_named_policies", (CWrite, true)); ("remove_filtered_named_policy", (CWrite, true));
  ("has_grouping_policy", (CRead, true)); ("has_named_grouping_policy", (CRead, true));
  ("add_grouping_policy", (CWrite, true)); ("add_grouping_policies", (CWrite, true));
  ("add_named_grouping_policy", (CWrite, true)); ("add_named_grouping_policies", (CWrite, true));
  ("remove_grouping_policy", (CWrite, true)); ("remove_grouping_policies", (CWrite, true));
  ("remove_filtered_grouping_policy", (CWrite, true)); ("remove_named_grouping_policy", (CWrite, true));
  ("remove_named_grouping_policies", (CWrite, true)); ("remove_filtered_named_grouping_policy", (CWrite, true));
  ("add_function", (CWrite, false));
  (* enforcer.py *)
  ("get_roles_for_user", (CRead, true)); ("get_users_for_role", (CRead, true));
  ("has_role_for_user", (CRead, true)); ("add_role_for_user", (CWrite, true));
  ("delete_role_for_user", (CWrite, true)); ("delete_roles_for_user", (CWrite, true));
  ("delete_user", (CWrite, true)); ("delete_role", (CWrite, true)); ("delete_permission", (CWrite, true));
  ("add_permission_for_user", (CWrite, true)); ("delete_permission_for_user", (CWrite, true));
  ("delete_permissions_for_user", (CWrite, true)); ("get_permissions_for_user", (CRead, true));
  ("has_permission_for_user", (CRead, true)); ("get_implicit_roles_for_user", (CRead, true));
  ("get_implicit_permissions_for_user", (CRead, true));
  ("get_named_implicit_permissions_for_user", (CRead, true));
  ("get_implicit_users_for_permission", (CRead, true));
  ("get_roles_for_user_in_domain", (CRead, true)); ("get_users_for_role_in_domain", (CRead, true));
  ("add_role_for_user_in_domain", (CWrite, true)); ("delete_roles_for_user_in_domain", (CWrite, true));
  ("get_permissions_for_user_in_domain", (CRead, true));
  ("get_named_permissions_for_user_in_domain", (CRead, true));
  ("get_all_roles_by_domain", (CRead, true)); ("get_implicit_users_for_resource", (CRead, true));
  ("get_implicit_users_for_resource_by_domain", (CRead, true));
  ("get_allowed_object_conditions", (CRead, true))
].
Local Close Scope text_scope.

Fixpoint assoc {A} (k : text) (l : list (text * A)) : option A :=
  match l with
  | [] => None
  | (k', v) :: r => if text_eqb k k' then Some v else assoc k r
  end.

Definition classify (m : text) : option (mclass * bool) := assoc m api_table.
Definition known (m : text) : bool := match classify m with Some _ => true | None => false end.

(* an unclassified method is treated as mutating and value-returning (fail-safe) *)
Definition mutating (m : text) : bool :=
  match classify m with Some (CRead, _) | Some (CPure, _) => false | _ => true end.
Definition stateless (m : text) : bool :=
  match classify m with Some (CPure, _) => true | _ => false end.
Definition returns_value (m : text) : bool :=
  match classify m with Some (_, b) => b | None => true end.

(* attributes of the wrapped enforcer that are not state in the sense of the property *)
Definition benign_attr (a : text) : bool := text_eqb a "logger"%text.

(* ================================================================== Part 2: the lock discipline of one wrapper *)
Definition lockmode_eqb (a b : lockmode) : bool :=
  match a, b with LR, LR | LW, LW | LNone, LNone => true | _, _ => false end.

Definition argx_eqb (a b : argx) : bool :=
  match a, b with
  | APos x, APos y | AStar x, AStar y | AStarStar x, AStarStar y | AOther x, AOther y => text_eqb x y
  | AKw k x, AKw k' y => text_eqb k k' && text_eqb x y
  | _, _ => false
  end.

(* the wrapper's own parameters, each exactly once, in order: positionals, *args, keyword-only as k=k, **kw *)
Definition expected_args (p : params) : list argx :=
  map APos (p_pos p)
  ++ (match p_var p with Some v => [AStar v] | None => [] end)
  ++ map (fun kd => AKw (fst kd) (fst kd)) (p_kwonly p)
  ++ (match p_kwvar p with Some v => [AStarStar v] | None => [] end).

Definition forwards_all (w : wrapper) : bool := list_eqb argx_eqb (w_args w) (expected_args (w_params w)).

Definition find_api (api : list apisig) (m : text) : option apisig :=
  find (fun a => text_eqb (a_name a) m) api.

Definition nreq (p : params) : nat := List.length (p_pos p) - List.length (p_defaults p).

(* default text of positional parameter k of p, if it has one *)
Fixpoint index_str (k : text) (l : list text) : option nat :=
  match l with
  | [] => None
  | x :: r => if text_eqb k x then Some O else option_map S (index_str k r)
  end.
Definition pos_default (p : params) (k : text) : option text :=
  match index_str k (p_pos p) with
  | Some i => if Nat.leb (nreq p) i then nth_error (p_defaults p) (i - nreq p) else None
  | None => None
  end.

Definition opt_is_some {A} (o : option A) : bool := match o with Some _ => true | None => false end.

(* the wrapper accepts exactly the calls the plain method accepts, positional or by keyword: same number of
   required and optional positional parameters with the same default texts, *args iff the target has *args,
   keyword-only parameters that exist in the target with the same default, **kwargs iff the target has it
   (a wrapper that spells an optional positional parameter of the target as *args rejects the keyword call
   f(x, domain="d") that the plain method accepts: not allowed) *)
Definition sig_ok (wp tp : params) : bool :=
  Nat.eqb (nreq wp) (nreq tp)
  && (match p_var wp, p_var tp with
      | None, None | Some _, Some _ =>
          Nat.eqb (List.length (p_pos wp)) (List.length (p_pos tp)) && list_eqb text_eqb (p_defaults wp) (p_defaults tp)
      | _, _ => false
      end)
  && forallb (fun kd => match assoc (fst kd) (p_kwonly tp) with
                        | Some d => text_eqb d (snd kd)
                        | None => match pos_default tp (fst kd) with
                                  | Some d => text_eqb d (snd kd)
                                  | None => false
                                  end
                        end) (p_kwonly wp)
  && Bool.eqb (opt_is_some (p_kwvar wp)) (opt_is_some (p_kwvar tp)).

(* the lock held is strong enough for the target *)
Definition lock_ok (m : lockmode) (t : text) : bool :=
  match m with
  | LW => true
  | LR => negb (mutating t)
  | LNone => stateless t
  end.

Definition is_nil {A} (l : list A) : bool := match l with [] => true | _ => false end.

(* fault codes (harness/props/c17.py prints them):
     1 target is not a classified public Enforcer method     2 wrapper and target have different names
     3 mutating target under the READ lock                   4 state-touching target under NO lock
     5 arguments not forwarded exactly once, in order        6 the target's return value is dropped
     7 signature incompatible with the target's              8 inline body touches the wrapped enforcer with no lock
     9 inline body touches the wrapped enforcer under the read lock (cannot be classified: must hold the write lock)
    10 calls another wrapper while holding the (non re-entrant) lock
    11 uses internal state obtained from a wrapper after the lock was released *)
Definition wrapper_faults (api : list apisig) (w : wrapper) : list N :=
  match w_target w with
  | Some t =>
      (if known t then [] else [1%N])
      ++ (if text_eqb (w_name w) t then [] else [2%N])
      ++ (if lock_ok (w_mode w) t then [] else [match w_mode w with LR => 3%N | _ => 4%N end])
      ++ (if forwards_all w then [] else [5%N])
      ++ (if implb (returns_value t) (w_returns w) then [] else [6%N])
      ++ (match find_api api t with
          | Some a => if sig_ok (w_params w) (a_params a) then [] else [7%N]
          | None => []          (* already fault 1 *)
          end)
  | None =>
      (if forallb benign_attr (w_inner_none w) then [] else [8%N])
      ++ (if is_nil (w_inner_r w) then [] else [9%N])
      ++ (if is_nil (w_self_locked w) then [] else [10%N])
      ++ (if is_nil (w_escaped w) then [] else [11%N])
  end.

Definition wrapper_ok (api : list apisig) (w : wrapper) : bool := is_nil (wrapper_faults api w).

(* the statement of the property's middle sentence about ONE delegating wrapper, as worded in DESIGN.md:
   delegates w -> (mode w = W \/ (mode w = R /\ mutating (target w) = false)) /\ forwards_all w /\
                  (returns_value (target w) -> returns w)
   ([wrapper_ok] is stronger: SyncedProofs.wrapper_ok_worded) *)
Definition worded_ok (w : wrapper) : Prop :=
  forall t, w_target w = Some t ->
    (w_mode w = LW \/ (w_mode w = LR /\ mutating t = false) \/ (w_mode w = LNone /\ stateless t = true))
    /\ forwards_all w = true
    /\ (returns_value t = true -> w_returns w = true).

Definition find_wrapper (tbl : list wrapper) (n : text) : option wrapper :=
  find (fun w => text_eqb (w_name w) n) tbl.

(* coverage facts about the hand table w.r.t. the regenerated API *)
Definition api_classified (api : list apisig) : bool := forallb (fun a => known (a_name a)) api.
Definition table_exact (api : list apisig) : bool :=
  forallb (fun row => opt_is_some (find_api api (fst row))) api_table.
Definition returns_agree (api : list apisig) : bool :=
  forallb (fun a => Bool.eqb (returns_value (a_name a)) (a_returns a)) api.
(* public Enforcer methods that SyncedEnforcer does not offer at all (informative) *)
Definition unwrapped (api : list apisig) (tbl : list wrapper) : list text :=
  map a_name (filter (fun a => negb (opt_is_some (find_wrapper tbl (a_name a)))) api).

(* the public Enforcer methods that SyncedEnforcer deliberately does not offer (calling them on a
   SyncedEnforcer raises AttributeError: nothing unsynchronised can happen).  A public method that appears in
   the plain API later and is neither wrapped nor listed here breaks SyncedTie.unwrapped_listed. *)
Local Open Scope text_scope.
Definition deliberately_unwrapped : list text := [
  "configure_logging"; "enable_auto_notify_watcher"; "get_allowed_object_conditions"; "get_named_role_manager";
  "init_rm_map"; "init_with_adapter"; "init_with_file"; "init_with_model_and_adapter";
  "load_increment_filtered_policy"; "new_model"; "set_named_role_manager"; "update_filtered_named_policies";
  "update_filtered_policies"; "update_named_policies"; "update_named_policy"; "update_policies"; "update_policy" ].
Local Close Scope text_scope.
Definition unwrapped_listed (api : list apisig) (tbl : list wrapper) : bool :=
  forallb (fun m => existsb (text_eqb m) deliberately_unwrapped) (unwrapped api tbl).

(* the lock a call of wrapper [m] takes according to the table, and which wrappers count as ONE call of the
   machine of Part 3: the delegating ones and the inline ones whose whole body holds the write lock (the others
   — is_auto_loading_running, start/stop_auto_load_policy, _auto_load_policy — touch only the wrapper's own
   AtomicBool or are loops of wrapped calls) *)
Definition table_mode (tbl : list wrapper) (m : text) : lockmode :=
  match find_wrapper tbl m with Some w => w_mode w | None => LNone end.
Definition callable (tbl : list wrapper) (m : text) : bool :=
  match find_wrapper tbl m with
  | Some w => opt_is_some (w_target w) || lockmode_eqb (w_mode w) LW
  | None => false
  end.

(* ================================================================== Part 3: the abstract concurrent machine *)
Definition callid := (nat * nat)%type.     (* (thread, index of the call in that thread's program) *)

Inductive event :=
| EInvoke (t i : nat)       (* thread t invokes its i-th call *)
| EEnter (t : nat)          (* ... obtains its lock *)
| EMicro (t : nat)          (* ... performs one micro step *)
| EExit (t i : nat).        (* ... returns from its i-th call (and releases) *)

(* the completed calls of a trace, in order of completion *)
Definition completed (tr : list event) : list callid :=
  flat_map (fun e => match e with EExit t i => [(t, i)] | _ => [] end) tr.
(* real-time precedence: a returned before b was invoked *)
Definition precedes (tr : list event) (a b : callid) : Prop :=
  exists tr1 tr2 tr3, tr = tr1 ++ EExit (fst a) (snd a) :: tr2 ++ EInvoke (fst b) (snd b) :: tr3.
Definition before (l : list callid) (a b : callid) : Prop :=
  exists l1 l2 l3, l = l1 ++ a :: l2 ++ b :: l3.

Section Machine.
  Variables state call local ret : Type.
  Variable mode : call -> lockmode.                              (* which lock the call's wrapper takes *)
  Variable start : call -> local.                                (* local state at Enter *)
  Variable mstep : call -> local -> state -> local * state.      (* ONE micro step, on the live shared state *)
  Variable len : call -> nat.                                    (* number of micro steps of the call *)
  Variable result : call -> local -> ret.                        (* the value returned at Exit *)

  (* ---- the atomic (one-at-a-time) semantics, derived from the same micro steps *)
  Fixpoint iter (c : call) (n : nat) (l : local) (s : state) : local * state :=
    match n with
    | O => (l, s)
    | S k => let '(l1, s1) := mstep c l s in iter c k l1 s1
    end.

  Definition atomic (s : state) (c : call) : state * ret :=
    let '(l, s1) := iter c (len c) (start c) s in (s1, result c l).

  Fixpoint seq_run (s : state) (cs : list call) : state * list ret :=
    match cs with
    | [] => (s, [])
    | c :: r => let '(s1, x) := atomic s c in
                let '(s2, xs) := seq_run s1 r in (s2, x :: xs)
    end.

  (* ---- configurations *)
  Inductive phase :=
  | Idle                                     (* between calls *)
  | Pend (c : call)                          (* invoked, waiting for the lock *)
  | Run (c : call) (l : local) (rem : nat).   (* inside: rem micro steps still to do *)

  Record thread := { ph : phase; prog : list call (* calls still to invoke *); ninv : nat (* calls invoked so far *) }.

  Record entry := { e_id : callid; e_call : call; e_ret : ret }.

  Record config := {
    cur : state;              (* the shared enforcer state, live *)
    ths : list thread;
    log : list entry          (* completed calls with their return values, in order of completion *)
  }.

  (* ---- the readers-writer guard: exactly what C16 proves of the lock (exclusion / readers share) *)
  Definition in_mode (m : lockmode) (th : thread) : bool :=
    match ph th with Run c _ _ => lockmode_eqb (mode c) m | _ => false end.
  Definition writer_inside (l : list thread) : bool := existsb (in_mode LW) l.
  Definition reader_inside (l : list thread) : bool := existsb (in_mode LR) l.
  Definition may_enter (m : lockmode) (l : list thread) : bool :=
    match m with
    | LR => negb (writer_inside l)
    | LW => negb (writer_inside l) && negb (reader_inside l)
    | LNone => true
    end.

  Definition set_th (C : config) (t : nat) (th : thread) : config :=
    {| cur := cur C; ths := set_nth t th (ths C); log := log C |}.

  Definition step (C : config) (e : event) : option config :=
    match e with
    | EInvoke t i =>
        match nth_error (ths C) t with
        | Some th =>
            match ph th, prog th with
            | Idle, c :: rest =>
                if Nat.eqb (ninv th) i
                then Some (set_th C t {| ph := Pend c; prog := rest; ninv := S i |})
                else None
            | _, _ => None
            end
        | None => None
        end
    | EEnter t =>
        match nth_error (ths C) t with
        | Some th =>
            match ph th with
            | Pend c =>
                if may_enter (mode c) (ths C)
                then Some (set_th C t {| ph := Run c (start c) (len c); prog := prog th; ninv := ninv th |})
                else None
            | _ => None
            end
        | None => None
        end
    | EMicro t =>
        match nth_error (ths C) t with
        | Some th =>
            match ph th with
            | Run c l (S m) =>
                let '(l1, s1) := mstep c l (cur C) in
                Some {| cur := s1;
                        ths := set_nth t {| ph := Run c l1 m; prog := prog th; ninv := ninv th |} (ths C);
                        log := log C |}
            | _ => None
            end
        | None => None
        end
    | EExit t i =>
        match nth_error (ths C) t with
        | Some th =>
            match ph th with
            | Run c l O =>
                if Nat.eqb (ninv th) (S i)
                then Some {| cur := cur C;
                             ths := set_nth t {| ph := Idle; prog := prog th; ninv := ninv th |} (ths C);
                             log := log C ++ [ {| e_id := (t, i); e_call := c; e_ret := result c l |} ] |}
                else None
            | _ => None
            end
        | None => None
        end
    end.

  Fixpoint exec (C : config) (tr : list event) : option config :=
    match tr with
    | [] => Some C
    | e :: r => match step C e with Some C1 => exec C1 r | None => None end
    end.

  (* the longest executable prefix (for the monitor: index of the first illegal event) *)
  Fixpoint exec_upto (C : config) (tr : list event) (n : nat) : config * option nat :=
    match tr with
    | [] => (C, None)
    | e :: r => match step C e with Some C1 => exec_upto C1 r (S n) | None => (C, Some n) end
    end.

  Definition init (s0 : state) (progs : list (list call)) : config :=
    {| cur := s0; ths := map (fun p => {| ph := Idle; prog := p; ninv := O |}) progs; log := [] |}.

  Definition call_of (progs : list (list call)) (id : callid) : option call :=
    nth_error (nth (fst id) progs []) (snd id).

  (* what is assumed of one call: it takes the write lock, or it takes the read lock and none of its micro
     steps changes the shared (abstract) state, or it takes no lock and its micro steps neither change nor
     read the shared state (a stateless call: its result is the same whatever the state, dirty or not) *)
  Definition disciplined (c : call) : Prop :=
    mode c = LW
    \/ (mode c = LR /\ forall l s, snd (mstep c l s) = s)
    \/ (mode c = LNone /\ forall l s s', mstep c l s' = (fst (mstep c l s), s')).

  (* who is inside (between Enter and Exit) *)
  Definition inside (C : config) (id : callid) : Prop :=
    exists th c l rem, nth_error (ths C) (fst id) = Some th /\ ph th = Run c l rem /\ ninv th = S (snd id).

  (* ---- THE SPECIFICATION of the first sentence of the property.
     [ord] — calls with their ids — is a linearisation of the trace [tr] that led from (init s0 progs) to C:
     a one-at-a-time order of exactly the calls that have returned or are inside, which respects real-time
     precedence and program order, and whose sequential run by [seq_run] (the plain enforcer, one call at a
     time, from the same initial state) returns for every completed call exactly the value it returned in the
     concurrent run and ends — whenever no writer is in the middle of its call — in exactly the live state *)
  Definition linearization (s0 : state) (progs : list (list call)) (tr : list event) (C : config)
             (ord : list (callid * call)) : Prop :=
    NoDup (map fst ord)
    /\ (forall id, List.In id (map fst ord) <-> List.In id (completed tr) \/ inside C id)
    /\ (forall id c, List.In (id, c) ord -> call_of progs id = Some c)
    /\ (forall a b, List.In a (map fst ord) -> List.In b (map fst ord) -> precedes tr a b -> before (map fst ord) a b)
    /\ (forall t i j, i < j -> List.In (t, j) (map fst ord) -> before (map fst ord) (t, i) (t, j))
    /\ map e_id (log C) = completed tr
    /\ (forall e, List.In e (log C) ->
          List.In (e_id e, e_ret e) (combine (map fst ord) (snd (seq_run s0 (map snd ord)))))
    /\ (writer_inside (ths C) = false -> cur C = fst (seq_run s0 (map snd ord))).
End Machine.

Arguments Idle {call local}.
Arguments Pend {call local} c.
Arguments Run {call local} c l rem.
Arguments ph {call local} t.
Arguments prog {call local} t.
Arguments ninv {call local} t.
Arguments Build_thread {call local} ph prog ninv.
Arguments e_id {call ret} e.
Arguments e_call {call ret} e.
Arguments e_ret {call ret} e.
Arguments Build_entry {call ret} e_id e_call e_ret.
Arguments cur {state call local ret} c.
Arguments ths {state call local ret} c.
Arguments log {state call local ret} c.
Arguments Build_config {state call local ret} cur ths log.
Arguments iter {state call local} mstep c n l s.
Arguments atomic {state call local ret} start mstep len result s c.
Arguments seq_run {state call local ret} start mstep len result s cs.
Arguments in_mode {call local} mode m th.
Arguments writer_inside {call local} mode l.
Arguments reader_inside {call local} mode l.
Arguments may_enter {call local} mode m l.
Arguments step {state call local ret} mode start mstep len result C e.
Arguments exec {state call local ret} mode start mstep len result C tr.
Arguments exec_upto {state call local ret} mode start mstep len result C tr n.
Arguments init {state call local ret} s0 progs.
Arguments call_of {call} progs id.
Arguments disciplined {state call local} mode mstep c.
Arguments inside {state call local ret} C id.
Arguments linearization {state call local ret} mode start mstep len result s0 progs tr C ord.

(* ================================================================== Part 4: the free instance
   state = the writers so far, most recent first; 0 = the DIRTY marker a writer leaves while it works.
   A writer takes two micro steps (read + mark dirty; replace the mark by its tag), a reader one (read).
   Every call returns the state it read: under the discipline, exactly the writers linearised before it. *)
Local Open Scope N_scope.

Record fcall := { fc_tag : N; fc_mode : lockmode; fc_mut : bool }.

Definition fstart (_ : fcall) : option (list N) := None.
Definition fmstep (c : fcall) (l : option (list N)) (s : list N) : option (list N) * list N :=
  if fc_mut c
  then match l with
       | None => (Some s, 0 :: s)
       | Some x => (Some x, fc_tag c :: tl s)
       end
  else match fc_mode c with
       | LNone => (Some [], s)       (* a stateless call does not even read the state *)
       | _ => (Some s, s)
       end.
Definition flen (c : fcall) : nat := if fc_mut c then 2%nat else 1%nat.
Definition fresult (_ : fcall) (l : option (list N)) : list N := match l with Some x => x | None => [] end.

Definition fstep := step fc_mode fstart fmstep flen fresult.
Definition fexec := exec fc_mode fstart fmstep flen fresult.
Definition fexec_upto := exec_upto fc_mode fstart fmstep flen fresult.
Definition fseq_run := seq_run fstart fmstep flen fresult.
Definition finit (progs : list (list fcall)) : config (list N) fcall (option (list N)) (list N) := init [] progs.

(* ---- linear extensions of program order + a given precedence (the admissible one-at-a-time orders) *)
Definition callid_eqb (a b : callid) : bool := Nat.eqb (fst a) (fst b) && Nat.eqb (snd a) (snd b).

Definition minimal (x : callid) (remaining : list callid) (prec : list (callid * callid)) : bool :=
  forallb (fun y => negb (Nat.eqb (fst y) (fst x) && Nat.ltb (snd y) (snd x))
                    && negb (existsb (fun p => callid_eqb (fst p) y && callid_eqb (snd p) x) prec))
          remaining.

Fixpoint lin_exts (fuel : nat) (remaining : list callid) (prec : list (callid * callid)) : list (list callid) :=
  match fuel with
  | O => [[]]
  | S f =>
      match remaining with
      | [] => [[]]
      | _ => flat_map (fun x => if minimal x remaining prec
                                then map (cons x) (lin_exts f (filter (fun y => negb (callid_eqb x y)) remaining) prec)
                                else []) remaining
      end
  end.

Definition all_ids (lens : list nat) : list callid :=
  flat_map (fun tl => map (fun i => (fst tl, i)) (seq 0 (snd tl))) (combine (seq 0 (List.length lens)) lens).

(* is [order] admissible: a permutation of the ids that respects program order and prec *)
Definition admissible (lens : list nat) (prec : list (callid * callid)) (order : list callid) : bool :=
  existsb (list_eqb callid_eqb order) (lin_exts (List.length (all_ids lens)) (all_ids lens) prec).

(* ================================================================== Part 5: oracle *)
Definition string_of_str (s : str) : text :=
  fold_right (fun n acc => TChr (ascii_of_N n) acc) TNil s.
Fixpoint str_of_string (s : text) : str :=
  match s with TNil => [] | TChr a r => N_of_ascii a :: str_of_string r end.
Definition vstring (s : text) : val := vstr (str_of_string s).
Definition as_string (v : val) : option text := option_map string_of_str (as_str v).

Definition vmode (m : lockmode) : val := VN (match m with LR => 0 | LW => 1 | LNone => 2 end).
Definition as_mode (v : val) : option lockmode :=
  match v with VN 0 => Some LR | VN 1 => Some LW | VN 2 => Some LNone | _ => None end.
Definition vclass (m : text) : val :=
  VN (match classify m with Some (CRead, _) => 0 | Some (CWrite, _) => 1 | Some (CPure, _) => 2 | None => 3 end).

(* the mode a call of Enforcer method m REQUIRES according to the hand table (what the monitor enforces on
   observed executions, whatever lock the wrapper really took) *)
Definition required_mode (m : text) : lockmode :=
  if mutating m then LW else if stateless m then LNone else LR.

Definition vwrapper (w : wrapper) : val :=
  VL [ vstring (w_name w); vnat (w_line w); vmode (w_mode w); vopt vstring (w_target w); vbool (w_returns w);
       VL (map VN (wrapper_faults enforcer_api w));
       match w_target w with Some t => vclass t | None => vclass (w_name w) end;
       vbool (match w_target w with Some t => returns_value t | None => false end);
       vlist vstring (w_inner_r w ++ w_inner_w w ++ w_inner_none w);
       vlist vstring (w_self_locked w); vlist vstring (w_escaped w);
       vnat (List.length (p_pos (w_params w))); vbool (opt_is_some (p_var (w_params w)));
       vlist vstring (map fst (p_kwonly (w_params w))) ].

Definition vapi (a : apisig) : val :=
  VL [ vstring (a_name a); vstring (a_class a); vclass (a_name a); vbool (returns_value (a_name a));
       vbool (a_returns a); vbool (opt_is_some (find_wrapper synced_table (a_name a))); vbool (a_static a);
       vnat (List.length (p_pos (a_params a))); vnat (nreq (a_params a)); vbool (opt_is_some (p_var (a_params a))) ].

Definition as_callid (v : val) : option callid :=
  match v with VL [t; i] => match as_nat t, as_nat i with Some t, Some i => Some (t, i) | _, _ => None end | _ => None end.
Definition vcallid (c : callid) : val := VL [vnat (fst c); vnat (snd c)].

Definition as_event (v : val) : option (list event) :=
  match v with
  | VL [VN 0; t; i] => match as_nat t, as_nat i with Some t, Some i => Some [EInvoke t i] | _, _ => None end
  (* an observed Enter: the call starts working at once (reader: reads; writer: state dirty from here on) *)
  | VL [VN 1; t; _] => match as_nat t with Some t => Some [EEnter t; EMicro t] | None => None end
  (* an observed Exit of a reader / of a writer (whose second micro step publishes its result) *)
  | VL [VN 2; t; i] => match as_nat t, as_nat i with Some t, Some i => Some [EExit t i] | _, _ => None end
  | VL [VN 3; t; i] => match as_nat t, as_nat i with Some t, Some i => Some [EMicro t; EExit t i] | _, _ => None end
  | _ => None
  end.

Definition tag_of (t i : nat) : N := N.of_nat t * 1000 + N.of_nat i + 1.

(* thread programs from method names: the REQUIRED mode of every call *)
Definition fprogs (names : list (list text)) : list (list fcall) :=
  map (fun tl => map (fun im => {| fc_tag := tag_of (fst tl) (fst im);
                                   fc_mode := required_mode (snd im);
                                   fc_mut := mutating (snd im) |})
                     (combine (seq 0 (List.length (snd tl))) (snd tl)))
      (combine (seq 0 (List.length names)) names).

Definition ventry (e : entry fcall (list N)) : val :=
  VL [vcallid (e_id e); VL (map VN (e_ret e))].

Definition oracle_C17 (tag : N) (v : val) : val :=
  match tag, v with
  (* 1: the regenerated wrapper table with the verdict of the discipline on every record *)
  | 1, _ => VL [ vbool (forallb (wrapper_ok enforcer_api) synced_table); vlist vwrapper synced_table ]
  (* 2: the regenerated API with the hand classification; coverage verdicts; unwrapped methods *)
  | 2, _ => VL [ vbool (api_classified enforcer_api); vbool (table_exact enforcer_api);
                 vbool (returns_agree enforcer_api); vlist vapi enforcer_api;
                 vlist vstring (unwrapped enforcer_api synced_table);
                 vbool (unwrapped_listed enforcer_api synced_table) ]
  (* 3: monitor.  [names per thread; observed events [kind; t; i] with kind 0 invoke / 1 inner method entered /
        2 exited] -> [index of the first event the machine refuses under the REQUIRED modes, if any;
        the completed calls in the order the linearizability theorem constructs (completion order), each with
        the writers the free model says precede it; final free state] *)
  | 3, VL [ns; evs] =>
      match as_listof (as_listof as_string) ns, as_list evs with
      | Some names, Some evl =>
          let progs := fprogs names in
          (* the exit of a mutating call is spelled 3 *)
          let fix_kind (e : val) : val :=
            match e with
            | VL [VN 2; VN t; VN i] =>
                match nth_error (nth (N.to_nat t) names []) (N.to_nat i) with
                | Some m => if mutating m then VL [VN 3; VN t; VN i] else e
                | None => e
                end
            | _ => e
            end in
          match all_some (map (fun e => as_event (fix_kind e)) evl) with
          | Some ll =>
              (* refuse per OBSERVED event: run group by group *)
              let fix go (C : config (list N) fcall (option (list N)) (list N)) (gs : list (list event)) (n : nat)
                  : config (list N) fcall (option (list N)) (list N) * option nat :=
                match gs with
                | [] => (C, None)
                | g :: r => match fexec C g with Some C1 => go C1 r (S n) | None => (C, Some n) end
                end in
              let '(C, bad) := go (finit progs) ll O in
              VL [ vopt vnat bad; vlist ventry (log C); VL (map VN (cur C)) ]
          | None => vbad
          end
      | _, _ => vbad
      end
  (* 4: [lengths of the thread programs; precedence pairs] -> all admissible one-at-a-time orders *)
  | 4, VL [ls; ps] =>
      match as_listof as_nat ls,
            as_listof (fun p => match p with
                                | VL [a; b] => match as_callid a, as_callid b with
                                               | Some a, Some b => Some (a, b) | _, _ => None end
                                | _ => None end) ps with
      | Some lens, Some prec =>
          let ids := all_ids lens in
          VL (map (vlist vcallid) (lin_exts (List.length ids) ids prec))
      | _, _ => vbad
      end
  (* 5: [method names] -> [known; class; returns_value; required mode] each *)
  | 5, VL [ns] =>
      match as_listof as_string ns with
      | Some l => VL (map (fun m => VL [vbool (known m); vclass m; vbool (returns_value m); vmode (required_mode m)]) l)
      | None => vbad
      end
  | _, _ => vbad
  end.
