(* SyncedBase.v — C17: syntax of the wrapper table into which translators/synced.py renders
   casbin/synced_enforcer.py, and of the signature table of the plain Enforcer API
   (casbin/{core,internal,management}_enforcer.py, enforcer.py).  Syntax only: the generated file
   coq/gen/SyncedGen.v imports this, Synced.v gives the meaning (hand tables, wrapper_ok, machine). *)
From Coq Require Import List Bool Ascii.
Import ListNotations.

(* Python identifiers and source texts.  NOT Coq's [text]: its extraction would define an OCaml type named
   `text` that shadows the built-in one inside the generic oracle driver.  Literals "..." are available in
   [text_scope] through a String Notation. *)
Inductive text := TNil | TChr (a : ascii) (r : text).
Fixpoint text_of_bytes (l : list Byte.byte) : text :=
  match l with [] => TNil | b :: r => TChr (ascii_of_byte b) (text_of_bytes r) end.
Fixpoint bytes_of_text (t : text) : list Byte.byte :=
  match t with TNil => [] | TChr a r => byte_of_ascii a :: bytes_of_text r end.
Declare Scope text_scope.
Delimit Scope text_scope with text.
Bind Scope text_scope with text.
String Notation text text_of_bytes bytes_of_text : text_scope.

Fixpoint text_eqb (a b : text) : bool :=
  match a, b with
  | TNil, TNil => true
  | TChr x r, TChr y s => Ascii.eqb x y && text_eqb r s
  | _, _ => false
  end.

(* which lock a wrapper holds:  `with self._rl:`  |  `with self._wl:`  |  none *)
Inductive lockmode := LR | LW | LNone.

(* how ONE actual argument of the delegating call `self._e.m(...)` is written *)
Inductive argx :=
| APos (n : text)            (* a name passed positionally:      n      *)
| AStar (n : text)           (* a starred name:                 *n      *)
| AKw (k n : text)           (* a keyword argument:            k = n    *)
| AStarStar (n : text)       (*                                **n      *)
| AOther (src : text).       (* anything else: constant, expression, attribute, call ... (source text) *)

(* a Python signature without `self` *)
Record params := {
  p_pos : list text;                 (* positional parameters, in order *)
  p_defaults : list text;            (* source text of the defaults of the LAST |p_defaults| of them *)
  p_var : option text;               (* *args *)
  p_kwonly : list (text * text);   (* keyword-only parameters with the text of their default ("" = required) *)
  p_kwvar : option text              (* **kwargs *)
}.

(* one method of class SyncedEnforcer (every method except __init__) *)
Record wrapper := {
  w_name : text;
  w_line : nat;
  w_params : params;
  w_target : option text;      (* Some m  <->  the body (docstrings stripped) is exactly one of
                                      [with self._rl|_wl:]  [return] self._e.m(ARGS)
                                      [with self._rl|_wl:]  v = self._e.m(ARGS) ; return v      (return inside or after the with)
                                    where ARGS never mention `self` *)
  w_mode : lockmode;             (* for a delegation: the lock around the call *)
  w_args : list argx;            (* for a delegation: ARGS *)
  w_returns : bool;              (* for a delegation: the value of the call is returned *)
  (* for every other body ("inline"), what a syntactic walk found: *)
  w_inner_r : list text;       (* attributes X of `self._e.X` used under the read lock  *)
  w_inner_w : list text;       (*   ... under the write lock *)
  w_inner_none : list text;    (*   ... under no lock ("<bare>" = self._e used as a value) *)
  w_self_locked : list text;   (* self.m(...) calls (m a method of the class) made while a lock is held:
                                    the lock is not re-entrant, so such a call can never return *)
  w_escaped : list text        (* self.m(...) calls whose RESULT is dereferenced, stored or passed on outside a lock:
                                    internal state obtained under the lock and used after its release *)
}.

(* one public method of the plain Enforcer (most derived definition along
   Enforcer -> ManagementEnforcer -> InternalEnforcer -> CoreEnforcer) *)
Record apisig := {
  a_name : text;
  a_class : text;
  a_params : params;
  a_returns : bool;              (* some `return <expr>` with <expr> other than None occurs in the body *)
  a_static : bool
}.
