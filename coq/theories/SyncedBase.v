(* SyncedBase.v — C17: syntax of the wrapper table into which translators/synced.py renders
   casbin/synced_enforcer.py, and of the signature table of the plain Enforcer API
   (casbin/{core,internal,management}_enforcer.py, enforcer.py).  Syntax only: the generated file
   coq/gen/SyncedGen.v imports this, Synced.v gives the meaning (hand tables, wrapper_ok, machine). *)
From Coq Require Import List String Bool.
Import ListNotations.

(* which lock a wrapper holds:  `with self._rl:`  |  `with self._wl:`  |  none *)
Inductive lockmode := LR | LW | LNone.

(* how ONE actual argument of the delegating call `self._e.m(...)` is written *)
Inductive argx :=
| APos (n : string)            (* a name passed positionally:      n      *)
| AStar (n : string)           (* a starred name:                 *n      *)
| AKw (k n : string)           (* a keyword argument:            k = n    *)
| AStarStar (n : string)       (*                                **n      *)
| AOther (src : string).       (* anything else: constant, expression, attribute, call ... (source text) *)

(* a Python signature without `self` *)
Record params := {
  p_pos : list string;                 (* positional parameters, in order *)
  p_defaults : list string;            (* source text of the defaults of the LAST |p_defaults| of them *)
  p_var : option string;               (* *args *)
  p_kwonly : list (string * string);   (* keyword-only parameters with the text of their default ("" = required) *)
  p_kwvar : option string              (* **kwargs *)
}.

(* one method of class SyncedEnforcer (every method except __init__) *)
Record wrapper := {
  w_name : string;
  w_line : nat;
  w_params : params;
  w_target : option string;      (* Some m  <->  the body (docstrings stripped) is exactly one of
                                      [with self._rl|_wl:]  [return] self._e.m(ARGS)
                                      [with self._rl|_wl:]  v = self._e.m(ARGS) ; return v      (return inside or after the with)
                                    where ARGS never mention `self` *)
  w_mode : lockmode;             (* for a delegation: the lock around the call *)
  w_args : list argx;            (* for a delegation: ARGS *)
  w_returns : bool;              (* for a delegation: the value of the call is returned *)
  (* for every other body ("inline"), what a syntactic walk found: *)
  w_inner_r : list string;       (* attributes X of `self._e.X` used under the read lock  *)
  w_inner_w : list string;       (*   ... under the write lock *)
  w_inner_none : list string;    (*   ... under no lock ("<bare>" = self._e used as a value) *)
  w_self_locked : list string;   (* self.m(...) calls (m a method of the class) made while a lock is held:
                                    the lock is not re-entrant, so such a call can never return *)
  w_escaped : list string        (* self.m(...) calls whose RESULT is dereferenced, stored or passed on outside a lock:
                                    internal state obtained under the lock and used after its release *)
}.

(* one public method of the plain Enforcer (most derived definition along
   Enforcer -> ManagementEnforcer -> InternalEnforcer -> CoreEnforcer) *)
Record apisig := {
  a_name : string;
  a_class : string;
  a_params : params;
  a_returns : bool;              (* some `return <expr>` with <expr> other than None occurs in the body *)
  a_static : bool
}.
