(* SyncedProofs.v — C17: the generic theorems about the abstract concurrent machine of Synced.v, for ANY
   number of threads, ANY call lists, ANY state/semantics of the calls:
     exclusion       a writer inside is alone (among the lock-taking calls);
     no_dirty_read   every micro step of a read-locked call runs with no writer inside, on a state produced by
                     complete calls only (the final state of the sequential run of the calls linearised so far);
     linearizable    forward simulation to the one-at-a-time semantics, linearisation point = Enter: the calls in
                     the order in which they entered form an order of (completed ++ inside) calls that extends
                     real-time precedence and program order, and run one at a time from the initial state they
                     return exactly the values logged and produce exactly the final state;
   and the facts that connect the lock discipline of ONE table record (wrapper_ok) to the machine's hypothesis
   ([disciplined]). *)
From Coq Require Import List Bool Arith Lia.
From Coq Require Import Ascii.
From PyCasbin Require Import Base SyncedBase Synced.
Import ListNotations.

(* ================================================================== lists *)
Lemma set_nth_length {A} : forall (l : list A) t x, length (set_nth t x l) = length l.
Proof. induction l; destruct t; simpl; intros; auto. Qed.

Lemma nth_error_set_nth_eq {A} : forall (l : list A) t x, t < length l -> nth_error (set_nth t x l) t = Some x.
Proof. induction l; destruct t; simpl; intros; try lia; auto. apply IHl; lia. Qed.

Lemma nth_error_set_nth_neq {A} : forall (l : list A) t t' x, t <> t' -> nth_error (set_nth t x l) t' = nth_error l t'.
Proof. induction l; destruct t, t'; simpl; intros; try congruence; auto. Qed.

Lemma nth_error_set_nth_inv {A} : forall (l : list A) t t' x y,
  nth_error (set_nth t x l) t' = Some y -> (t = t' /\ y = x) \/ (t <> t' /\ nth_error l t' = Some y).
Proof.
  intros l t t' x y H. destruct (Nat.eq_dec t t') as [E|E].
  - subst. left. split; auto.
    assert (t' < length l).
    { rewrite <- (set_nth_length l t' x). apply nth_error_Some. congruence. }
    rewrite nth_error_set_nth_eq in H by auto. congruence.
  - right. rewrite nth_error_set_nth_neq in H by auto. auto.
Qed.

Lemma nth_error_lt {A} : forall (l : list A) t x, nth_error l t = Some x -> t < length l.
Proof. intros. apply nth_error_Some. congruence. Qed.

Lemma existsb_nth {A} (f : A -> bool) : forall l,
  existsb f l = true <-> exists t x, nth_error l t = Some x /\ f x = true.
Proof.
  intro l. rewrite existsb_exists. split.
  - intros [x [Hi Hf]]. apply In_nth_error in Hi. destruct Hi as [t Ht]. eauto.
  - intros [t [x [Ht Hf]]]. exists x. split; auto. eapply nth_error_In; eauto.
Qed.

Lemma existsb_false_nth {A} (f : A -> bool) : forall l,
  existsb f l = false <-> forall t x, nth_error l t = Some x -> f x = false.
Proof.
  intro l. split.
  - intros H t x Ht. destruct (f x) eqn:E; auto.
    assert (existsb f l = true) by (apply existsb_nth; eauto). congruence.
  - intro H. destruct (existsb f l) eqn:E; auto.
    apply existsb_nth in E. destruct E as [t [x [Ht Hf]]]. rewrite (H _ _ Ht) in Hf. discriminate.
Qed.

Lemma in_split_app {A} : forall (a : A) l, In a l -> exists l1 l2, l = l1 ++ a :: l2.
Proof. intros. apply in_split; auto. Qed.

Lemma combine_snoc {A B} : forall (a : list A) (b : list B) x y,
  length a = length b -> combine (a ++ [x]) (b ++ [y]) = combine a b ++ [(x, y)].
Proof.
  induction a as [|a0 a IH]; destruct b as [|b0 b]; simpl; intros; try discriminate; auto.
  f_equal. apply IH. congruence.
Qed.

(* ================================================================== before / precedes *)
Lemma before_app_r : forall l a b x, before l a b -> before (l ++ x) a b.
Proof.
  intros l a b x [l1 [l2 [l3 E]]]. exists l1, l2, (l3 ++ x). subst.
  repeat (rewrite <- app_assoc; simpl). reflexivity.
Qed.

Lemma before_last : forall l a b, In a l -> before (l ++ [b]) a b.
Proof.
  intros l a b H. apply in_split in H. destruct H as [l1 [l2 E]]. subst.
  exists l1, l2, []. rewrite <- app_assoc. reflexivity.
Qed.

Lemma precedes_snoc : forall tr e a b,
  precedes (tr ++ [e]) a b -> precedes tr a b \/ (e = EInvoke (fst b) (snd b) /\ In (EExit (fst a) (snd a)) tr).
Proof.
  intros tr e a b [t1 [t2 [t3 E]]].
  induction t3 as [|x t3' _] using rev_ind.
  - right.
    replace (t1 ++ EExit (fst a) (snd a) :: t2 ++ [EInvoke (fst b) (snd b)])
      with ((t1 ++ EExit (fst a) (snd a) :: t2) ++ [EInvoke (fst b) (snd b)]) in E
      by (rewrite <- app_assoc; reflexivity).
    apply app_inj_tail in E. destruct E as [E1 E2]. split; auto.
    subst tr. apply in_or_app. right. left. reflexivity.
  - left.
    replace (t1 ++ EExit (fst a) (snd a) :: t2 ++ EInvoke (fst b) (snd b) :: t3' ++ [x])
      with ((t1 ++ EExit (fst a) (snd a) :: t2 ++ EInvoke (fst b) (snd b) :: t3') ++ [x]) in E.
    + apply app_inj_tail in E. destruct E as [E _]. exists t1, t2, t3'. exact E.
    + repeat (rewrite <- app_assoc; simpl). reflexivity.
Qed.

Lemma precedes_exit_in : forall tr a b, precedes tr a b -> In (EExit (fst a) (snd a)) tr.
Proof. intros tr a b [t1 [t2 [t3 E]]]. subst. apply in_or_app. right. left. reflexivity. Qed.

Lemma completed_app : forall a b, completed (a ++ b) = completed a ++ completed b.
Proof. intros. unfold completed. apply flat_map_app. Qed.

Lemma in_completed : forall tr t i, In (t, i) (completed tr) <-> In (EExit t i) tr.
Proof.
  intros. unfold completed. rewrite in_flat_map. split.
  - intros [e [Hi He]]. destruct e; simpl in He; try contradiction. destruct He as [He|[]]. inversion He; subst. auto.
  - intro H. exists (EExit t i). split; auto. left. reflexivity.
Qed.

(* ================================================================== the machine *)
Section Lin.
  Variables state call local ret : Type.
  Variable mode : call -> lockmode.
  Variable start : call -> local.
  Variable mstep : call -> local -> state -> local * state.
  Variable len : call -> nat.
  Variable result : call -> local -> ret.

  Notation config := (config state call local ret).
  Notation thread := (thread call local).
  Notation stepM := (step mode start mstep len result).
  Notation execM := (exec mode start mstep len result).
  Notation atomicM := (atomic start mstep len result).
  Notation seqM := (seq_run start mstep len result).
  Notation iterM := (iter mstep).

  (* ---------------------------------------------------------------- sequential semantics *)
  Lemma seq_run_app : forall l1 l2 s,
    seqM s (l1 ++ l2) = (fst (seqM (fst (seqM s l1)) l2), snd (seqM s l1) ++ snd (seqM (fst (seqM s l1)) l2)).
  Proof.
    induction l1 as [|c r IH]; intros l2 s; simpl.
    - destruct (seqM s l2); reflexivity.
    - destruct (atomicM s c) as [s1 x]. rewrite IH.
      destruct (seqM s1 r) as [s2 xs]. simpl.
      destruct (seqM s2 l2) as [s3 ys]. reflexivity.
  Qed.

  Lemma seq_run_length : forall l s, length (snd (seqM s l)) = length l.
  Proof.
    induction l as [|c r IH]; intro s; simpl; auto.
    destruct (atomicM s c) as [s1 x]. specialize (IH s1). destruct (seqM s1 r). simpl in *. congruence.
  Qed.

  Lemma atomic_eq : forall s c,
    atomicM s c = (snd (iterM c (len c) (start c) s), result c (fst (iterM c (len c) (start c) s))).
  Proof. intros. unfold atomic. destruct (iterM c (len c) (start c) s). reflexivity. Qed.

  Lemma iter_S : forall c n l s,
    iterM c (S n) l s = iterM c n (fst (mstep c l s)) (snd (mstep c l s)).
  Proof. intros. simpl. destruct (mstep c l s). reflexivity. Qed.

  Lemma iter_readonly : forall c, (forall l s, snd (mstep c l s) = s) -> forall n l s, snd (iterM c n l s) = s.
  Proof.
    intros c H n. induction n; intros l s; auto.
    rewrite iter_S. rewrite IHn. apply H.
  Qed.

  Lemma iter_pure : forall c, (forall l s s', mstep c l s' = (fst (mstep c l s), s')) ->
    forall n l s s', iterM c n l s' = (fst (iterM c n l s), s').
  Proof.
    intros c H n. induction n; intros l s s'; auto.
    rewrite !iter_S. rewrite (H l s s'). simpl.
    rewrite (IHn _ (snd (mstep c l s)) s'). reflexivity.
  Qed.

  (* the linearisation: calls with their ids; what the one-at-a-time run returns for each, and its final state *)
  Definition lin := list (callid * call).
  Definition final_of (s0 : state) (ord : lin) : state := fst (seqM s0 (map snd ord)).
  Definition rets_of (s0 : state) (ord : lin) : list (callid * ret) :=
    combine (map fst ord) (snd (seqM s0 (map snd ord))).

  Lemma final_of_snoc : forall s0 ord id c,
    final_of s0 (ord ++ [(id, c)]) = snd (iterM c (len c) (start c) (final_of s0 ord)).
  Proof.
    intros. unfold final_of. rewrite map_app, seq_run_app. simpl.
    rewrite atomic_eq. reflexivity.
  Qed.

  Lemma rets_of_snoc : forall s0 ord id c,
    rets_of s0 (ord ++ [(id, c)]) =
    rets_of s0 ord ++ [(id, result c (fst (iterM c (len c) (start c) (final_of s0 ord))))].
  Proof.
    intros. unfold rets_of, final_of. rewrite !map_app, seq_run_app. simpl.
    rewrite atomic_eq. simpl.
    rewrite combine_snoc; auto. rewrite seq_run_length, !map_length. reflexivity.
  Qed.

  (* ---------------------------------------------------------------- one step, as a relation on the stepping thread *)
  Variable s0 : state.
  Variable progs : list (list call).

  Inductive tstep (C : config) : event -> nat -> thread -> thread -> config -> Prop :=
  | TInvoke t th c rest :
      nth_error (ths C) t = Some th -> ph th = Idle -> prog th = c :: rest ->
      tstep C (EInvoke t (ninv th)) t th (Build_thread (Pend c) rest (S (ninv th)))
            (Build_config (cur C) (set_nth t (Build_thread (Pend c) rest (S (ninv th))) (ths C)) (log C))
  | TEnter t th c :
      nth_error (ths C) t = Some th -> ph th = Pend c -> may_enter mode (mode c) (ths C) = true ->
      tstep C (EEnter t) t th (Build_thread (Run c (start c) (len c)) (prog th) (ninv th))
            (Build_config (cur C) (set_nth t (Build_thread (Run c (start c) (len c)) (prog th) (ninv th)) (ths C)) (log C))
  | TMicro t th c l m :
      nth_error (ths C) t = Some th -> ph th = Run c l (S m) ->
      tstep C (EMicro t) t th (Build_thread (Run c (fst (mstep c l (cur C))) m) (prog th) (ninv th))
            (Build_config (snd (mstep c l (cur C)))
                          (set_nth t (Build_thread (Run c (fst (mstep c l (cur C))) m) (prog th) (ninv th)) (ths C)) (log C))
  | TExit t th c l i :
      nth_error (ths C) t = Some th -> ph th = Run c l O -> ninv th = S i ->
      tstep C (EExit t i) t th (Build_thread Idle (prog th) (ninv th))
            (Build_config (cur C) (set_nth t (Build_thread Idle (prog th) (ninv th)) (ths C))
                          (log C ++ [Build_entry (t, i) c (result c l)])).

  Lemma step_tstep : forall C e C', stepM C e = Some C' -> exists t th th', tstep C e t th th' C'.
  Proof.
    intros C e C' H. destruct e as [t i|t|t|t i]; unfold step in H;
      destruct (nth_error (ths C) t) as [th|] eqn:Hth; try discriminate.
    - destruct (ph th) eqn:Hph; try discriminate. destruct (prog th) as [|c rest] eqn:Hpr; try discriminate.
      destruct (Nat.eqb (ninv th) i) eqn:Hi; try discriminate. apply Nat.eqb_eq in Hi. subst i.
      inversion H; subst. do 3 eexists. unfold set_th. eapply TInvoke; eauto.
    - destruct (ph th) as [|c|c l r] eqn:Hph; try discriminate.
      destruct (may_enter mode (mode c) (ths C)) eqn:Hm; try discriminate.
      inversion H; subst. do 3 eexists. unfold set_th. eapply TEnter; eauto.
    - destruct (ph th) as [|c|c l [|m]] eqn:Hph; try discriminate.
      pose proof (TMicro C t th c l m Hth Hph) as T.
      destruct (mstep c l (cur C)) as [l1 s1] eqn:Hm. inversion H; subst. simpl in T. eauto.
    - destruct (ph th) as [|c|c l [|m]] eqn:Hph; try discriminate.
      destruct (Nat.eqb (ninv th) (S i)) eqn:Hi; try discriminate. apply Nat.eqb_eq in Hi.
      inversion H; subst. do 3 eexists. eapply TExit; eauto.
  Qed.

  Lemma tstep_ths : forall C e t th th' C', tstep C e t th th' C' ->
    nth_error (ths C) t = Some th /\ ths C' = set_nth t th' (ths C).
  Proof. intros C e t th th' C' H. destruct H; simpl; auto. Qed.

  Lemma tstep_new : forall C e t th th' C', tstep C e t th th' C' -> nth_error (ths C') t = Some th'.
  Proof.
    intros C e t th th' C' H. destruct (tstep_ths _ _ _ _ _ _ H) as [H1 H2]. rewrite H2.
    apply nth_error_set_nth_eq. eapply nth_error_lt; eauto.
  Qed.

  Lemma tstep_other : forall C e t th th' C', tstep C e t th th' C' ->
    forall t', t' <> t -> nth_error (ths C') t' = nth_error (ths C) t'.
  Proof.
    intros C e t th th' C' H t' Hn. destruct (tstep_ths _ _ _ _ _ _ H) as [H1 H2]. rewrite H2.
    apply nth_error_set_nth_neq. auto.
  Qed.

  (* ---------------------------------------------------------------- reachability with the ghost linearisation *)
  Definition ord_after (C : config) (e : event) (ord : lin) : lin :=
    match e with
    | EEnter t => match nth_error (ths C) t with
                  | Some th => match ph th with Pend c => ord ++ [((t, pred (ninv th)), c)] | _ => ord end
                  | None => ord
                  end
    | _ => ord
    end.

  Inductive reach : list event -> config -> lin -> Prop :=
  | reach0 : reach [] (init s0 progs) []
  | reachS tr C ord e C' : reach tr C ord -> stepM C e = Some C' -> reach (tr ++ [e]) C' (ord_after C e ord).

  Lemma exec_app : forall a b C,
    execM C (a ++ b) = match execM C a with Some C1 => execM C1 b | None => None end.
  Proof.
    induction a as [|e a IH]; intros b C; simpl; auto.
    destruct (stepM C e); auto.
  Qed.

  Lemma exec_reach : forall tr C, execM (init s0 progs) tr = Some C -> exists ord, reach tr C ord.
  Proof.
    induction tr as [|e tr IH] using rev_ind; intros C H.
    - simpl in H. inversion H; subst. exists []. constructor.
    - rewrite exec_app in H. destruct (execM (init s0 progs) tr) as [C1|] eqn:E; try discriminate.
      simpl in H. destruct (stepM C1 e) as [C2|] eqn:E2; try discriminate. inversion H; subst.
      destruct (IH _ eq_refl) as [ord Hr]. eexists. econstructor; eauto.
  Qed.

  (* ---------------------------------------------------------------- invariant A: every thread is where its program says *)
  Definition th_ok (t : nat) (th : thread) : Prop :=
    exists done, nth t progs [] = done ++ prog th /\ length done = ninv th /\
      match ph th with
      | Idle => True
      | Pend c => exists d', done = d' ++ [c]
      | Run c _ _ => exists d', done = d' ++ [c]
      end.
  Definition threads_ok (C : config) : Prop := forall t th, nth_error (ths C) t = Some th -> th_ok t th.

  Lemma threads_ok_init : threads_ok (init s0 progs).
  Proof.
    intros t th H. unfold init in H. simpl in H. rewrite nth_error_map in H.
    destruct (nth_error progs t) as [p|] eqn:E; try discriminate. simpl in H. inversion H; subst.
    exists []. simpl. split; auto. eapply nth_error_nth; eauto.
  Qed.

  Lemma threads_ok_step : forall C e t th th' C', threads_ok C -> tstep C e t th th' C' -> threads_ok C'.
  Proof.
    intros C e t th th' C' Hok H x thx Hx.
    destruct (tstep_ths _ _ _ _ _ _ H) as [H1 H2]. rewrite H2 in Hx.
    apply nth_error_set_nth_inv in Hx. destruct Hx as [[Ex Et]|[Ex Hx]]; [subst x thx | apply Hok; auto].
    destruct (Hok _ _ H1) as [done [Hp [Hl Hph]]].
    destruct H; simpl.
    - exists (done ++ [c]). simpl. split; [|split].
      + rewrite Hp, H3. rewrite <- app_assoc. reflexivity.
      + rewrite app_length. simpl. lia.
      + eauto.
    - exists done. simpl. rewrite H0 in Hph. auto.
    - exists done. simpl. rewrite H0 in Hph. auto.
    - exists done. simpl. auto.
  Qed.

  Lemma th_ok_call : forall t th c, th_ok t th ->
    (ph th = Pend c \/ exists l r, ph th = Run c l r) ->
    call_of progs (t, pred (ninv th)) = Some c /\ In c (concat progs) /\ 0 < ninv th.
  Proof.
    intros t th c [done [Hp [Hl Hph]]] Hc.
    assert (Hd : exists d', done = d' ++ [c]).
    { destruct Hc as [Hc|[l [r Hc]]]; rewrite Hc in Hph; auto. }
    destruct Hd as [d' Hd]. subst done. rewrite app_length in Hl. simpl in Hl.
    assert (Hn : nth_error (nth t progs []) (pred (ninv th)) = Some c).
    { rewrite Hp. rewrite <- app_assoc. rewrite nth_error_app2 by lia.
      replace (pred (ninv th) - length d') with 0 by lia. reflexivity. }
    split; [exact Hn | split; [|lia]].
    apply in_concat. exists (nth t progs []). split.
    - destruct (lt_dec t (length progs)) as [L|L].
      + apply nth_In. auto.
      + rewrite nth_overflow in Hn by lia. destruct (pred (ninv th)); discriminate.
    - eapply nth_error_In; eauto.
  Qed.

  (* ---------------------------------------------------------------- invariant F: a writer inside is alone among lock holders *)
  Definition excl (C : config) : Prop :=
    forall t th, nth_error (ths C) t = Some th -> in_mode mode LW th = true ->
    forall t' th', t' <> t -> nth_error (ths C) t' = Some th' ->
      in_mode mode LW th' = false /\ in_mode mode LR th' = false.

  Lemma in_mode_run : forall m (th : thread) c l r, ph th = Run c l r -> in_mode mode m th = lockmode_eqb (mode c) m.
  Proof. intros. unfold in_mode. rewrite H. reflexivity. Qed.
  Lemma in_mode_idle : forall m (th : thread), ph th = Idle -> in_mode mode m th = false.
  Proof. intros. unfold in_mode. rewrite H. reflexivity. Qed.
  Lemma in_mode_pend : forall m (th : thread) c, ph th = Pend c -> in_mode mode m th = false.
  Proof. intros. unfold in_mode. rewrite H. reflexivity. Qed.

  Lemma excl_init : excl (init s0 progs).
  Proof.
    intros t th H Hw. unfold init in H. simpl in H. rewrite nth_error_map in H.
    destruct (nth_error progs t); try discriminate. simpl in H. inversion H; subst. discriminate.
  Qed.

  Lemma may_enter_lock : forall c (l : list thread), may_enter mode (mode c) l = true -> mode c <> LNone ->
    forall t th, nth_error l t = Some th -> in_mode mode LW th = false.
  Proof.
    intros c l H Hn t th Ht. unfold may_enter in H.
    assert (Hw : writer_inside mode l = false).
    { destruct (mode c); try congruence.
      - apply negb_true_iff in H. auto.
      - apply andb_true_iff in H. destruct H as [H _]. apply negb_true_iff in H. auto. }
    unfold writer_inside in Hw. rewrite existsb_false_nth in Hw. eauto.
  Qed.

  Lemma may_enter_write : forall c (l : list thread), may_enter mode (mode c) l = true -> mode c = LW ->
    forall t th, nth_error l t = Some th -> in_mode mode LW th = false /\ in_mode mode LR th = false.
  Proof.
    intros c l H Hn t th Ht. unfold may_enter in H. rewrite Hn in H.
    apply andb_true_iff in H. destruct H as [Hw Hr]. apply negb_true_iff in Hw, Hr.
    unfold writer_inside in Hw. unfold reader_inside in Hr.
    rewrite existsb_false_nth in Hw, Hr. eauto.
  Qed.

  Lemma excl_step : forall C e t th th' C', excl C -> tstep C e t th th' C' -> excl C'.
  Proof.
    intros C e t th th' C' Hex H x thx Hx Hxw y thy Hne Hy.
    pose proof (tstep_new _ _ _ _ _ _ H) as Hnew.
    pose proof (tstep_other _ _ _ _ _ _ H) as Hoth.
    destruct (tstep_ths _ _ _ _ _ _ H) as [Hold _].
    destruct (Nat.eq_dec x t) as [Ext|Ext]; [subst x|].
    - (* the writer is the stepping thread *)
      rewrite Hnew in Hx. inversion Hx; subst thx. rewrite Hoth in Hy by auto.
      destruct H.
      + rewrite (in_mode_pend LW _ c) in Hxw by reflexivity. discriminate.
      + rewrite (in_mode_run LW _ c (start c) (len c)) in Hxw by reflexivity.
        eapply may_enter_write; eauto. destruct (mode c); simpl in Hxw; congruence.
      + apply (Hex t th Hold) with (t' := y); auto.
        rewrite (in_mode_run LW _ c l (S m)) by auto.
        rewrite (in_mode_run LW _ c (fst (mstep c l (cur C))) m) in Hxw by reflexivity. auto.
      + rewrite in_mode_idle in Hxw by reflexivity. discriminate.
    - rewrite Hoth in Hx by auto.
      destruct (Nat.eq_dec y t) as [Eyt|Eyt]; [subst y|].
      + rewrite Hnew in Hy. inversion Hy; subst thy.
        destruct H.
        * rewrite !(in_mode_pend _ _ c) by reflexivity. auto.
        * rewrite !(in_mode_run _ _ c (start c) (len c)) by reflexivity.
          assert (Hl : mode c <> LNone -> in_mode mode LW thx = false).
          { intro Hm. eapply may_enter_lock; eauto. }
          destruct (mode c) eqn:Em; simpl; auto; exfalso.
          -- rewrite Hl in Hxw by congruence. discriminate.
          -- rewrite Hl in Hxw by congruence. discriminate.
        * rewrite !(in_mode_run _ _ c (fst (mstep c l (cur C))) m) by reflexivity.
          rewrite <- !(in_mode_run _ th c l (S m)) by auto.
          apply (Hex x thx Hx Hxw t th); auto.
        * rewrite !in_mode_idle by reflexivity. auto.
      + rewrite Hoth in Hy by auto. apply (Hex x thx Hx Hxw y thy); auto.
  Qed.


  (* ---------------------------------------------------------------- invariant C: who is in the linearisation *)
  Definition entered (C : config) (id : callid) : Prop :=
    exists th, nth_error (ths C) (fst id) = Some th /\ snd id < ninv th /\
               (S (snd id) = ninv th -> forall c, ph th <> Pend c).
  Definition exited (C : config) (id : callid) : Prop :=
    exists th, nth_error (ths C) (fst id) = Some th /\ snd id < ninv th /\ (S (snd id) = ninv th -> ph th = Idle).

  Lemma entered_iff : forall (C : config) t i th, nth_error (ths C) t = Some th ->
    (entered C (t, i) <-> i < ninv th /\ (S i = ninv th -> forall c, ph th <> Pend c)).
  Proof.
    intros. unfold entered. simpl. split.
    - intros [th' [H1 H2]]. rewrite H in H1. inversion H1; subst. auto.
    - intro. exists th. auto.
  Qed.
  Lemma exited_iff : forall (C : config) t i th, nth_error (ths C) t = Some th ->
    (exited C (t, i) <-> i < ninv th /\ (S i = ninv th -> ph th = Idle)).
  Proof.
    intros. unfold exited. simpl. split.
    - intros [th' [H1 H2]]. rewrite H in H1. inversion H1; subst. auto.
    - intro. exists th. auto.
  Qed.
  Lemma entered_other : forall (C C' : config) t id, fst id <> t ->
    (forall t', t' <> t -> nth_error (ths C') t' = nth_error (ths C) t') -> (entered C' id <-> entered C id).
  Proof. intros C C' t id Hn H. unfold entered. rewrite H by auto. tauto. Qed.
  Lemma exited_other : forall (C C' : config) t id, fst id <> t ->
    (forall t', t' <> t -> nth_error (ths C') t' = nth_error (ths C) t') -> (exited C' id <-> exited C id).
  Proof. intros C C' t id Hn H. unfold exited. rewrite H by auto. tauto. Qed.

  Record ord_inv (C : config) (ord : lin) : Prop := {
    oi_mem : forall id, In id (map fst ord) <-> entered C id;
    oi_nodup : NoDup (map fst ord);
    oi_call : forall id c, In (id, c) ord -> call_of progs id = Some c;
    oi_po : forall t i j, i < j -> In (t, j) (map fst ord) -> before (map fst ord) (t, i) (t, j)
  }.

  Lemma NoDup_snoc {A} : forall (l : list A) x, NoDup l -> ~ In x l -> NoDup (l ++ [x]).
  Proof.
    induction l as [|a l IH]; intros x Hn Hx; simpl.
    - constructor; auto.
    - inversion Hn; subst. constructor.
      + intro Hi. apply in_app_or in Hi. destruct Hi as [Hi|[Hi|[]]]; auto. subst. apply Hx. left. reflexivity.
      + apply IH; auto. intro. apply Hx. right. auto.
  Qed.

  Lemma ord_inv_init : ord_inv (init s0 progs) [].
  Proof.
    constructor; simpl.
    - intros [t i]. split; [intros []|]. intros [th [H1 [H2 _]]]. simpl in *.
      rewrite nth_error_map in H1. destruct (nth_error progs t); try discriminate.
      simpl in H1. inversion H1; subst. simpl in H2. lia.
    - constructor.
    - intros ? ? [].
    - intros ? ? ? ? [].
  Qed.

  (* entered after a step that is not an Enter: unchanged *)
  Lemma entered_step_same : forall C e t th th' C', tstep C e t th th' C' -> (forall x, e <> EEnter x) ->
    forall id, entered C' id <-> entered C id.
  Proof.
    intros C e t th th' C' H Hne [x i].
    pose proof (tstep_new _ _ _ _ _ _ H) as Hnew.
    pose proof (tstep_other _ _ _ _ _ _ H) as Hoth.
    destruct (tstep_ths _ _ _ _ _ _ H) as [Hold _].
    destruct (Nat.eq_dec x t) as [E|E]; [subst x | eapply entered_other; eauto].
    rewrite (entered_iff C' t i th' Hnew), (entered_iff C t i th Hold).
    destruct H; simpl.
    - rewrite H0. split; intros [A B]; split.
      + destruct (Nat.eq_dec i (ninv th)); [|lia]. subst i. exfalso. apply (B eq_refl c). reflexivity.
      + intros _ c'. discriminate.
      + lia.
      + intro X. exfalso. lia.
    - exfalso. eapply Hne; eauto.
    - rewrite H0. split; intros [A B]; split; auto; intros; discriminate.
    - rewrite H0. split; intros [A B]; split; auto; intros; discriminate.
  Qed.

  Lemma ord_after_same : forall C e ord, (forall x, e <> EEnter x) -> ord_after C e ord = ord.
  Proof. intros C e ord H. destruct e; auto. exfalso. eapply H; eauto. Qed.

  Lemma ord_inv_step : forall C e t th th' C' ord, threads_ok C -> ord_inv C ord -> tstep C e t th th' C' ->
    ord_inv C' (ord_after C e ord).
  Proof.
    intros C e t th th' C' ord Hok Hi H.
    assert (Hcase : (forall x, e <> EEnter x) \/ exists c, e = EEnter t /\ ph th = Pend c /\
                     ord_after C e ord = ord ++ [((t, pred (ninv th)), c)] /\
                     th' = Build_thread (Run c (start c) (len c)) (prog th) (ninv th)).
    { destruct H; try (left; intros; discriminate). right. exists c. simpl. rewrite H, H0. auto. }
    destruct Hcase as [Hne | [c [He [Hph [Hord Hth']]]]].
    - rewrite ord_after_same by auto. destruct Hi as [I1 I2 I3 I4]. constructor; auto.
      intro id. rewrite I1. symmetry. eapply entered_step_same; eauto.
    - rewrite Hord. clear Hord.
      pose proof (tstep_new _ _ _ _ _ _ H) as Hnew.
      pose proof (tstep_other _ _ _ _ _ _ H) as Hoth.
      destruct (tstep_ths _ _ _ _ _ _ H) as [Hold _].
      destruct (th_ok_call t th c (Hok _ _ Hold) (or_introl Hph)) as [Hcall [_ Hpos]].
      destruct Hi as [I1 I2 I3 I4].
      assert (Hfresh : ~ In (t, pred (ninv th)) (map fst ord)).
      { intro Hin. apply I1 in Hin. rewrite (entered_iff C t _ th Hold) in Hin. destruct Hin as [_ B].
        apply (B ltac:(lia) c). auto. }
      assert (Hent : forall x i, entered C' (x, i) <-> entered C (x, i) \/ (x, i) = (t, pred (ninv th))).
      { intros x i. destruct (Nat.eq_dec x t) as [E|E].
        - subst x. rewrite (entered_iff C' t i th' Hnew), (entered_iff C t i th Hold). subst th'. simpl.
          rewrite Hph. split.
          + intros [A B]. destruct (Nat.eq_dec (S i) (ninv th)).
            * right. f_equal. lia.
            * left. split; auto; intros; contradiction.
          + intros [[A B]|E]; [split; auto; intros; discriminate|]. inversion E; subst.
            split; [lia | intros; discriminate].
        - rewrite (entered_other C C' t (x, i) E Hoth). split; auto. intros [A|A]; auto.
          inversion A; subst. contradiction. }
      constructor.
      + intros [x i]. rewrite map_app, in_app_iff, I1, Hent. simpl. intuition.
      + rewrite map_app. simpl. apply NoDup_snoc; auto.
      + intros id c' Hin. apply in_app_or in Hin. destruct Hin as [Hin|[Hin|[]]]; eauto.
        inversion Hin; subst. auto.
      + intros x i j Hlt Hin. rewrite map_app in *. simpl in *. apply in_app_or in Hin.
        destruct Hin as [Hin|[Hin|[]]].
        * apply before_app_r. auto.
        * inversion Hin as [[Ex Ej]]. subst x j. apply before_last. apply I1.
          rewrite (entered_iff C t i th Hold). split; [lia|]. intros; lia.
  Qed.

  (* ---------------------------------------------------------------- invariant E: who has returned *)
  Record exit_inv (tr : list event) (C : config) : Prop := {
    ei_exited : forall id, In id (completed tr) <-> exited C id;
    ei_log : map (@e_id call ret) (log C) = completed tr
  }.

  Lemma exit_inv_init : exit_inv [] (init s0 progs).
  Proof.
    constructor; simpl; auto.
    intros [t i]. split; [intros []|]. intros [th [H1 [H2 _]]]. simpl in *.
    rewrite nth_error_map in H1. destruct (nth_error progs t); try discriminate.
    simpl in H1. inversion H1; subst. simpl in H2. lia.
  Qed.

  Lemma exit_inv_step : forall tr C e t th th' C', exit_inv tr C -> tstep C e t th th' C' -> exit_inv (tr ++ [e]) C'.
  Proof.
    intros tr C e t th th' C' [E1 E2] H.
    pose proof (tstep_new _ _ _ _ _ _ H) as Hnew.
    pose proof (tstep_other _ _ _ _ _ _ H) as Hoth.
    destruct (tstep_ths _ _ _ _ _ _ H) as [Hold _].
    constructor; rewrite completed_app.
    - intros [x i]. rewrite in_app_iff, E1.
      destruct (Nat.eq_dec x t) as [E|E].
      + subst x. rewrite (exited_iff C' t i th' Hnew), (exited_iff C t i th Hold).
        destruct H; simpl.
        * rewrite H0. split.
          -- intros [[A B]|[]]. split; [lia|]. intro X. exfalso. lia.
          -- intros [A B]. left. split; [|auto].
             destruct (Nat.eq_dec i (ninv th)); [|lia]. subst. specialize (B eq_refl). discriminate.
        * rewrite H0. split.
          -- intros [[A B]|[]]. split; auto. intro X. specialize (B X). discriminate.
          -- intros [A B]. left. split; auto. intro X. specialize (B X). discriminate.
        * rewrite H0. split.
          -- intros [[A B]|[]]. split; auto. intro X. specialize (B X). discriminate.
          -- intros [A B]. left. split; auto. intro X. specialize (B X). discriminate.
        * rewrite H0. rewrite H1. split.
          -- intros [[A B]|[A|[]]]; [split; auto|]. inversion A; subst. split; auto.
          -- intros [A B]. destruct (Nat.eq_dec i i0); [right; left; subst; auto|].
             left. split; auto. intro X. exfalso. lia.
      + rewrite (exited_other C C' t (x, i) E Hoth).
        split; auto. intros [A|A]; auto. destruct H; simpl in A; try contradiction.
        destruct A as [A|[]]. inversion A; subst. contradiction.
    - destruct H; simpl; try (rewrite app_nil_r; auto).
      rewrite map_app. simpl. rewrite E2. reflexivity.
  Qed.

  (* ---------------------------------------------------------------- invariant G: the simulation *)
  Hypothesis disc : forall c, In c (concat progs) -> disciplined mode mstep c.

  Lemma existsb_set_nth_same {A} (f : A -> bool) : forall l t x y,
    nth_error l t = Some x -> f y = f x -> existsb f (set_nth t y l) = existsb f l.
  Proof.
    induction l as [|a l IH]; intros t x y H Hf; destruct t; simpl in *; try discriminate.
    - inversion H; subst. rewrite Hf. reflexivity.
    - rewrite (IH _ _ _ H Hf). reflexivity.
  Qed.

  Lemma existsb_set_nth_true {A} (f : A -> bool) : forall l t y,
    t < length l -> f y = true -> existsb f (set_nth t y l) = true.
  Proof.
    induction l as [|a l IH]; intros t y H Hf; destruct t; simpl in *; try lia.
    - rewrite Hf. reflexivity.
    - rewrite IH by (auto; lia). apply orb_true_r.
  Qed.

  Record sem_inv (C : config) (ord : lin) : Prop := {
    si_log : forall e, In e (log C) -> In (e_id e, e_ret e) (rets_of s0 ord);
    si_run : forall t th c l r, nth_error (ths C) t = Some th -> ph th = Run c l r ->
               In ((t, pred (ninv th)), result c (fst (iterM c r l (cur C)))) (rets_of s0 ord)
               /\ (mode c = LW -> snd (iterM c r l (cur C)) = final_of s0 ord);
    si_clean : writer_inside mode (ths C) = false -> cur C = final_of s0 ord
  }.

  Lemma sem_inv_init : sem_inv (init s0 progs) [].
  Proof.
    constructor; simpl.
    - intros e [].
    - intros t th c l r H Hph. rewrite nth_error_map in H. destruct (nth_error progs t); try discriminate.
      simpl in H. inversion H; subst. discriminate.
    - reflexivity.
  Qed.

  (* a call that does not hold the write lock leaves the state alone *)
  Lemma not_writer_keeps : forall c, In c (concat progs) -> mode c <> LW ->
    forall n l s, snd (iterM c n l s) = s.
  Proof.
    intros c Hc Hm n l s. destruct (disc c Hc) as [D|[[D1 D2]|[D1 D2]]]; try contradiction.
    - apply iter_readonly. auto.
    - rewrite (iter_pure c D2 n l s s). reflexivity.
  Qed.

  Lemma writer_inside_true : forall (l : list thread) t th,
    nth_error l t = Some th -> in_mode mode LW th = true -> writer_inside mode l = true.
  Proof. intros. unfold writer_inside. apply existsb_nth. eauto. Qed.

  Lemma sem_inv_step : forall C e t th th' C' ord,
    threads_ok C -> excl C -> sem_inv C ord -> tstep C e t th th' C' -> sem_inv C' (ord_after C e ord).
  Proof.
    intros C e t th th' C' ord Hok Hex [S1 S2 S3] H.
    pose proof (tstep_new _ _ _ _ _ _ H) as Hnew.
    pose proof (tstep_other _ _ _ _ _ _ H) as Hoth.
    destruct (tstep_ths _ _ _ _ _ _ H) as [Hold Hths].
    pose proof (nth_error_lt _ _ _ Hold) as Hlt.
    destruct H.
    - (* Invoke *)
      simpl ord_after. constructor; simpl; auto.
      + intros x thx cx lx rx Hx Hph. simpl in Hths.
        apply nth_error_set_nth_inv in Hx. destruct Hx as [[E1 E2]|[E1 Hx]]; [subst; discriminate|]. eauto.
      + intro Hw. apply S3. rewrite <- Hw. symmetry. eapply existsb_set_nth_same; eauto.
        rewrite (in_mode_idle LW th H0). reflexivity.
    - (* Enter *)
      simpl ord_after. rewrite H, H0.
      destruct (th_ok_call t th c (Hok _ _ H) (or_introl H0)) as [_ [Hin _]].
      set (sf := final_of s0 ord) in *.
      assert (F1 : fst (iterM c (len c) (start c) (cur C)) = fst (iterM c (len c) (start c) sf)
                   /\ (mode c = LW -> cur C = sf)).
      { destruct (disc c Hin) as [D|[[D1 D2]|[D1 D2]]].
        - assert (cur C = sf).
          { apply S3. unfold may_enter in H1. rewrite D in H1. apply andb_true_iff in H1.
            destruct H1 as [H1 _]. apply negb_true_iff in H1. auto. }
          split; auto. congruence.
        - assert (cur C = sf).
          { apply S3. unfold may_enter in H1. rewrite D1 in H1. apply negb_true_iff in H1. auto. }
          split; auto. congruence.
        - split; [|congruence]. rewrite (iter_pure c D2 _ _ sf (cur C)). reflexivity. }
      assert (F2 : mode c <> LW -> final_of s0 (ord ++ [((t, pred (ninv th)), c)]) = sf).
      { intro Hm. rewrite final_of_snoc. apply not_writer_keeps; auto. }
      destruct F1 as [F1 F1w].
      constructor; simpl.
      + intros e He. rewrite rets_of_snoc. apply in_or_app. left. auto.
      + intros x thx cx lx rx Hx Hph. rewrite rets_of_snoc.
        apply nth_error_set_nth_inv in Hx. destruct Hx as [[E1 E2]|[E1 Hx]].
        * subst x thx. simpl in Hph. inversion Hph; subst cx lx rx. simpl. split.
          -- apply in_or_app. right. left. fold sf. rewrite F1. reflexivity.
          -- intro Hm. rewrite final_of_snoc. fold sf. rewrite (F1w Hm). reflexivity.
        * destruct (S2 _ _ _ _ _ Hx Hph) as [A B]. split.
          -- apply in_or_app. left. auto.
          -- intro Hm. rewrite (B Hm). symmetry. apply F2.
             intro Hc. assert (Hw : in_mode mode LW thx = true).
             { rewrite (in_mode_run LW thx cx lx rx Hph). rewrite Hm. reflexivity. }
             assert (in_mode mode LW thx = false).
             { eapply may_enter_lock; eauto. congruence. }
             congruence.
      + intro Hw.
        destruct (lockmode_eqb (mode c) LW) eqn:Em.
        * unfold writer_inside in Hw. rewrite existsb_set_nth_true in Hw; try discriminate; auto.
        * assert (Hm : mode c <> LW) by (intro X; rewrite X in Em; discriminate).
          rewrite (F2 Hm). apply S3. rewrite <- Hw. symmetry.
          eapply existsb_set_nth_same; eauto.
          rewrite (in_mode_pend LW th c H0). unfold in_mode. simpl. auto.
    - (* Micro *)
      simpl ord_after.
      destruct (th_ok_call t th c (Hok _ _ H) (or_intror (ex_intro _ l (ex_intro _ (S m) H0)))) as [_ [Hin _]].
      assert (Hkeep : mode c <> LW -> snd (mstep c l (cur C)) = cur C).
      { intro Hm. pose proof (not_writer_keeps c Hin Hm 1 l (cur C)) as X. rewrite iter_S in X. exact X. }
      constructor; simpl; auto.
      + intros x thx cx lx rx Hx Hph.
        apply nth_error_set_nth_inv in Hx. destruct Hx as [[E1 E2]|[E1 Hx]].
        * subst x thx. simpl in Hph. inversion Hph; subst cx lx rx. simpl.
          pose proof (S2 _ _ _ _ _ H H0) as X. rewrite iter_S in X. exact X.
        * destruct (lockmode_eqb (mode c) LW) eqn:Em.
          -- (* the stepping thread is the writer: whoever else is inside holds no lock, hence is stateless *)
             assert (Hw : in_mode mode LW th = true) by (rewrite (in_mode_run LW th c l (S m) H0); auto).
             destruct (Hex t th H Hw x thx (not_eq_sym E1) Hx) as [Nw Nr].
             rewrite (in_mode_run LW thx cx lx rx Hph) in Nw. rewrite (in_mode_run LR thx cx lx rx Hph) in Nr.
             destruct (th_ok_call x thx cx (Hok _ _ Hx) (or_intror (ex_intro _ lx (ex_intro _ rx Hph))))
               as [_ [Hinx _]].
             destruct (disc cx Hinx) as [D|[[D1 D2]|[D1 D2]]];
               try (rewrite D in Nw; discriminate); try (rewrite D1 in Nr; discriminate).
             destruct (S2 _ _ _ _ _ Hx Hph) as [A B].
             rewrite (iter_pure cx D2 rx lx (cur C) (snd (mstep c l (cur C)))). simpl. split; auto.
             intro X. rewrite X in D1. discriminate.
          -- assert (Hm : mode c <> LW) by (intro X; rewrite X in Em; discriminate).
             rewrite (Hkeep Hm). eauto.
      + intro Hw.
        destruct (lockmode_eqb (mode c) LW) eqn:Em.
        * unfold writer_inside in Hw. rewrite existsb_set_nth_true in Hw; try discriminate; auto.
        * assert (Hm : mode c <> LW) by (intro X; rewrite X in Em; discriminate).
          rewrite (Hkeep Hm). apply S3. rewrite <- Hw. symmetry.
          eapply existsb_set_nth_same; eauto.
          rewrite (in_mode_run LW th c l (S m) H0). reflexivity.
    - (* Exit *)
      simpl ord_after.
      destruct (S2 _ _ _ _ _ H H0) as [A B]. simpl in A, B. rewrite H1 in A. simpl in A.
      constructor; simpl.
      + intros e He. apply in_app_or in He. destruct He as [He|[He|[]]]; auto. subst e. simpl. exact A.
      + intros x thx cx lx rx Hx Hph.
        apply nth_error_set_nth_inv in Hx. destruct Hx as [[E1 E2]|[E1 Hx]]; [subst; discriminate|]. eauto.
      + intro Hw.
        destruct (lockmode_eqb (mode c) LW) eqn:Em.
        * apply B. destruct (mode c); simpl in Em; congruence.
        * apply S3. rewrite <- Hw. symmetry. eapply existsb_set_nth_same; eauto.
          rewrite (in_mode_run LW th c l 0 H0). rewrite Em. reflexivity.
  Qed.


  (* ---------------------------------------------------------------- invariant H: the order extends real time *)
  Definition rt_inv (tr : list event) (ord : lin) : Prop :=
    forall a b, In a (map fst ord) -> In b (map fst ord) -> precedes tr a b -> before (map fst ord) a b.

  Lemma rt_inv_step : forall tr C e t th th' C' ord,
    threads_ok C -> ord_inv C ord -> exit_inv tr C -> rt_inv tr ord -> tstep C e t th th' C' ->
    rt_inv (tr ++ [e]) (ord_after C e ord).
  Proof.
    intros tr C e t th th' C' ord Hok [I1 I2 I3 I4] [E1 E2] Hrt H a b Ha Hb Hp.
    destruct (tstep_ths _ _ _ _ _ _ H) as [Hold _].
    apply precedes_snoc in Hp.
    assert (Hcase : (forall x, e <> EEnter x) \/ exists c, e = EEnter t /\ ph th = Pend c /\
                     ord_after C e ord = ord ++ [((t, pred (ninv th)), c)]).
    { destruct H; try (left; intros; discriminate). right. exists c. simpl. rewrite H, H0. auto. }
    destruct Hcase as [Hne | [c [He [Hph Hord]]]].
    - rewrite ord_after_same in * by auto. destruct Hp as [Hp|[Hp1 Hp2]]; auto.
      exfalso. apply I1 in Hb. destruct b as [bt bi]. simpl in Hp1.
      destruct H; try discriminate. inversion Hp1 as [[Et Ei]]. subst bt bi.
      rewrite (entered_iff C t _ th Hold) in Hb. lia.
    - rewrite Hord in *. clear Hord. destruct Hp as [Hp|[Hp1 _]]; [|subst e; discriminate].
      destruct (th_ok_call t th c (Hok _ _ Hold) (or_introl Hph)) as [_ [_ Hpos]].
      rewrite map_app in *. simpl in *.
      assert (Hna : a <> (t, pred (ninv th))).
      { intro X. subst a. apply precedes_exit_in in Hp. simpl in Hp. apply in_completed in Hp.
        apply E1 in Hp. rewrite (exited_iff C t _ th Hold) in Hp. destruct Hp as [_ B].
        rewrite B in Hph by lia. discriminate. }
      apply in_app_or in Ha. destruct Ha as [Ha|[Ha|[]]]; [|congruence].
      apply in_app_or in Hb. destruct Hb as [Hb|[Hb|[]]].
      + apply before_app_r. auto.
      + subst b. apply before_last. auto.
  Qed.

  (* ---------------------------------------------------------------- all invariants of every reachable configuration *)
  Record all_inv (tr : list event) (C : config) (ord : lin) : Prop := {
    ai_ok : threads_ok C; ai_excl : excl C; ai_ord : ord_inv C ord; ai_exit : exit_inv tr C;
    ai_sem : sem_inv C ord; ai_rt : rt_inv tr ord
  }.

  Lemma reach_inv : forall tr C ord, reach tr C ord -> all_inv tr C ord.
  Proof.
    intros tr C ord H. induction H.
    - constructor.
      + apply threads_ok_init.
      + apply excl_init.
      + apply ord_inv_init.
      + apply exit_inv_init.
      + apply sem_inv_init.
      + intros a b [].
    - destruct IHreach as [A1 A2 A3 A4 A5 A6].
      destruct (step_tstep _ _ _ H0) as [t [th [th' T]]].
      constructor.
      + eapply threads_ok_step; eauto.
      + eapply excl_step; eauto.
      + eapply ord_inv_step; eauto.
      + eapply exit_inv_step; eauto.
      + eapply sem_inv_step; eauto.
      + eapply rt_inv_step; eauto.
  Qed.

  Lemma entered_split : forall C id, entered C id <-> exited C id \/ inside C id.
  Proof.
    intros C [t i]. unfold entered, exited, inside. simpl. split.
    - intros [th [H1 [H2 H3]]].
      destruct (Nat.eq_dec (S i) (ninv th)) as [E|E].
      + destruct (ph th) as [|c|c l r] eqn:Hph.
        * left. exists th. auto.
        * exfalso. apply (H3 E c). reflexivity.
        * right. exists th, c, l, r. auto.
      + left. exists th. repeat split; auto. intro. contradiction.
    - intros [[th [H1 [H2 H3]]] | [th [c [l [r [H1 [H2 H3]]]]]]].
      + exists th. repeat split; auto. intros E c Hc. rewrite (H3 E) in Hc. discriminate.
      + exists th. repeat split; auto; try lia. intros _ c' Hc. rewrite H2 in Hc. discriminate.
  Qed.

  (* ================================================================ the theorems *)
  (* exclusion: while a call that holds the write lock is inside, no other lock-holding call is *)
  Theorem exclusion_gen : forall tr C, execM (init s0 progs) tr = Some C ->
    forall t th, nth_error (ths C) t = Some th -> in_mode mode LW th = true ->
    forall t' th', t' <> t -> nth_error (ths C) t' = Some th' ->
      in_mode mode LW th' = false /\ in_mode mode LR th' = false.
  Proof.
    intros tr C H. destruct (exec_reach _ _ H) as [ord R]. clear H.
    induction R.
    - apply excl_init.
    - destruct (step_tstep _ _ _ H) as [t [th [th' T]]]. eapply excl_step; eauto.
  Qed.

  (* linearizability, linearisation point = Enter *)
  Theorem linearizable_gen : forall tr C, execM (init s0 progs) tr = Some C ->
    exists ord : lin, linearization mode start mstep len result s0 progs tr C ord.
  Proof.
    intros tr C H. destruct (exec_reach _ _ H) as [ord R].
    destruct (reach_inv _ _ _ R) as [A1 A2 [I1 I2 I3 I4] [E1 E2] [S1 S2 S3] A6].
    exists ord. unfold linearization. repeat split; auto.
    - intro Hi. apply I1 in Hi. apply entered_split in Hi. rewrite E1. auto.
    - intro Hi. apply I1. apply entered_split. rewrite <- E1. auto.
  Qed.

  (* no dirty read: while a read-locked call is inside, no writer is; the live state is the final state of the
     one-at-a-time run of the calls linearised so far (complete calls only), and the reader's steps keep it *)
  Theorem no_dirty_read_gen : forall tr C, execM (init s0 progs) tr = Some C ->
    forall t th c l r, nth_error (ths C) t = Some th -> ph th = Run c l r -> mode c = LR ->
      writer_inside mode (ths C) = false
      /\ (exists ord : lin, linearization mode start mstep len result s0 progs tr C ord
                            /\ cur C = fst (seqM s0 (map snd ord)))
      /\ (forall l', snd (mstep c l' (cur C)) = cur C).
  Proof.
    intros tr C H t th c l r H0 H1 H2. destruct (exec_reach _ _ H) as [ord R].
    pose proof (reach_inv _ _ _ R) as AI. destruct AI as [A1 A2 _ _ [S1 S2 S3] _].
    assert (Hw : writer_inside mode (ths C) = false).
    { destruct (writer_inside mode (ths C)) eqn:Hw; auto. exfalso.
      unfold writer_inside in Hw. apply existsb_nth in Hw. destruct Hw as [x [thx [Hx Hxw]]].
      destruct (Nat.eq_dec t x) as [E|E].
      - subst x. rewrite H0 in Hx. inversion Hx; subst thx.
        rewrite (in_mode_run LW th c l r H1) in Hxw. rewrite H2 in Hxw. discriminate.
      - destruct (A2 x thx Hx Hxw t th E H0) as [_ Nr].
        rewrite (in_mode_run LR th c l r H1) in Nr. rewrite H2 in Nr. discriminate. }
    split; [exact Hw | split].
    - destruct (linearizable_gen tr C H) as [ord' L]. exists ord'. split; auto.
      destruct L as [_ [_ [_ [_ [_ [_ [_ L]]]]]]]. auto.
    - intro l'.
      destruct (th_ok_call t th c (A1 _ _ H0) (or_intror (ex_intro _ l (ex_intro _ r H1)))) as [_ [Hin _]].
      pose proof (not_writer_keeps c Hin ltac:(congruence) 1 l' (cur C)) as X. rewrite iter_S in X. exact X.
  Qed.
End Lin.

(* ================================================================== from one table record to the machine *)
Lemma text_eqb_eq : forall a b, text_eqb a b = true <-> a = b.
Proof.
  induction a as [|x r IH]; destruct b as [|y s]; simpl; split; intro H; try discriminate; auto.
  - apply andb_true_iff in H. destruct H as [H1 H2]. apply Ascii.eqb_eq in H1. apply IH in H2. congruence.
  - inversion H; subst. rewrite Ascii.eqb_refl. simpl. apply IH. reflexivity.
Qed.

Lemma is_nil_true {A} : forall l : list A, is_nil l = true -> l = [].
Proof. destruct l; simpl; intros; auto; discriminate. Qed.

Lemma wrapper_ok_facts : forall api w t, wrapper_ok api w = true -> w_target w = Some t ->
  known t = true /\ w_name w = t /\ lock_ok (w_mode w) t = true /\ forwards_all w = true
  /\ (returns_value t = true -> w_returns w = true)
  /\ (forall a, find_api api t = Some a -> sig_ok (w_params w) (a_params a) = true).
Proof.
  intros api w t H Ht. unfold wrapper_ok in H. apply is_nil_true in H. unfold wrapper_faults in H. rewrite Ht in H.
  apply app_eq_nil in H. destruct H as [H1 H]. apply app_eq_nil in H. destruct H as [H2 H].
  apply app_eq_nil in H. destruct H as [H3 H]. apply app_eq_nil in H. destruct H as [H4 H].
  apply app_eq_nil in H. destruct H as [H5 H6].
  repeat split.
  - destruct (known t); auto; discriminate.
  - destruct (text_eqb (w_name w) t) eqn:E; try discriminate. apply text_eqb_eq. auto.
  - destruct (lock_ok (w_mode w) t); auto. destruct (w_mode w); discriminate.
  - destruct (forwards_all w); auto; discriminate.
  - intro Hr. rewrite Hr in H5. simpl in H5. destruct (w_returns w); auto; discriminate.
  - intros a Ha. rewrite Ha in H6. destruct (sig_ok (w_params w) (a_params a)); auto; discriminate.
Qed.

(* the discipline as DESIGN.md words it *)
Lemma wrapper_ok_worded : forall api w, wrapper_ok api w = true -> worded_ok w.
Proof.
  intros api w H t Ht. destruct (wrapper_ok_facts api w t H Ht) as [_ [_ [L [F [R _]]]]].
  repeat split; auto.
  unfold lock_ok in L. destruct (w_mode w); auto.
  right. left. split; auto. apply negb_true_iff. auto.
Qed.

Section Table.
  Variables state local ret : Type.
  (* ANY semantics of the Enforcer methods by micro steps on ANY state, keyed by method name ... *)
  Variable mstep : text -> local -> state -> local * state.
  (* ... that respects the hand classification: a method classified non-mutating changes nothing, a method
     classified stateless neither changes nor reads anything (validated dynamically by harness/props/c17.py) *)
  Definition respects_classes : Prop :=
    (forall m, mutating m = false -> forall l s, snd (mstep m l s) = s) /\
    (forall m, stateless m = true -> forall l s s', mstep m l s' = (fst (mstep m l s), s')).

  Lemma find_wrapper_some : forall tbl m w, find_wrapper tbl m = Some w -> In w tbl /\ w_name w = m.
  Proof.
    intros tbl m w H. unfold find_wrapper in H. apply find_some in H. destruct H as [H1 H2].
    split; auto. apply text_eqb_eq. auto.
  Qed.

  Theorem table_disciplined : forall api tbl, forallb (wrapper_ok api) tbl = true -> respects_classes ->
    forall m, callable tbl m = true -> disciplined (table_mode tbl) mstep m.
  Proof.
    intros api tbl Hall [Hr Hp] m Hc. unfold callable in Hc. unfold disciplined, table_mode.
    destruct (find_wrapper tbl m) as [w|] eqn:Hf; try discriminate.
    destruct (find_wrapper_some _ _ _ Hf) as [Hin Hn].
    rewrite forallb_forall in Hall. specialize (Hall w Hin).
    destruct (w_target w) as [t|] eqn:Ht.
    - destruct (wrapper_ok_facts api w t Hall Ht) as [_ [En [L _]]].
      assert (t = m) by congruence. subst t.
      unfold lock_ok in L. destruct (w_mode w).
      + right. left. split; auto. apply Hr. apply negb_true_iff. rewrite <- Hn. auto.
      + left. reflexivity.
      + right. right. split; auto. apply Hp. rewrite <- Hn. auto.
    - simpl in Hc. destruct (w_mode w); simpl in Hc; try discriminate. auto.
  Qed.
End Table.

(* ================================================================== the free instance (the oracle's monitor) *)
Lemma free_disciplined : forall c, (fc_mut c = true -> fc_mode c = LW) -> disciplined fc_mode fmstep c.
Proof.
  intros c H. unfold disciplined, fmstep. destruct (fc_mut c) eqn:Em.
  - left. auto.
  - destruct (fc_mode c) eqn:E.
    + right. left. split; auto.
    + left. auto.
    + right. right. split; auto.
Qed.

Lemma fprogs_modes : forall names c, In c (concat (fprogs names)) -> fc_mut c = true -> fc_mode c = LW.
Proof.
  intros names c H Hm. apply in_concat in H. destruct H as [p [Hp Hc]].
  unfold fprogs in Hp. apply in_map_iff in Hp. destruct Hp as [[t ms] [E _]]. subst p.
  apply in_map_iff in Hc. destruct Hc as [[i m] [E _]]. subst c. simpl in *.
  unfold required_mode. rewrite Hm. reflexivity.
Qed.

(* whatever event sequence the monitor accepts is linearizable in the free model *)
Theorem monitor_linearizable : forall names tr C, fexec (finit (fprogs names)) tr = Some C ->
  exists ord, linearization fc_mode fstart fmstep flen fresult [] (fprogs names) tr C ord.
Proof.
  intros names tr C H. eapply linearizable_gen; eauto.
  intros c Hc. apply free_disciplined. apply fprogs_modes with (names := names). auto.
Qed.

(* without the guard the statement is false: a call that CHANGES the state under the READ lock (build_role_links
   before its repair; a memoising "read" in the implementation) lets a reader return the dirty marker 0, which no
   one-at-a-time run of any selection of the two calls returns *)
From Coq Require Import NArith.
Local Open Scope N_scope.
Definition bad_w : fcall := {| fc_tag := 7; fc_mode := LR; fc_mut := true |}.
Definition a_r : fcall := {| fc_tag := 8; fc_mode := LR; fc_mut := false |}.
Lemma unguarded_refuted :
  exists tr C, fexec (finit [[bad_w]; [a_r]]) tr = Some C
    /\ In [0] (map (fun e => e_ret e) (log C))
    /\ (forall cs, In cs [[bad_w; a_r]; [a_r; bad_w]; [a_r]; [bad_w]; []] -> ~ In [0] (snd (fseq_run [] cs))).
Proof.
  exists [EInvoke 0 0; EInvoke 1 0; EEnter 0; EMicro 0; EEnter 1; EMicro 1; EExit 1 0]. eexists.
  split; [vm_compute; reflexivity | split].
  - vm_compute. auto.
  - intros cs H. simpl in H.
    destruct H as [H|[H|[H|[H|[H|[]]]]]]; subst cs; vm_compute; intuition discriminate.
Qed.
