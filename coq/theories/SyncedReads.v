(* SyncedReads.v — C17: the assumption "memoising reads inside read sections commute" discharged for the pattern role
   manager at the level of call sequences: queries (has_link / get_roles / get_users), although they memoise names
   in the manager (RoleManager._get_role), never change any later answer, and so may be reordered freely among each
   other.  Consequence of C14's order-independence theorem; no new model. *)
From Coq Require Import List NArith Bool.
From PyCasbin Require Import Base RoleGraph PatternRM PatternRMProofs.
Import ListNotations.

Definition is_query (o : pm_op) : bool :=
  match o with PHas _ _ | PRoles _ | PUsers _ => true | _ => false end.

Lemma hist_adds_app h1 h2 : hist_adds (h1 ++ h2) = hist_adds h1 ++ hist_adds h2.
Proof. unfold hist_adds. apply flat_map_app. Qed.

Lemma hist_adds_queries qs : forallb is_query qs = true -> hist_adds qs = [].
Proof.
  induction qs as [|q qs IH]; intro H; [reflexivity|]. cbn [forallb] in H. apply andb_true_iff in H. destruct H as [Hq H].
  unfold hist_adds in *. cbn [flat_map]. rewrite (IH H). destruct q; cbn in Hq; try discriminate; reflexivity.
Qed.

Lemma no_deletes_app h1 h2 : no_deletes (h1 ++ h2) = no_deletes h1 && no_deletes h2.
Proof. unfold no_deletes. apply forallb_app. Qed.

Lemma no_deletes_queries qs : forallb is_query qs = true -> no_deletes qs = true.
Proof.
  induction qs as [|q qs IH]; intro H; [reflexivity|]. cbn [forallb] in H. apply andb_true_iff in H. destruct H as [Hq H].
  unfold no_deletes in *. cbn [forallb]. rewrite (IH H). destruct q; cbn in Hq; try discriminate; reflexivity.
Qed.

(* queries issued in between - by this reader or by any other reader sharing the read section - are invisible to every
   later answer *)
Theorem memoising_reads_invisible mf m h qs a b :
  no_deletes h = true -> forallb is_query qs = true ->
  in_scope mf (h ++ [PHas a b]) = true -> in_scope mf ((h ++ qs) ++ [PHas a b]) = true ->
  fst (pm_has_link mf (pm_run mf (pm_empty m) (h ++ qs)) a b) = fst (pm_has_link mf (pm_run mf (pm_empty m) h) a b).
Proof.
  intros Hd Hq S1 S2. apply order_independent; try assumption.
  - rewrite no_deletes_app, Hd, (no_deletes_queries qs Hq). reflexivity.
  - intro l. rewrite hist_adds_app, (hist_adds_queries qs Hq), app_nil_r. tauto.
Qed.

(* ... and two batches of queries commute: whichever reader's queries ran first, every later answer is the same *)
Theorem memoising_reads_commute mf m h q1 q2 a b :
  no_deletes h = true -> forallb is_query q1 = true -> forallb is_query q2 = true ->
  in_scope mf ((h ++ q1 ++ q2) ++ [PHas a b]) = true -> in_scope mf ((h ++ q2 ++ q1) ++ [PHas a b]) = true ->
  fst (pm_has_link mf (pm_run mf (pm_empty m) (h ++ q1 ++ q2)) a b)
  = fst (pm_has_link mf (pm_run mf (pm_empty m) (h ++ q2 ++ q1)) a b).
Proof.
  intros Hd H1 H2 S1 S2. apply order_independent; try assumption.
  - rewrite !no_deletes_app, Hd, (no_deletes_queries q1 H1), (no_deletes_queries q2 H2). reflexivity.
  - rewrite !no_deletes_app, Hd, (no_deletes_queries q1 H1), (no_deletes_queries q2 H2). reflexivity.
  - intro l. rewrite !hist_adds_app, (hist_adds_queries q1 H1), (hist_adds_queries q2 H2). tauto.
Qed.
