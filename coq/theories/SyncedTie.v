(* SyncedTie.v — C17: kernel-checked facts about the tables regenerated on THIS run by translators/synced.py
   from casbin/synced_enforcer.py (synced_table) and from the four plain enforcer classes (enforcer_api).
   Every `vm_compute. reflexivity.` below is a statement about today's source text: it stops checking as soon as
   a wrapper takes the wrong lock, drops or reorders an argument, drops the delegated value, delegates to a
   differently named method, or the plain API gains a method nobody classified.  Then ./check C17 reports the
   broken theorem and searches for a concrete failing call / schedule on the running code. *)
From Coq Require Import List Bool.
From PyCasbin Require Import Base SyncedBase Synced SyncedProofs.
From PyCasbinGen Require Import SyncedGen.
Import ListNotations.

(* every record of the wrapper table satisfies the lock discipline (Synced.wrapper_ok: fault list empty) *)
Theorem discipline : forallb (wrapper_ok enforcer_api) synced_table = true.
Proof. vm_compute. reflexivity. Qed.

(* the hand classification covers the whole regenerated API ... *)
Theorem api_is_classified : api_classified enforcer_api = true.
Proof. vm_compute. reflexivity. Qed.
(* ... mentions no method that does not exist ... *)
Theorem table_is_exact : table_exact enforcer_api = true.
Proof. vm_compute. reflexivity. Qed.
(* ... and says "returns a value" exactly for the methods whose body has a `return <expr>` *)
Theorem returns_do_agree : returns_agree enforcer_api = true.
Proof. vm_compute. reflexivity. Qed.

(* every public method of the plain Enforcer is wrapped or listed as deliberately unwrapped *)
Theorem unwrapped_are_listed : unwrapped_listed enforcer_api synced_table = true.
Proof. vm_compute. reflexivity. Qed.

(* the discipline as worded in DESIGN.md, for every record *)
Theorem every_wrapper_worded : forall w, In w synced_table -> worded_ok w.
Proof.
  intros w H. apply (wrapper_ok_worded enforcer_api).
  pose proof discipline as D. rewrite forallb_forall in D. auto.
Qed.

Theorem every_wrapper_facts : forall w t, In w synced_table -> w_target w = Some t ->
  known t = true /\ w_name w = t /\ lock_ok (w_mode w) t = true /\ forwards_all w = true
  /\ (returns_value t = true -> w_returns w = true)
  /\ (forall a, find_api enforcer_api t = Some a -> sig_ok (w_params w) (a_params a) = true).
Proof.
  intros w t H Ht. apply (wrapper_ok_facts enforcer_api); auto.
  pose proof discipline as D. rewrite forallb_forall in D. auto.
Qed.

(* with the lock modes of today's table, every callable wrapper is a disciplined call of the machine, for ANY
   semantics of the Enforcer methods that respects the hand classification *)
Theorem synced_disciplined :
  forall (state local : Type) (mstep : text -> local -> state -> local * state),
    respects_classes state local mstep ->
    forall m, callable synced_table m = true -> disciplined (table_mode synced_table) mstep m.
Proof. intros. eapply table_disciplined; eauto. exact discipline. Qed.

(* hence every concurrent execution of SyncedEnforcer calls (as lock-mode-annotated calls of the machine,
   with today's lock modes) is linearizable *)
Theorem synced_linearizable :
  forall (state local ret : Type) (start : text -> local) (mstep : text -> local -> state -> local * state)
         (len : text -> nat) (result : text -> local -> ret),
    respects_classes state local mstep ->
    forall (s0 : state) (progs : list (list text)),
      (forall m, In m (concat progs) -> callable synced_table m = true) ->
      forall tr C, exec (table_mode synced_table) start mstep len result (init s0 progs) tr = Some C ->
        exists ord, linearization (table_mode synced_table) start mstep len result s0 progs tr C ord.
Proof.
  intros state local ret start mstep len result Hr s0 progs Hc tr C H.
  eapply linearizable_gen; eauto.
  intros m Hm. apply synced_disciplined; auto.
Qed.
