(* WrapLang.v — a small language for the RBAC API wrappers of casbin/enforcer.py that change the policy
   (add_role_for_user, delete_role_for_user, delete_roles_for_user, delete_user, delete_role, delete_permission,
   add_permission_for_user, delete_permission_for_user, delete_permissions_for_user, add_role_for_user_in_domain,
   delete_roles_for_user_in_domain) and its interpreter.  translators/rbacapi.py renders the Python source into this syntax on
   every run (coq/gen/RbacApiGen.v); WrapTie.v proves that the interpreter run on the regenerated wrappers computes the
   corresponding steps of Mgmt.step - of which every history theorem of C04 / C06 / C09 / C15 / C20 is made.

   Meaning fixed by the interpreter (trusted): a wrapper is a sequence of calls of the management API on the same enforcer;
   each management call is the Mgmt.step of its operation (add_policy / remove_policy / add_grouping_policy /
   remove_grouping_policy / remove_filtered_policy / remove_filtered_grouping_policy with the positional arguments flattened:
   `*permission` splices a list, util.join_slice(a, *b) is a :: b - checked by the translator to be that); an exception ends the
   wrapper; `x or y` is the first value unless it is False / empty; the adapter and watcher calls of the steps accumulate. *)
From Coq Require Import List NArith Bool.
From PyCasbin Require Import Base Policy RoleGraph Mgmt.
Import ListNotations.
Local Open Scope N_scope.

Inductive wcallee := MAddPolicy | MRemovePolicy | MAddGrouping | MRemoveGrouping | MRemoveFilteredPolicy | MRemoveFilteredGrouping.

(* an argument: a name parameter, a small integer literal, a spliced list parameter, or join_slice(x, *l) as ONE list *)
Inductive warg := WName (x : N) | WIdx (n : nat) | WSplice (x : N) | WJoined (x l : N).

Inductive wst : Type :=
| WAssign (x : N) (m : wcallee) (args : list warg)
| WReturnCall (m : wcallee) (args : list warg)
| WReturnOr (x y : N).

Inductive wval := WVN (n : name) | WVL (l : list name) | WVV (v : val).

Definition wkeyb (a b : N) : bool :=
  match a, b with N0, N0 => true | Npos p, Npos q => Pos.eqb p q | _, _ => false end.
Fixpoint wlookup (x : N) (l : list (N * wval)) : option wval :=
  match l with [] => None | (y, v) :: r => if wkeyb x y then Some v else wlookup x r end.

(* the flattened positional arguments: an optional leading index and the names *)
Fixpoint wflat (loc : list (N * wval)) (args : list warg) : option (option nat * list name) :=
  match args with
  | [] => Some (None, [])
  | a :: r =>
      match wflat loc r with
      | None => None
      | Some (i, ns) =>
          match a with
          | WIdx n => match i, ns with None, _ => Some (Some n, ns) | _, _ => None end
          | WName x => match wlookup x loc with Some (WVN v) => Some (i, v :: ns) | _ => None end
          | WSplice x => match wlookup x loc with Some (WVL l) => Some (i, l ++ ns) | _ => None end
          | WJoined x l => match wlookup x loc, wlookup l loc with
                           | Some (WVN v), Some (WVL vs) => Some (i, (v :: vs) ++ ns)
                           | _, _ => None end
          end
      end
  end.

Definition wop (m : wcallee) (a : option nat * list name) : option op :=
  match m, a with
  | MAddPolicy, (None, r) => Some (OAdd PT_P r)
  | MRemovePolicy, (None, r) => Some (ORemove PT_P r)
  | MAddGrouping, (None, r) => Some (OAdd PT_G r)
  | MRemoveGrouping, (None, r) => Some (ORemove PT_G r)
  | MRemoveFilteredPolicy, (Some i, vs) => Some (ORemoveFiltered PT_P i vs)
  | MRemoveFilteredGrouping, (Some i, vs) => Some (ORemoveFiltered PT_G i vs)
  | _, _ => None
  end.

Record wstate := { w_s : mstate; w_loc : list (N * wval); w_ac : list acall; w_wc : list wcall }.

Section Interp.
  Variable k : mkind.

  Definition wcall_step (st : wstate) (m : wcallee) (args : list warg) : option (wstate * val) :=
    match wflat (w_loc st) args with
    | None => None
    | Some a =>
        match wop m a with
        | None => None
        | Some o => let '(s', out) := step k (w_s st) o in
                    Some ({| w_s := s'; w_loc := w_loc st; w_ac := w_ac st ++ o_acalls out; w_wc := w_wc st ++ o_wcalls out |}, o_val out)
        end
    end.

  (* result: the enforcer afterwards and the wrapper's output (value or exception, adapter and watcher calls) *)
  Fixpoint wrun (st : wstate) (body : list wst) : option (mstate * outp) :=
    match body with
    | [] => Some (w_s st, mkOut (ok (VL [])) (w_ac st) (w_wc st))
    | WAssign x m args :: r =>
        match wcall_step st m args with
        | None => None
        | Some (st', v) =>
            if is_err v then Some (w_s st', mkOut v (w_ac st') (w_wc st'))
            else wrun {| w_s := w_s st'; w_loc := (x, WVV v) :: w_loc st'; w_ac := w_ac st'; w_wc := w_wc st' |} r
        end
    | WReturnCall m args :: _ =>
        match wcall_step st m args with
        | None => None
        | Some (st', v) => Some (w_s st', mkOut v (w_ac st') (w_wc st'))
        end
    | WReturnOr x y :: _ =>
        match wlookup x (w_loc st), wlookup y (w_loc st) with
        | Some (WVV a), Some (WVV b) => Some (w_s st, mkOut (or_val a b) (w_ac st) (w_wc st))
        | _, _ => None
        end
    end.

  Definition wrapper (body : list wst) (s : mstate) (params : list (N * wval)) : option (mstate * outp) :=
    wrun {| w_s := s; w_loc := params; w_ac := []; w_wc := [] |} body.
End Interp.
