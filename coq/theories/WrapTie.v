(* WrapTie.v — the policy-changing RBAC API wrappers regenerated from casbin/enforcer.py on this run (coq/gen/RbacApiGen.v),
   executed by the interpreter of WrapLang.v, compute the corresponding steps of Mgmt.step - for every kind of model, every
   enforcer state and every argument. *)
From Coq Require Import List NArith Bool.
From PyCasbin Require Import Base Policy RoleGraph Mgmt WrapLang.
From PyCasbinGen Require Import RbacApiGen.
Import ListNotations.
Local Open Scope N_scope.

Ltac wstart g :=
  unfold wrapper; let b := eval lazy in g in change g with b;
  match goal with |- ?l = _ => let v := eval lazy -[step is_err or_val app] in l in change l with v end.

Ltac wnorm := cbn [step]; unfold has_pt, is_g, PT_P, PT_G; cbn [N.eqb Pos.eqb negb]; cbv beta iota.
Ltac wone := match goal with |- context [step ?k ?s ?o] => destruct (step k s o) as [s' [v ac wc]] end; reflexivity.

Lemma one_call (x : mstate * outp) loc :
  match (let '(s', out) := x in
         Some ({| w_s := s'; w_loc := loc; w_ac := [] ++ o_acalls out; w_wc := [] ++ o_wcalls out |}, o_val out))
  with Some (st', v) => Some (w_s st', mkOut v (w_ac st') (w_wc st')) | None => None end = Some x.
Proof. destruct x as [s' [v a w]]; reflexivity. Qed.

Lemma out_eta (o : outp) : mkOut (o_val o) (o_acalls o) (o_wcalls o) = o.
Proof. destruct o; reflexivity. Qed.

Theorem tie_add_role_for_user k s u r :
  wrapper k add_role_for_user_gen s [(w0_user, WVN u); (w0_role, WVN r)] = Some (step k s (OAddRoleForUser u r)).
Proof.
  wstart add_role_for_user_gen. wnorm.
  destruct (k_g k); cbn [negb]; [apply one_call | reflexivity].
Qed.

Theorem tie_delete_role_for_user k s u r :
  wrapper k delete_role_for_user_gen s [(w1_user, WVN u); (w1_role, WVN r)] = Some (step k s (ODeleteRoleForUser u r)).
Proof.
  wstart delete_role_for_user_gen. wnorm.
  destruct (k_g k); cbn [negb]; [apply one_call | reflexivity].
Qed.

Theorem tie_delete_roles_for_user k s u :
  wrapper k delete_roles_for_user_gen s [(w2_user, WVN u)] = Some (step k s (ODeleteRolesForUser u)).
Proof.
  wstart delete_roles_for_user_gen. wnorm.
  destruct (k_g k); cbn [negb]; [apply one_call | reflexivity].
Qed.

Theorem tie_delete_permission k s vs :
  wrapper k delete_permission_gen s [(w5_permission, WVL vs)] = Some (step k s (ODeletePermission vs)).
Proof.
  wstart delete_permission_gen. rewrite app_nil_r. wnorm.
  apply one_call.
Qed.

Theorem tie_add_permission_for_user k s u vs :
  wrapper k add_permission_for_user_gen s [(w6_user, WVN u); (w6_permission, WVL vs)] = Some (step k s (OAddPermissionForUser u vs)).
Proof.
  wstart add_permission_for_user_gen. rewrite app_nil_r. wnorm.
  apply one_call.
Qed.

Theorem tie_delete_permission_for_user k s u vs :
  wrapper k delete_permission_for_user_gen s [(w7_user, WVN u); (w7_permission, WVL vs)] = Some (step k s (ODeletePermissionForUser u vs)).
Proof.
  wstart delete_permission_for_user_gen. rewrite app_nil_r. wnorm.
  apply one_call.
Qed.

Theorem tie_delete_permissions_for_user k s u :
  wrapper k delete_permissions_for_user_gen s [(w8_user, WVN u)] = Some (step k s (ODeletePermissionsForUser u)).
Proof.
  wstart delete_permissions_for_user_gen. wnorm.
  apply one_call.
Qed.

Theorem tie_add_role_for_user_in_domain k s u r d :
  wrapper k add_role_for_user_in_domain_gen s [(w9_user, WVN u); (w9_role, WVN r); (w9_domain, WVN d)]
  = Some (step k s (OAddRoleForUserInDomain u r d)).
Proof.
  wstart add_role_for_user_in_domain_gen. wnorm.
  destruct (k_g k); cbn [negb]; [apply one_call | reflexivity].
Qed.

Theorem tie_delete_roles_for_user_in_domain k s u r d :
  wrapper k delete_roles_for_user_in_domain_gen s [(w10_user, WVN u); (w10_role, WVN r); (w10_domain, WVN d)]
  = Some (step k s (ODeleteRolesForUserInDomain u r d)).
Proof.
  wstart delete_roles_for_user_in_domain_gen. wnorm.
  destruct (k_g k); cbn [negb]; [apply one_call | reflexivity].
Qed.

(* the two-call wrappers: delete_user, delete_role *)
Lemma seq2_ext s f1 f2 g1 g2 : (forall x, f1 x = g1 x) -> (forall x, f2 x = g2 x) -> seq2 s f1 f2 = seq2 s g1 g2.
Proof.
  intros H1 H2. unfold seq2. rewrite H1. destruct (g1 s) as [s1 o1]. destruct (is_err (o_val o1)); [reflexivity|].
  rewrite H2. reflexivity.
Qed.

Lemma wrun_two k s loc x y m1 a1 m2 a2 f1 f2 o1 o2 :
  wkeyb x y = false -> wkeyb y x = false -> wkeyb x x = true -> wkeyb y y = true ->
  wflat loc a1 = Some f1 -> wop m1 f1 = Some o1 ->
  (forall v, wflat ((x, WVV v) :: loc) a2 = Some f2) -> wop m2 f2 = Some o2 ->
  wrapper k [WAssign x m1 a1; WAssign y m2 a2; WReturnOr x y] s loc
  = Some (seq2 s (fun s0 => step k s0 o1) (fun s0 => step k s0 o2)).
Proof.
  intros Hxy Hyx Hxx Hyy F1 O1 F2 O2. unfold wrapper, seq2. cbn [wrun]. unfold wcall_step at 1. cbn [w_loc w_s w_ac w_wc]. rewrite F1, O1.
  destruct (step k s o1) as [s1 [v1 ac1 wc1]]. cbn [o_val o_acalls o_wcalls w_loc w_s w_ac w_wc app].
  destruct (is_err v1); [reflexivity|].
  cbn [wrun]. unfold wcall_step at 1. cbn [w_loc w_s w_ac w_wc]. rewrite (F2 v1), O2.
  destruct (step k s1 o2) as [s2 [v2 ac2 wc2]]. cbn [o_val o_acalls o_wcalls w_loc w_s w_ac w_wc app].
  destruct (is_err v2); [reflexivity|].
  cbn [wrun wlookup w_loc w_s w_ac w_wc]. rewrite Hxy, Hyy, Hxx. reflexivity.
Qed.

Theorem tie_delete_user k s u :
  wrapper k delete_user_gen s [(w3_user, WVN u)] = Some (step k s (ODeleteUser u)).
Proof.
  let b := eval lazy in delete_user_gen in change delete_user_gen with b.
  rewrite (wrun_two k s _ _ _ _ _ _ _ (Some 0%nat, [u]) (Some 0%nat, [u]) (ORemoveFiltered PT_G 0 [u]) (ORemoveFiltered PT_P 0 [u]));
    try reflexivity.
  f_equal. cbn [step]. apply seq2_ext; intro x; cbn [step]; unfold has_pt, is_g, PT_P, PT_G; cbn [N.eqb Pos.eqb negb];
    [destruct (k_g k); reflexivity | reflexivity].
Qed.

Theorem tie_delete_role k s r :
  wrapper k delete_role_gen s [(w4_role, WVN r)] = Some (step k s (ODeleteRole r)).
Proof.
  let b := eval lazy in delete_role_gen in change delete_role_gen with b.
  rewrite (wrun_two k s _ _ _ _ _ _ _ (Some 1%nat, [r]) (Some 0%nat, [r]) (ORemoveFiltered PT_G 1 [r]) (ORemoveFiltered PT_P 0 [r]));
    try reflexivity.
  f_equal. cbn [step]. apply seq2_ext; intro x; cbn [step]; unfold has_pt, is_g, PT_P, PT_G; cbn [N.eqb Pos.eqb negb];
    [destruct (k_g k); reflexivity | reflexivity].
Qed.
