"""A synchronous facade over casbin.AsyncEnforcer so that the management-history harness (harness/mgmt.py, written
for the sync API) can drive the async enforcer: every coroutine returned by a call is run to completion on one
private event loop ("each call awaited"), and a sync recording adapter / watcher is presented to the async
enforcer through awaitable shims."""
import asyncio
import inspect

import casbin

_LOOP = None


def loop():
    global _LOOP
    if _LOOP is None or _LOOP.is_closed():
        _LOOP = asyncio.new_event_loop()
    return _LOOP


def run(x):
    if inspect.isawaitable(x):
        return loop().run_until_complete(x)
    return x


class AsyncAdapterShim:
    """awaitable view of a synchronous adapter (same method names, same exceptions)"""

    def __init__(self, inner):
        object.__setattr__(self, "_inner", inner)

    def __getattr__(self, name):
        attr = getattr(self._inner, name)          # AttributeError propagates: hasattr() probes stay truthful
        if not callable(attr) or name == "is_filtered":
            return attr

        async def call(*a, **k):
            return attr(*a, **k)
        return call

    def __setattr__(self, name, value):
        setattr(self._inner, name, value)


class AsyncFacade:
    def __init__(self, model=None, adapter=None, **kw):
        object.__setattr__(self, "_e", casbin.AsyncEnforcer(model, AsyncAdapterShim(adapter) if adapter is not None else None, **kw))

    def set_adapter(self, adapter):
        self._e.set_adapter(AsyncAdapterShim(adapter) if adapter is not None else None)

    def __getattr__(self, name):
        attr = getattr(self._e, name)
        if not callable(attr) or inspect.isclass(attr):
            return attr

        def call(*a, **k):
            return run(attr(*a, **k))
        return call

    def __setattr__(self, name, value):
        setattr(self._e, name, value)


# ----------------------------------------------------------------------------- probes placed between an enforcer and its
# recording watcher / adapter (used by C20, C11, C09; work for casbin.Enforcer and for the facade alike)
WATCHER_CALLBACKS = ("update", "update_for_add_policy", "update_for_remove_policy", "update_for_remove_filtered_policy",
                     "update_for_save_policy", "update_for_add_policies", "update_for_remove_policies",
                     "update_for_update_policy", "update_for_update_policies")


def unwrap(x):
    """the innermost object behind AsyncAdapterShim / RefusingAdapter / WatcherProxy wrappers"""
    while x is not None and "_inner" in getattr(x, "__dict__", {}):
        x = x.__dict__["_inner"]
    return x


def snapshot(e):
    """what an observer sees of enforcer `e` right now: the stored rules per policy type and the rows its (recording)
    adapter holds - plain strings, in stored order"""
    mem = {}
    for sec in ("p", "g"):
        for key, ast in (e.model.model.get(sec) or {}).items():
            mem[key] = [list(r) for r in ast.policy]
    ad = unwrap(getattr(e, "adapter", None))
    rows = [(pt, list(r)) for pt, r in getattr(ad, "rows", [])] if ad is not None else []
    return dict(mem=mem, rows=rows)


class WatcherProxy:
    """offers exactly the callbacks the inner (recording) watcher offers; each one first calls on_notify(name) - e.g. to
    look at the enforcer at the moment the notification is issued - and then the inner callback.
    coro=True: the update_for_* callbacks are coroutine functions that give the loop one turn before they record
    (update() stays a plain function, as in casbin.persist.Watcher)."""

    def __init__(self, inner, on_notify=None, coro=False):
        self.__dict__["_inner"] = inner
        for n in WATCHER_CALLBACKS:
            f = getattr(inner, n, None)
            if callable(f):
                self.__dict__[n] = self._wrap(n, f, on_notify, coro and n != "update")

    @staticmethod
    def _wrap(name, f, on_notify, as_coro):
        if as_coro:
            async def cb(*a, **k):
                if on_notify:
                    on_notify(name)
                await asyncio.sleep(0)
                return f(*a, **k)
        else:
            def cb(*a, **k):
                if on_notify:
                    on_notify(name)
                return f(*a, **k)
        return cb

    def set_update_callback(self, cb):
        return self._inner.set_update_callback(cb)


class RefusingAdapter:
    """an adapter that REFUSES some of its calls: a method named in `refuse` changes nothing, records nothing and returns
    False (the documented way for an adapter to say "not stored"); every other attribute is the inner adapter's"""

    def __init__(self, inner, refuse=()):
        self.__dict__["_inner"] = inner
        self.__dict__["_refuse"] = frozenset(refuse)

    def __getattr__(self, name):
        attr = getattr(self._inner, name)
        if name in self._refuse and callable(attr):
            return lambda *a, **k: False
        return attr

    def __setattr__(self, name, value):
        setattr(self._inner, name, value)


def _note_snapshot(e, inner_watcher):
    def on_notify(name):
        if not hasattr(inner_watcher, "snaps"):
            inner_watcher.snaps = []
        inner_watcher.snaps.append(snapshot(e))
    return on_notify


def probed_enforcer(is_async=False, coro=False, refuse=()):
    """an enforcer class for mgmt.Impl(enforcer_cls=...): casbin.Enforcer (or the facade over casbin.AsyncEnforcer) whose
    set_watcher puts a WatcherProxy in front of the recording watcher - it appends snapshot(enforcer) to the recording
    watcher's `snaps` at every notification - and whose set_adapter puts a RefusingAdapter in front of the adapter"""
    if is_async:
        class Probed(AsyncFacade):
            def set_adapter(self, adapter):
                a = RefusingAdapter(adapter, refuse) if (adapter is not None and refuse) else adapter
                self._e.set_adapter(AsyncAdapterShim(a) if a is not None else None)

            def set_watcher(self, w):
                self._e.set_watcher(WatcherProxy(w, _note_snapshot(self._e, w), coro) if w is not None else None)
    else:
        class Probed(casbin.Enforcer):
            def set_adapter(self, adapter):
                super().set_adapter(RefusingAdapter(adapter, refuse) if (adapter is not None and refuse) else adapter)

            def set_watcher(self, w):
                super().set_watcher(WatcherProxy(w, _note_snapshot(self, w), False) if w is not None else None)
    Probed.__name__ = "Probed" + ("AsyncEnforcer" if is_async else "Enforcer")
    return Probed
