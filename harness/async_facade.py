"""A synchronous facade over casbin.AsyncEnforcer so that the management-history harness (harness/mgmt.py, written
for the sync API) can drive the async enforcer: every coroutine returned by a call is run to completion on one
private event loop ("each call awaited"), and a sync recording adapter / watcher is presented to the async
enforcer through awaitable shims."""
import asyncio
import inspect

import casbin

_LOOP = None


def loop():
    global _LOOP
    if _LOOP is None or _LOOP.is_closed():
        _LOOP = asyncio.new_event_loop()
    return _LOOP


def run(x):
    if inspect.isawaitable(x):
        return loop().run_until_complete(x)
    return x


class AsyncAdapterShim:
    """awaitable view of a synchronous adapter (same method names, same exceptions)"""

    def __init__(self, inner):
        object.__setattr__(self, "_inner", inner)

    def __getattr__(self, name):
        attr = getattr(self._inner, name)          # AttributeError propagates: hasattr() probes stay truthful
        if not callable(attr) or name == "is_filtered":
            return attr

        async def call(*a, **k):
            return attr(*a, **k)
        return call

    def __setattr__(self, name, value):
        setattr(self._inner, name, value)


class AsyncFacade:
    def __init__(self, model=None, adapter=None, **kw):
        object.__setattr__(self, "_e", casbin.AsyncEnforcer(model, AsyncAdapterShim(adapter) if adapter is not None else None, **kw))

    def set_adapter(self, adapter):
        self._e.set_adapter(AsyncAdapterShim(adapter) if adapter is not None else None)

    def __getattr__(self, name):
        attr = getattr(self._e, name)
        if not callable(attr) or inspect.isclass(attr):
            return attr

        def call(*a, **k):
            return run(attr(*a, **k))
        return call

    def __setattr__(self, name, value):
        setattr(self._e, name, value)
