"""C18 differential machinery: in-memory recording adapters / watchers in a sync and an async
flavour, a history runner for Enforcer vs AsyncEnforcer (every call awaited, one event loop), the
history generator and the shrinker.  Everything a case needs is plain JSON data (exact replays)."""
import asyncio
import copy
import gc
import inspect
import json
import warnings

import casbin
from casbin.persist.adapter import Adapter
from casbin.persist.adapter_filtered import FilteredAdapter
from casbin.persist.batch_adapter import BatchAdapter
from casbin.persist.update_adapter import UpdateAdapter
from casbin.persist.adapters.asyncio import (AsyncAdapter, AsyncBatchAdapter, AsyncFilteredAdapter,
                                             AsyncUpdateAdapter)

# ----------------------------------------------------------------------------------- models
ACL = """
[request_definition]
r = sub, obj, act
[policy_definition]
p = sub, obj, act
[policy_effect]
e = some(where (p.eft == allow))
[matchers]
m = r.sub == p.sub && r.obj == p.obj && r.act == p.act
"""
RBAC = """
[request_definition]
r = sub, obj, act
[policy_definition]
p = sub, obj, act
[role_definition]
g = _, _
[policy_effect]
e = some(where (p.eft == allow))
[matchers]
m = g(r.sub, p.sub) && r.obj == p.obj && r.act == p.act
"""
DOM = """
[request_definition]
r = sub, dom, obj, act
[policy_definition]
p = sub, dom, obj, act
[role_definition]
g = _, _, _
[policy_effect]
e = some(where (p.eft == allow))
[matchers]
m = g(r.sub, p.sub, r.dom) && r.dom == p.dom && r.obj == p.obj && r.act == p.act
"""
# conditional role links (examples/rbac_with_temporal_roles_model.conf): outside the property's
# stated model classes, kept as a small stratum because the twins differ(ed) there (F16)
COND = """
[request_definition]
r = sub, obj, act
[policy_definition]
p = sub, obj, act
[role_definition]
g = _, _, (_, _)
[policy_effect]
e = some(where (p.eft == allow))
[matchers]
m = g(r.sub, p.sub) && r.obj == p.obj && r.act == p.act
"""
MODELS = dict(acl=ACL, rbac=RBAC, dom=DOM, cond=COND)

USERS = ["alice", "bob", "carol"]
ROLES = ["admin", "editor"]
OBJS = ["data1", "data2"]
ACTS = ["read", "write"]
DOMS = ["dom1", "dom2"]

COND_FUNCS = {
    "always": lambda *a: True,
    "never": lambda *a: False,
    "first_is_yes": lambda *a: bool(a) and a[0] == "yes",
}


def new_model(kind):
    m = casbin.Model()
    m.load_model_from_text(MODELS[kind])
    return m


# ----------------------------------------------------------------------------------- adapters
class AdapterFail(Exception):
    pass


class Store:
    """the storage behind one adapter: lines [ptype, v1, ...], a call log, a one-shot behaviour
    switch for the next call (ok | false | raise)"""

    def __init__(self, lines):
        self.lines = [list(l) for l in lines]
        self.log = []
        self.filtered = False
        self.mode = "ok"

    def gate(self):
        m, self.mode = self.mode, "ok"
        if m == "raise":
            raise AdapterFail("injected adapter failure")
        return m == "false"

    @staticmethod
    def _snapshot(model):
        out = []
        for sec in ("p", "g"):
            if sec in model.model.keys():
                for ptype, ast in model.model[sec].items():
                    for r in ast.policy:
                        out.append([ptype] + list(r))
        return out

    def do_load_policy(self, model):
        self.log.append(["load_policy"])
        if self.gate():
            return False
        self.filtered = False
        for l in self.lines:
            sec = l[0][0]
            if sec in model.model.keys() and l[0] in model.model[sec].keys():
                model.model[sec][l[0]].policy.append(list(l[1:]))

    def do_save_policy(self, model):
        snap = self._snapshot(model)
        self.log.append(["save_policy", snap])
        if self.gate():
            return False
        self.lines = copy.deepcopy(snap)

    def do_add_policy(self, sec, ptype, rule):
        self.log.append(["add_policy", sec, ptype, list(rule)])
        if self.gate():
            return False
        self.lines.append([ptype] + list(rule))

    def do_remove_policy(self, sec, ptype, rule):
        self.log.append(["remove_policy", sec, ptype, list(rule)])
        if self.gate():
            return False
        l = [ptype] + list(rule)
        if l in self.lines:
            self.lines.remove(l)

    @staticmethod
    def _match(line, ptype, field_index, field_values):
        if line[0] != ptype:
            return False
        rule = line[1:]
        if field_index + len(field_values) > len(rule):
            return False
        return all(v == "" or rule[field_index + i] == v for i, v in enumerate(field_values))

    def do_remove_filtered_policy(self, sec, ptype, field_index, *field_values):
        self.log.append(["remove_filtered_policy", sec, ptype, field_index, list(field_values)])
        if self.gate():
            return False
        self.lines = [l for l in self.lines if not self._match(l, ptype, field_index, field_values)]

    def do_add_policies(self, sec, ptype, rules):
        self.log.append(["add_policies", sec, ptype, [list(r) for r in rules]])
        if self.gate():
            return False
        for r in rules:
            self.lines.append([ptype] + list(r))

    def do_remove_policies(self, sec, ptype, rules):
        self.log.append(["remove_policies", sec, ptype, [list(r) for r in rules]])
        if self.gate():
            return False
        for r in rules:
            l = [ptype] + list(r)
            if l in self.lines:
                self.lines.remove(l)

    def do_update_policy(self, sec, ptype, old_rule, new_rule):
        self.log.append(["update_policy", sec, ptype, list(old_rule), list(new_rule)])
        if self.gate():
            return False
        l = [ptype] + list(old_rule)
        if l in self.lines:
            self.lines[self.lines.index(l)] = [ptype] + list(new_rule)

    def do_update_policies(self, sec, ptype, old_rules, new_rules):
        self.log.append(["update_policies", sec, ptype, [list(r) for r in old_rules], [list(r) for r in new_rules]])
        if self.gate():
            return False
        for o, n in zip(old_rules, new_rules):
            l = [ptype] + list(o)
            if l in self.lines:
                self.lines[self.lines.index(l)] = [ptype] + list(n)

    def do_update_filtered_policies(self, sec, ptype, new_rules, field_index, *field_values):
        self.log.append(["update_filtered_policies", sec, ptype, [list(r) for r in new_rules], field_index,
                         list(field_values)])
        if self.gate():
            return False
        old = [l[1:] for l in self.lines if self._match(l, ptype, field_index, field_values)]
        self.lines = [l for l in self.lines if not self._match(l, ptype, field_index, field_values)]
        for r in new_rules:
            self.lines.append([ptype] + list(r))
        return old

    def do_is_filtered(self):
        return self.filtered

    def do_load_filtered_policy(self, model, filter):
        self.log.append(["load_filtered_policy", copy.deepcopy(filter)])
        if self.gate():
            return False
        self.filtered = True
        for l in self.lines:
            want = filter.get(l[0])
            if want is None:
                continue
            if not all(w == "" or (i < len(l) - 1 and l[1 + i] == w) for i, w in enumerate(want)):
                continue
            sec = l[0][0]
            if sec in model.model.keys() and l[0] in model.model[sec].keys():
                model.model[sec][l[0]].policy.append(list(l[1:]))


BASIC = ["load_policy", "save_policy", "add_policy", "remove_policy", "remove_filtered_policy"]
BATCH = ["add_policies", "remove_policies"]
UPDATE = ["update_policy", "update_policies", "update_filtered_policies"]
FILTERED = ["is_filtered", "load_filtered_policy"]
KIND_METHODS = dict(basic=BASIC, full=BASIC + BATCH + UPDATE, filtered=BASIC + BATCH + UPDATE + FILTERED,
                    filtered_plain=BASIC + BATCH + UPDATE + FILTERED)
SYNC_BASES = dict(basic=(Adapter,), full=(BatchAdapter, UpdateAdapter), filtered=(FilteredAdapter, BatchAdapter, UpdateAdapter))
SYNC_BASES["filtered_plain"] = SYNC_BASES["filtered"]
ASYNC_BASES = dict(basic=(AsyncAdapter,), full=(AsyncAdapter, AsyncBatchAdapter, AsyncUpdateAdapter),
                   filtered=(AsyncAdapter, AsyncBatchAdapter, AsyncUpdateAdapter, AsyncFilteredAdapter))
# "filtered": every method exactly as the interface declares it.  "filtered_plain": is_filtered is a
# plain function whatever the interface says (how the published async adapters implement it).
ASYNC_BASES["filtered_plain"] = ASYNC_BASES["filtered"]


def _sync_method(name):
    def f(self, *a):
        return getattr(self.store, "do_" + name)(*a)
    f.__name__ = name
    return f


def _async_method(name):
    async def f(self, *a):
        await asyncio.sleep(0)          # a real suspension point: the call completes only when awaited
        r = getattr(self.store, "do_" + name)(*a)
        await asyncio.sleep(0)
        return r
    f.__name__ = name
    return f


def declared_async(bases, name):
    """is `name` declared `async def` by the async adapter interfaces OF THE TREE UNDER TEST?"""
    for b in bases:
        if name in b.__dict__:
            return inspect.iscoroutinefunction(b.__dict__[name])
    return True


def make_adapter(kind, lines, is_async):
    """an equivalent pair member: same storage logic; the async one implements each interface method
    exactly as the interface declares it (coroutine iff declared `async def`)"""
    if kind == "none":
        return None
    store = Store(lines)
    ns = {}
    bases = ASYNC_BASES[kind] if is_async else SYNC_BASES[kind]
    for m in KIND_METHODS[kind]:
        as_coro = is_async and declared_async(bases, m) and not (kind == "filtered_plain" and m == "is_filtered")
        ns[m] = _async_method(m) if as_coro else _sync_method(m)
    cls = type(("AsyncMem_" if is_async else "SyncMem_") + kind, bases, ns)
    a = cls()
    a.store = store
    return a


# ----------------------------------------------------------------------------------- watchers
# WatcherEx + WatcherUpdatable callbacks (a callback the code under test never looks up is simply unused)
EX_CALLBACKS = ["update_for_add_policy", "update_for_remove_policy", "update_for_remove_filtered_policy",
                "update_for_save_policy", "update_for_add_policies", "update_for_remove_policies",
                "update_for_update_policy", "update_for_update_policies"]
WATCHER_KINDS = dict(none=None, plain=[], ex=EX_CALLBACKS,
                     ex_partial=["update_for_add_policy", "update_for_remove_policies", "update_for_save_policy",
                                 "update_for_update_policy"])


def _jsonable(x):
    if isinstance(x, (list, tuple)):
        return [_jsonable(y) for y in x]
    if isinstance(x, (str, int, bool)) or x is None:
        return x
    if isinstance(x, casbin.Model):
        return ["<model>", Store._snapshot(x)]
    return f"<{type(x).__name__}>"


def make_watcher(kind, coro):
    """plain Watcher (update only) or WatcherEx-like; `coro`: the update_for_* callbacks are coroutine
    functions (async side only).  update() itself is a plain function, as in casbin.persist.Watcher."""
    cbs = WATCHER_KINDS[kind]
    if cbs is None:
        return None

    class W:
        def __init__(self):
            self.events = []
            self.callback = None

        def set_update_callback(self, cb):
            self.callback = cb

        def update(self, *a):
            self.events.append(["update"] + _jsonable(a))
            return True

    def plain(name):
        def f(self, *a):
            self.events.append([name] + _jsonable(a))
            return True
        return f

    def coro_cb(name):
        async def f(self, *a):
            await asyncio.sleep(0)
            self.events.append([name] + _jsonable(a))
            return True
        return f

    for n in cbs:
        setattr(W, n, coro_cb(n) if coro else plain(n))
    return W()


# ----------------------------------------------------------------------------------- canonical results
# results whose order comes from iterating a Python set (Role.roles / Role.users hold Role objects hashed
# by memory address, so the order differs between two runs of the SAME class): compared as sorted lists
SORTED_RESULTS = {"get_roles_for_user", "get_users_for_role", "get_roles_for_user_in_domain",
                  "get_users_for_role_in_domain", "get_all_roles_by_domain", "get_implicit_roles_for_user",
                  "get_implicit_users_for_resource", "get_implicit_users_for_resource_by_domain",
                  # concatenation per role in BFS order over Role.roles, a set of objects hashed by address:
                  "get_implicit_permissions_for_user", "get_named_implicit_permissions_for_user"}


def canon_value(v):
    if isinstance(v, bool) or v is None or isinstance(v, (int, str)):
        return v
    if isinstance(v, (list, tuple)):
        return [canon_value(x) for x in v]
    if isinstance(v, (set, frozenset)):
        return sorted((canon_value(x) for x in v), key=repr)
    if inspect.iscoroutine(v):
        v.close()
        return "<coroutine (not a result)>"
    return f"<{type(v).__name__}>"


def canon_result(name, v):
    c = canon_value(v)
    if name in SORTED_RESULTS and isinstance(c, list):
        return sorted(c, key=repr)
    return c


def request_universe(kind):
    subs = USERS + ROLES[:1]
    if kind == "dom":
        return [[s, d, o, a] for s in subs for d in DOMS for o in OBJS for a in ACTS]
    return [[s, o, a] for s in subs for o in OBJS for a in ACTS]


# ----------------------------------------------------------------------------------- running one case
HARNESS_OPS = {"adapter_mode", "cond_func", "cond_params"}


def _prep(case, is_async):
    model = new_model(case["model"])
    adapter = make_adapter(case["adapter"], case["lines"], is_async)
    watcher = make_watcher(case["watcher"], bool(case.get("coro")) and is_async)
    return model, adapter, watcher


def _final(e, case, adapter, watcher):
    fin = {}
    pol = {}
    for sec in ("p", "g"):
        if sec in e.model.model.keys():
            for ptype in e.model.model[sec].keys():
                pol[ptype] = canon_value(e.model.get_policy(sec, ptype))
    fin["policy"] = pol
    dec = []
    for req in request_universe(case["model"]):
        try:
            dec.append(bool(e.enforce(*req)))
        except Exception as ex:          # noqa
            dec.append(type(ex).__name__)
    fin["decisions"] = dec
    fin["adapter_store"] = copy.deepcopy(adapter.store.lines) if adapter is not None else None
    fin["adapter_log"] = copy.deepcopy(adapter.store.log) if adapter is not None else None
    fin["watcher_log"] = copy.deepcopy(watcher.events) if watcher is not None else None
    return fin


def _harness_op(e, adapter, op):
    if op[0] == "adapter_mode":
        if adapter is not None:
            adapter.store.mode = op[1]
        return None
    if op[0] == "cond_func":
        return e.add_named_link_condition_func(op[1], op[2], op[3], COND_FUNCS[op[4]])
    if op[0] == "cond_params":
        return e.set_named_link_condition_func_params(op[1], op[2], op[3], *op[4])
    raise ValueError(op[0])


def _marks(adapter, watcher):
    return (len(adapter.store.log) if adapter is not None else 0, len(watcher.events) if watcher is not None else 0)


def _step_obs(name, outcome, adapter, watcher, marks):
    return dict(result=outcome,
                adapter_calls=copy.deepcopy(adapter.store.log[marks[0]:]) if adapter is not None else [],
                watcher_events=copy.deepcopy(watcher.events[marks[1]:]) if watcher is not None else [])


def run_sync(case):
    model, adapter, watcher = _prep(case, False)
    steps = []
    try:
        e = casbin.Enforcer(model, adapter)
    except Exception as ex:                  # noqa
        return dict(construct=type(ex).__name__, steps=[], final=None)
    construct = dict(adapter_calls=copy.deepcopy(adapter.store.log) if adapter is not None else [])
    if watcher is not None:
        e.set_watcher(watcher)
    for op in case["ops"]:
        marks = _marks(adapter, watcher)
        args = copy.deepcopy(op[1:])
        try:
            if op[0] in HARNESS_OPS:
                r = _harness_op(e, adapter, op)
            else:
                r = getattr(e, op[0])(*args)
            out = ["ok", canon_result(op[0], r)]
        except Exception as ex:              # noqa
            out = ["exc", type(ex).__name__]
        steps.append(_step_obs(op[0], out, adapter, watcher, marks))
    return dict(construct=construct, steps=steps, final=_final(e, case, adapter, watcher))


async def _run_async(case):
    model, adapter, watcher = _prep(case, True)
    steps = []
    try:
        e = casbin.AsyncEnforcer(model, adapter)
        # the statement the async constructor lacks (Props/C18.v C18_constructor_variants), awaited:
        #     if self.adapter and not self.is_filtered(): self.load_policy()
        if e.adapter and not e.is_filtered():
            await e.load_policy()
    except Exception as ex:                  # noqa
        return dict(construct=type(ex).__name__, steps=[], final=None)
    construct = dict(adapter_calls=copy.deepcopy(adapter.store.log) if adapter is not None else [])
    if watcher is not None:
        e.set_watcher(watcher)
    for op in case["ops"]:
        marks = _marks(adapter, watcher)
        args = copy.deepcopy(op[1:])
        try:
            if op[0] in HARNESS_OPS:
                r = _harness_op(e, adapter, op)
            else:
                r = getattr(e, op[0])(*args)
            if inspect.isawaitable(r):       # "each call awaited"
                r = await r
            out = ["ok", canon_result(op[0], r)]
        except Exception as ex:              # noqa
            out = ["exc", type(ex).__name__]
        steps.append(_step_obs(op[0], out, adapter, watcher, marks))
    return dict(construct=construct, steps=steps, final=_final(e, case, adapter, watcher))


_LOOP = None


def loop():
    global _LOOP
    if _LOOP is None or _LOOP.is_closed():
        _LOOP = asyncio.new_event_loop()
    return _LOOP


def close_loop():
    global _LOOP
    if _LOOP is not None and not _LOOP.is_closed():
        _LOOP.close()
    _LOOP = None


def run_async(case):
    with warnings.catch_warnings(record=True) as w:
        warnings.simplefilter("always")
        obs = loop().run_until_complete(_run_async(case))
        gc.collect()
        n = sum(1 for x in w if issubclass(x.category, RuntimeWarning) and "never awaited" in str(x.message))
    obs["coroutines_never_awaited"] = n
    return obs


def compare(sync_obs, async_obs):
    """-> None if equal, else dict(first_bad_step, what, sync, async)"""
    if isinstance(sync_obs["construct"], str) or isinstance(async_obs["construct"], str) \
            or sync_obs["construct"] != async_obs["construct"]:
        if sync_obs["construct"] != async_obs["construct"]:
            return dict(first_bad_step=-1, what="construction / initial load differs",
                        sync=sync_obs["construct"], **{"async": async_obs["construct"]})
        return None
    for i, (a, b) in enumerate(zip(sync_obs["steps"], async_obs["steps"])):
        if a != b:
            what = [k for k in ("result", "adapter_calls", "watcher_events") if a[k] != b[k]]
            return dict(first_bad_step=i, what="step differs in " + ", ".join(what), sync=a, **{"async": b})
    for k in ("policy", "decisions", "adapter_store", "adapter_log", "watcher_log"):
        if sync_obs["final"][k] != async_obs["final"][k]:
            return dict(first_bad_step=len(sync_obs["steps"]), what=f"final {k} differs",
                        sync=sync_obs["final"][k], **{"async": async_obs["final"][k]})
    if async_obs.get("coroutines_never_awaited"):
        return dict(first_bad_step=len(sync_obs["steps"]), what="a coroutine was created and never awaited",
                    sync=0, **{"async": async_obs["coroutines_never_awaited"]})
    return None


def run_case(case):
    s = run_sync(case)
    a = run_async(case)
    return compare(s, a), s, a


def shrink(case, budget=400):
    """drop ops / initial lines / watcher / adapter features while the case still fails"""
    def fails(c):
        try:
            return run_case(c)[0] is not None
        except Exception:                    # noqa
            return False
    cur = copy.deepcopy(case)
    tries = 0
    changed = True
    while changed and tries < budget:
        changed = False
        for i in range(len(cur["ops"]) - 1, -1, -1):
            cand = copy.deepcopy(cur)
            del cand["ops"][i]
            tries += 1
            if fails(cand):
                cur, changed = cand, True
        for i in range(len(cur["lines"]) - 1, -1, -1):
            cand = copy.deepcopy(cur)
            del cand["lines"][i]
            tries += 1
            if fails(cand):
                cur, changed = cand, True
        for key, val in (("watcher", "none"), ("coro", False), ("adapter", "filtered_plain"), ("adapter", "full"),
                         ("adapter", "basic"), ("adapter", "none")):
            if cur.get(key) != val:
                cand = copy.deepcopy(cur)
                cand[key] = val
                tries += 1
                if fails(cand):
                    cur, changed = cand, True
    return cur


# ----------------------------------------------------------------------------------- generation
def rand_p(rng, kind):
    sub = rng.choice(USERS + ROLES)
    if kind == "dom":
        return [sub, rng.choice(DOMS), rng.choice(OBJS), rng.choice(ACTS)]
    return [sub, rng.choice(OBJS), rng.choice(ACTS)]


def rand_g(rng, kind):
    if kind == "dom":
        return [rng.choice(USERS + ROLES[1:]), rng.choice(ROLES), rng.choice(DOMS)]
    if kind == "cond":
        return [rng.choice(USERS), rng.choice(ROLES), "_", "_"]
    return [rng.choice(USERS + ROLES[1:]), rng.choice(ROLES)]


def pick_rule(rng, present, fresh):
    """55 % a present rule, 25 % a neighbour of one (one field changed), 20 % fresh"""
    x = rng.random()
    if present and x < 0.55:
        return list(rng.choice(present))
    if present and x < 0.80:
        r = list(rng.choice(present))
        f = fresh()
        i = rng.randrange(len(r))
        if i < len(f):
            r[i] = f[i]
        return r
    return fresh()


def pick_rules(rng, present, fresh):
    n = rng.randint(1, 3)
    rs = [pick_rule(rng, present, fresh) for _ in range(n)]
    if rng.random() < 0.15 and rs:
        rs.append(list(rs[0]))               # internal duplicate
    return rs


def filter_args(rng, present, width):
    """(field_index, values) for remove_filtered_* / get_filtered_*"""
    idx = rng.randrange(width)
    n = rng.randint(1, max(1, width - idx))
    if present and rng.random() < 0.7:
        r = rng.choice(present)
        vals = [r[idx + i] if (idx + i < len(r) and rng.random() < 0.8) else "" for i in range(n)]
    else:
        pool = USERS + ROLES + OBJS + ACTS + DOMS
        vals = [rng.choice(pool) if rng.random() < 0.7 else "" for _ in range(n)]
    u = rng.random()
    if u < 0.06:
        return idx, []                        # no field value at all: the degenerate filter
    if u < 0.12:
        return idx, [""] * n                  # blanks only
    if all(v == "" for v in vals):
        vals[0] = rng.choice(USERS + ROLES)
    return idx, vals


def op_table(kind, has_g, adapter_kind):
    """name -> (weight, generator(rng, P, G) -> args) ; P/G = current p / g rules of the sync run"""
    dom = kind == "dom"
    pw = 4 if dom else 3
    gw = {"dom": 3, "cond": 4}.get(kind, 2)
    fp = lambda rng: rand_p(rng, kind)          # noqa
    fg = lambda rng: rand_g(rng, kind)          # noqa
    sub = lambda rng: rng.choice(USERS + ROLES)  # noqa
    T = {}

    def add(name, w, gen):
        T[name] = (w, gen)

    def star_or_list(rng, r):
        return [r] if rng.random() < 0.3 else r

    # management: p
    add("add_policy", 5, lambda rng, P, G: star_or_list(rng, pick_rule(rng, P, lambda: fp(rng))))
    add("add_named_policy", 1, lambda rng, P, G: ["p"] + pick_rule(rng, P, lambda: fp(rng)))
    add("add_policies", 3, lambda rng, P, G: [pick_rules(rng, P, lambda: fp(rng))])
    add("add_named_policies", 1, lambda rng, P, G: ["p", pick_rules(rng, P, lambda: fp(rng))])
    add("remove_policy", 4, lambda rng, P, G: star_or_list(rng, pick_rule(rng, P, lambda: fp(rng))))
    add("remove_named_policy", 1, lambda rng, P, G: ["p"] + pick_rule(rng, P, lambda: fp(rng)))
    add("remove_policies", 3, lambda rng, P, G: [pick_rules(rng, P, lambda: fp(rng))])
    add("remove_named_policies", 1, lambda rng, P, G: ["p", pick_rules(rng, P, lambda: fp(rng))])

    def rfp(rng, P, G):
        i, v = filter_args(rng, P, pw)
        return [i] + v
    add("remove_filtered_policy", 3, rfp)
    add("remove_filtered_named_policy", 1, lambda rng, P, G: ["p"] + rfp(rng, P, G))
    add("update_policy", 3, lambda rng, P, G: [pick_rule(rng, P, lambda: fp(rng)), pick_rule(rng, P, lambda: fp(rng))])
    add("update_named_policy", 1, lambda rng, P, G: ["p", pick_rule(rng, P, lambda: fp(rng)), fp(rng)])

    def upd_ps(rng, P, G):
        olds = pick_rules(rng, P, lambda: fp(rng))
        news = [fp(rng) for _ in olds]
        if rng.random() < 0.1:
            news = news[:-1]
        return [olds, news]
    add("update_policies", 2, upd_ps)
    add("update_named_policies", 1, lambda rng, P, G: ["p"] + upd_ps(rng, P, G))

    def upd_fp(rng, P, G):
        i, v = filter_args(rng, P, pw)
        return [[fp(rng) for _ in range(rng.randint(0, 2))], i] + v
    add("update_filtered_policies", 2, upd_fp)
    add("update_filtered_named_policies", 1, lambda rng, P, G: ["p"] + upd_fp(rng, P, G))
    # getters (plain functions on both sides)
    for n in ("get_policy", "get_all_subjects", "get_all_objects", "get_all_actions", "clear_policy"):
        add(n, 1 if n != "clear_policy" else 0.3, lambda rng, P, G: [])
    for n in ("get_all_named_subjects", "get_all_named_objects", "get_all_named_actions", "get_named_policy"):
        add(n, 0.7, lambda rng, P, G: ["p"])
    add("has_policy", 1, lambda rng, P, G: star_or_list(rng, pick_rule(rng, P, lambda: fp(rng))))
    add("get_filtered_policy", 1, rfp)
    # enforcement
    def req(rng, P, G):
        r = list(rng.choice(request_universe(kind)))
        if rng.random() < 0.07:
            r = r[:-1] if rng.random() < 0.5 else r + ["extra"]
        return r
    add("enforce", 3, req)
    add("enforce_ex", 2, lambda rng, P, G: rng.choice(request_universe(kind)))
    add("batch_enforce", 1, lambda rng, P, G: [[rng.choice(request_universe(kind)) for _ in range(rng.randint(0, 3))]])
    add("enforce_bad_arity", 0, None)
    # flags / persistence
    for n in ("enable_enforce", "enable_auto_save", "enable_auto_build_role_links", "enable_auto_notify_watcher"):
        add(n, 0.6, lambda rng, P, G: [rng.random() < 0.5])
    add("load_policy", 1.5, lambda rng, P, G: [])
    add("save_policy", 1.5, lambda rng, P, G: [])
    add("is_filtered", 0.5, lambda rng, P, G: [])
    add("adapter_mode", 1.2 if adapter_kind != "none" else 0, lambda rng, P, G: [rng.choice(["false", "raise", "false"])])
    add("get_field_index", 0.5, lambda rng, P, G: ["p", rng.choice(["sub", "obj", "act", "dom", "nosuch"])])
    if adapter_kind in ("filtered", "filtered_plain"):
        def flt(rng, P, G):
            f = {}
            if rng.random() < 0.9:
                f["p"] = [rng.choice(USERS + ROLES + [""])] + ([rng.choice(DOMS + [""])] if dom and rng.random() < 0.5 else [])
            if has_g and rng.random() < 0.7:
                f["g"] = [rng.choice(USERS + [""])]
            return [f]
        add("load_filtered_policy", 2, flt)
        add("load_increment_filtered_policy", 2.5, flt)
    if has_g:
        add("add_grouping_policy", 4, lambda rng, P, G: star_or_list(rng, pick_rule(rng, G, lambda: fg(rng))))
        add("add_named_grouping_policy", 1, lambda rng, P, G: ["g"] + pick_rule(rng, G, lambda: fg(rng)))
        add("add_grouping_policies", 2, lambda rng, P, G: [pick_rules(rng, G, lambda: fg(rng))])
        add("add_named_grouping_policies", 1, lambda rng, P, G: ["g", pick_rules(rng, G, lambda: fg(rng))])
        add("remove_grouping_policy", 3, lambda rng, P, G: star_or_list(rng, pick_rule(rng, G, lambda: fg(rng))))
        add("remove_named_grouping_policy", 1, lambda rng, P, G: ["g"] + pick_rule(rng, G, lambda: fg(rng)))
        add("remove_grouping_policies", 2, lambda rng, P, G: [pick_rules(rng, G, lambda: fg(rng))])
        add("remove_named_grouping_policies", 1, lambda rng, P, G: ["g", pick_rules(rng, G, lambda: fg(rng))])

        def rfg(rng, P, G):
            i, v = filter_args(rng, G, gw)
            return [i] + v
        add("remove_filtered_grouping_policy", 2, rfg)
        add("remove_filtered_named_grouping_policy", 1, lambda rng, P, G: ["g"] + rfg(rng, P, G))
        add("get_filtered_grouping_policy", 0.7, rfg)
        add("get_grouping_policy", 1, lambda rng, P, G: [])
        add("get_all_roles", 1, lambda rng, P, G: [])
        add("get_all_named_roles", 0.5, lambda rng, P, G: ["g"])
        add("has_grouping_policy", 0.7, lambda rng, P, G: star_or_list(rng, pick_rule(rng, G, lambda: fg(rng))))
        add("build_role_links", 0.5, lambda rng, P, G: [])
    if kind == "cond":
        add("cond_func", 3, lambda rng, P, G: ["g", rng.choice(USERS), rng.choice(ROLES), rng.choice(sorted(COND_FUNCS))])
        add("cond_params", 2, lambda rng, P, G: ["g", rng.choice(USERS), rng.choice(ROLES), [rng.choice(["yes", "no"])]])
    # RBAC API (needs g / g)
    if has_g and kind != "cond":
        add("get_roles_for_user", 1.5, lambda rng, P, G: [sub(rng)])
        add("get_users_for_role", 1.5, lambda rng, P, G: [rng.choice(ROLES)])
        add("has_role_for_user", 1, lambda rng, P, G: [sub(rng), rng.choice(ROLES)])
        add("add_role_for_user", 2, lambda rng, P, G: [rng.choice(USERS), rng.choice(ROLES)])
        add("delete_role_for_user", 1.5, lambda rng, P, G: [rng.choice(USERS), rng.choice(ROLES)])
        add("delete_roles_for_user", 1, lambda rng, P, G: [rng.choice(USERS)])
        add("delete_user", 1, lambda rng, P, G: [rng.choice(USERS)])
        add("delete_role", 1, lambda rng, P, G: [rng.choice(ROLES)])
        add("get_implicit_roles_for_user", 1.5, lambda rng, P, G: [sub(rng)] + ([rng.choice(DOMS)] if dom else []))
        add("get_implicit_permissions_for_user", 1.5, lambda rng, P, G: [sub(rng)] + ([rng.choice(DOMS)] if dom else []))
        add("get_named_implicit_permissions_for_user", 0.7,
            lambda rng, P, G: ["p", sub(rng)] + ([rng.choice(DOMS)] if dom else []))
        add("get_implicit_users_for_permission", 1.5,
            lambda rng, P, G: ([rng.choice(DOMS)] if dom else []) + [rng.choice(OBJS), rng.choice(ACTS)])
        add("get_implicit_users_for_resource", 1, lambda rng, P, G: [rng.choice(OBJS)])
    if True:
        add("delete_permission", 1, lambda rng, P, G: ([rng.choice(DOMS)] if dom else []) + [rng.choice(OBJS)] +
            ([rng.choice(ACTS)] if rng.random() < 0.6 else []))
        add("add_permission_for_user", 1.5, lambda rng, P, G: fp(rng))
        add("delete_permission_for_user", 1.5, lambda rng, P, G: pick_rule(rng, P, lambda: fp(rng)))
        add("delete_permissions_for_user", 1, lambda rng, P, G: [sub(rng)])
        add("get_permissions_for_user", 1, lambda rng, P, G: [sub(rng)])
        add("has_permission_for_user", 1, lambda rng, P, G: pick_rule(rng, P, lambda: fp(rng)))
    if dom:
        add("get_roles_for_user_in_domain", 1.5, lambda rng, P, G: [sub(rng), rng.choice(DOMS)])
        add("get_users_for_role_in_domain", 1.5, lambda rng, P, G: [rng.choice(ROLES), rng.choice(DOMS)])
        add("add_role_for_user_in_domain", 2, lambda rng, P, G: [rng.choice(USERS), rng.choice(ROLES), rng.choice(DOMS)])
        add("delete_roles_for_user_in_domain", 1.5, lambda rng, P, G: [rng.choice(USERS), rng.choice(ROLES), rng.choice(DOMS)])
        add("get_permissions_for_user_in_domain", 1, lambda rng, P, G: [sub(rng), rng.choice(DOMS)])
        add("get_named_permissions_for_user_in_domain", 0.5, lambda rng, P, G: ["p", sub(rng), rng.choice(DOMS)])
        add("get_all_roles_by_domain", 1.5, lambda rng, P, G: [rng.choice(DOMS)])
        add("get_implicit_users_for_resource_by_domain", 1.5, lambda rng, P, G: [rng.choice(OBJS), rng.choice(DOMS)])
    return {k: v for k, v in T.items() if v[0] > 0 and v[1] is not None}


def gen_case(rng, boost=None, maxops=14):
    """one random case; `boost`: op name -> weight multiplier (ops that reach a method whose twins differ)"""
    boost = boost or {}
    kind = rng.choices(["acl", "rbac", "dom", "cond"], weights=[3, 4, 4, 1])[0]
    adapter_kind = rng.choices(["none", "basic", "full", "filtered", "filtered_plain"], weights=[1, 2, 4, 2, 2])[0]
    if any(n in boost for n in ("load_increment_filtered_policy", "load_filtered_policy", "is_filtered")) and rng.random() < 0.4:
        adapter_kind = rng.choice(["filtered", "filtered_plain"])
    watcher = rng.choices(["none", "plain", "ex", "ex_partial"], weights=[2, 2, 3, 2])[0]
    coro = watcher in ("ex", "ex_partial") and rng.random() < 0.6
    has_g = kind != "acl"
    lines = []
    if adapter_kind != "none":
        for _ in range(rng.randint(0, 5)):
            r = ["p"] + rand_p(rng, kind)
            if r not in lines:
                lines.append(r)
        if has_g:
            for _ in range(rng.randint(0, 3)):
                r = ["g"] + rand_g(rng, kind)
                if r not in lines:
                    lines.append(r)
    case = dict(model=kind, adapter=adapter_kind, watcher=watcher, coro=coro, lines=lines, ops=[])
    table = op_table(kind, has_g, adapter_kind)
    names = sorted(table)
    weights = [table[n][0] * boost.get(n, 1.0) for n in names]
    # lock-step sync run to learn the current policy for argument selection
    model, adapter, w = _prep(case, False)
    try:
        e = casbin.Enforcer(model, adapter)
    except Exception:                        # noqa
        return case
    for _ in range(rng.randint(1, maxops)):
        name = rng.choices(names, weights=weights)[0]
        P = e.model.get_policy("p", "p")
        G = e.model.get_policy("g", "g") if has_g else []
        args = table[name][1](rng, copy.deepcopy(P), copy.deepcopy(G))
        op = [name] + args
        case["ops"].append(json.loads(json.dumps(op)))
        try:
            if name in HARNESS_OPS:
                _harness_op(e, adapter, op)
            else:
                getattr(e, name)(*copy.deepcopy(args))
        except Exception:                    # noqa
            pass
    return case


# ----------------------------------------------------------------------------------- call graph (bias)
def self_calls(tree_tuple, interner_rev):
    """names m of all `self.m` attribute reads in a translator tree (nested tuples)"""
    out = set()

    def walk(t):
        if t[0] != "N":
            return
        kids = t[2]
        if len(kids) == 3 and kids[1][0] == "I" and kids[0][0] == "N" and len(kids[0][2]) == 2 \
                and kids[0][2][0][0] == "I" and interner_rev.get(kids[0][2][0][1]) == "self":
            out.add(interner_rev.get(kids[1][1]))
        for k in kids:
            walk(k)
    walk(tree_tuple)
    return out


def reaching_ops(table, suspects):
    """public method names of the async chain that (transitively through self.m calls) reach a suspect"""
    rev = {k: text for (ns, text), k in table["interner"].table.items() if ns == "s"}
    graph = {}
    for m in table["shared"]:
        graph[m["name"]] = self_calls(m["async_"], rev)
    for n, t in table["async_only"] + table["core_inherited"]:
        graph[n] = self_calls(t, rev)
    reach = set(suspects)
    changed = True
    while changed:
        changed = False
        for n, cs in graph.items():
            if n not in reach and cs & reach:
                reach.add(n)
                changed = True
    return reach
