"""C02 helpers: the expression grammar of DESIGN §5/C02 as a typed random generator, the Python twin
of Expr.tokens_of / MatcherText.text / render, layouts, model shapes, the runner of the REAL
enforcer and the wire encodings for oracle_C02.

AST nodes are tuples mirroring Expr.expr_of_val:
  (0,a,b) or   (1,a,b) and   (2,a) not   (3,op,a,b) cmp   (4,a,[items],brk) in   (5,f,[args]) call
  (6,sfx,f) eval   (7,e) par   (8,sfx,f,[attrs]) r.f.attr   (9,sfx,f) p.f   (11,dq,s) str   (12,ds) int
"""
import casbin
from casbin.model import Model

from .core import ERR, classify_exception

E_FUNC_UNDEF = 31
E_LIMIT = 40

CMP_TEXT = ["==", "!=", "<", "<=", ">", ">="]

EFFECT_TEXT = [
    "some(where (p.eft == allow))",
    "!some(where (p.eft == deny))",
    "some(where (p.eft == allow)) && !some(where (p.eft == deny))",
    "priority(p.eft) || deny",
]


def classify(exc):
    n = type(exc).__name__
    if n == "NameNotDefined":
        return ERR["EName"]
    if n == "FunctionNotDefined":
        return E_FUNC_UNDEF
    if n == "AttributeDoesNotExist":
        return ERR["EAttr"]
    if isinstance(exc, SyntaxError):
        return ERR["ESyntax"]
    return classify_exception(exc)


# ------------------------------------------------------------------------------ values
class Obj:
    """ABAC request object; identity comparison like any plain Python object"""
    _next = [1]

    def __init__(self, **attrs):
        self.__dict__.update(attrs)
        self._id = Obj._next[0]
        Obj._next[0] += 1

    def __repr__(self):
        return "Obj(%s)" % ", ".join(f"{k}={v!r}" for k, v in sorted(self.__dict__.items()) if k != "_id")


def wire_value(v):
    if isinstance(v, bool):
        return [2, v]
    if isinstance(v, int):
        return [1, v]
    if isinstance(v, str):
        return [0, v]
    if isinstance(v, Obj):
        return [3, v._id, [[k, wire_value(x)] for k, x in sorted(v.__dict__.items()) if k != "_id"]]
    raise TypeError(v)


def value_desc(v):
    """JSON-able description (replay files)"""
    if isinstance(v, Obj):
        return {"obj": {k: value_desc(x) for k, x in sorted(v.__dict__.items()) if k != "_id"}}
    return v


def value_from_desc(d):
    if isinstance(d, dict):
        return Obj(**{k: value_from_desc(x) for k, x in d["obj"].items()})
    return d


def wire_expr(e):
    t = e[0]
    if t in (0, 1):
        return [t, wire_expr(e[1]), wire_expr(e[2])]
    if t in (2, 7):
        return [t, wire_expr(e[1])]
    if t == 3:
        return [3, e[1], wire_expr(e[2]), wire_expr(e[3])]
    if t == 4:
        return [4, wire_expr(e[1]), [wire_expr(x) for x in e[2]], bool(e[3])]
    if t == 5:
        return [5, e[1], [wire_expr(x) for x in e[2]]]
    if t in (6, 9):
        return [t, e[1], e[2]]
    if t == 8:
        return [8, e[1], e[2], list(e[3])]
    if t == 11:
        return [11, bool(e[1]), e[2]]
    if t == 12:
        return [12, e[1]]
    raise ValueError(e)


def expr_to_json(e):
    """AST -> JSON lists (same shape as the wire form)"""
    return wire_expr(e)


def expr_from_json(j):
    t = j[0]
    if t in (0, 1):
        return (t, expr_from_json(j[1]), expr_from_json(j[2]))
    if t in (2, 7):
        return (t, expr_from_json(j[1]))
    if t == 3:
        return (3, j[1], expr_from_json(j[2]), expr_from_json(j[3]))
    if t == 4:
        return (4, expr_from_json(j[1]), [expr_from_json(x) for x in j[2]], bool(j[3]))
    if t == 5:
        return (5, j[1], [expr_from_json(x) for x in j[2]])
    if t in (6, 9):
        return (t, j[1], j[2])
    if t == 8:
        return (8, j[1], j[2], list(j[3]))
    if t == 11:
        return (11, bool(j[1]), j[2])
    if t == 12:
        return (12, j[1])
    raise ValueError(j)


# ------------------------------------------------------------------------------ tokens (twin of Expr.tokens_of)
# token = tuple: ("&&",) ("||",) ("!",) ("cmp",i) ("in",) ("(",) (")",) ("[",) ("]",) (",",)
#         ("r",sfx,f,attrs) ("p",sfx,f) ("eval",sfx,f) ("str",dq,s) ("int",ds) ("id",s)
def sep_commas(lists):
    out = []
    for i, l in enumerate(lists):
        if i:
            out.append((",",))
        out.extend(l)
    return out


def tokens_of(e):
    t = e[0]
    if t == 0:
        return tokens_of(e[1]) + [("||",)] + tokens_of(e[2])
    if t == 1:
        return tokens_of(e[1]) + [("&&",)] + tokens_of(e[2])
    if t == 2:
        return [("!",)] + tokens_of(e[1])
    if t == 3:
        return tokens_of(e[2]) + [("cmp", e[1])] + tokens_of(e[3])
    if t == 4:
        o, c = (("[",), ("]",)) if e[3] else (("(",), (")",))
        return tokens_of(e[1]) + [("in",), o] + sep_commas([tokens_of(x) for x in e[2]]) + [c]
    if t == 5:
        return [("id", e[1]), ("(",)] + sep_commas([tokens_of(x) for x in e[2]]) + [(")",)]
    if t == 6:
        return [("eval", e[1], e[2])]
    if t == 7:
        return [("(",)] + tokens_of(e[1]) + [(")",)]
    if t == 8:
        return [("r", e[1], e[2], tuple(e[3]))]
    if t == 9:
        return [("p", e[1], e[2])]
    if t == 11:
        return [("str", bool(e[1]), e[2])]
    if t == 12:
        return [("int", e[1])]
    raise ValueError(e)


def tok_text(t):
    k = t[0]
    if k in ("&&", "||", "!", "in", "(", ")", "[", "]", ","):
        return k
    if k == "cmp":
        return CMP_TEXT[t[1]]
    if k == "r":
        return "r" + t[1] + "." + t[2] + "".join("." + a for a in t[3])
    if k == "p":
        return "p" + t[1] + "." + t[2]
    if k == "eval":
        return "eval(p" + t[1] + "." + t[2] + ")"
    if k == "str":
        q = '"' if t[1] else "'"
        return q + t[2] + q
    if k in ("int", "id"):
        return t[1]
    raise ValueError(t)


WIRE_TOK = {"&&": 0, "||": 1, "!": 2, "in": 4, "(": 5, ")": 6, "[": 7, "]": 8, ",": 9}


def wire_tok(t):
    """shape of MatcherText.vtoks after core.dec"""
    k = t[0]
    if k in WIRE_TOK:
        return [WIRE_TOK[k]]
    if k == "cmp":
        return [3, t[1]]
    if k == "r":
        return [10, [ord(c) for c in t[1]], [ord(c) for c in t[2]], [[ord(c) for c in a] for a in t[3]]]
    if k == "p":
        return [11, [ord(c) for c in t[1]], [ord(c) for c in t[2]]]
    if k == "eval":
        return [12, [ord(c) for c in t[1]], [ord(c) for c in t[2]]]
    if k == "str":
        return [13, int(t[1]), [ord(c) for c in t[2]]]
    if k == "int":
        return [14, [ord(c) for c in t[1]]]
    if k == "id":
        return [15, [ord(c) for c in t[1]]]
    raise ValueError(t)


def _wordy(c):
    return c.isalnum() or c == "_"


def need_blank(t1, t2):
    """twin of the layout admissibility: a blank is required exactly between a token ending in a word
    character and a token starting with a word character or a quote"""
    a, b = tok_text(t1), tok_text(t2)
    return _wordy(a[-1]) and (_wordy(b[0]) or b[0] in "\"'")


LAYOUTS = ["none", "wide", "random", "cont", "comment"]


def gaps_for(toks, mode, rng):
    """list of len(toks)+1 gap strings (gap[0] before the first token, gap[-1] after the last)"""
    n = len(toks)
    gaps = []
    for i in range(n + 1):
        inner = 0 < i < n
        req = inner and need_blank(toks[i - 1], toks[i])
        if mode == "none":
            g = " " if req else ""
        elif mode == "wide":
            g = " " if inner else ""
        else:
            k = rng.choice([0, 0, 1, 1, 2, 3])
            g = "".join(rng.choice(" \t") if rng.random() < 0.15 else " " for _ in range(k))
            if req and not g:
                g = " "
        gaps.append(g)
    return gaps


def render(toks, gaps):
    out = [gaps[0]]
    for t, g in zip(toks, gaps[1:]):
        out.append(tok_text(t))
        out.append(g)
    return "".join(out)


def matcher_lines(key, toks, mode, rng):
    """physical lines of the definition `key = <matcher>` under a layout mode.  Returns (lines, info)"""
    if mode in ("none", "wide", "random"):
        eq = {"none": "=", "wide": " = ", "random": rng.choice(["=", " = ", " =", "=  ", "\t= "])}[mode]
        gaps = gaps_for(toks, mode, rng)
        return [key + eq + render(toks, gaps)], {"gaps": gaps}
    if mode == "comment":
        gaps = gaps_for(toks, "random", rng)
        comment = rng.choice(["# plain", "#&& p.x || r.y", " # r2.sub == p2.sub", "#", "# a = b # c", "#!x"])
        return [key + " = " + render(toks, gaps) + comment], {"comment": comment}
    # continuations: break at 1..3 gaps (never the outermost ones)
    gaps = gaps_for(toks, rng.choice(["none", "wide", "random"]), rng)
    n = len(toks)
    cand = list(range(1, n))
    rng.shuffle(cand)
    brk = set(cand[: rng.randint(1, 3)]) if cand else set()
    lines, cur = [], key + rng.choice(["=", " = "]) + gaps[0]
    for i, t in enumerate(toks):
        cur += tok_text(t)
        if (i + 1) in brk:
            cur += rng.choice(["", " ", "  "]) + "\\" + rng.choice(["", " ", "\t"])
            lines.append(cur)
            cur = rng.choice(["", "  ", "    ", "\t"])
        else:
            cur += gaps[i + 1]
    if rng.random() < 0.15:
        cur += rng.choice([" # tail", "#x"])
    lines.append(cur)
    return lines, {"breaks": sorted(brk)}


def bracket_last_line(lines):
    """fingerprint of finding C02-continuation-bracket-line: a continued definition whose LAST physical
    line, stripped, starts with '[' and ends with ']' is taken for a section header by Config"""
    if len(lines) < 2:
        return False
    last = lines[-1].strip()
    return len(last) >= 1 and last[0] == "[" and last[-1] == "]"


# ------------------------------------------------------------------------------ model shapes
SUBS = ["alice", "bob", "admin", "root"]
OBJS = ["data1", "data2", "/d/x", "/d/*"]
ACTS = ["read", "write"]
DOMS = ["dom1", "dom2"]
LITS = SUBS + OBJS + ACTS + DOMS + ["", "x y", "x  y", "a   b "]     # runs of blanks inside literals must survive every layout
PLAIN_LITS = ["data", "/d/", "read", "alice", "a", ""]


class Shape:
    """one model shape: definitions, field types, how policies / requests are drawn, seed matcher"""

    def __init__(self, name, rdef, pdef, gdefs=(), sfx="", types=None, obj_attrs=None, eval_fields=(),
                 effects=(0,), seeds=(), has_eft=False):
        self.name, self.rdef, self.pdef, self.gdefs, self.sfx = name, rdef, pdef, list(gdefs), sfx
        self.types = types or {f: "str" for f in rdef}       # request field -> str | int | obj
        self.obj_attrs = obj_attrs or {}                       # request field -> {attr: type}
        self.eval_fields = list(eval_fields)
        self.effects = list(effects)
        self.seeds = list(seeds)
        self.has_eft = has_eft


def R(f, *attrs, sfx=""):
    return (8, sfx, f, list(attrs))


def P(f, sfx=""):
    return (9, sfx, f)


def S(s, dq=True):
    return (11, dq, s)


def AND(*xs):
    e = xs[0]
    for x in xs[1:]:
        e = (1, e, x)
    return e


def EQ(a, b):
    return (3, 0, a, b)


ACL3 = AND(EQ(R("sub"), P("sub")), EQ(R("obj"), P("obj")), EQ(R("act"), P("act")))

SHAPES = [
    Shape("acl", ["sub", "obj", "act"], ["sub", "obj", "act"], seeds=[ACL3], effects=(0,)),
    Shape("superuser", ["sub", "obj", "act"], ["sub", "obj", "act"],
          seeds=[(0, ACL3, EQ(R("sub"), S("root")))], effects=(0,)),
    Shape("rbac", ["sub", "obj", "act"], ["sub", "obj", "act"], gdefs=[("g", 2)],
          seeds=[AND((5, "g", [R("sub"), P("sub")]), EQ(R("obj"), P("obj")), EQ(R("act"), P("act")))]),
    Shape("resource_roles", ["sub", "obj", "act"], ["sub", "obj", "act"], gdefs=[("g", 2), ("g2", 2)],
          seeds=[AND((5, "g", [R("sub"), P("sub")]), (5, "g2", [R("obj"), P("obj")]), EQ(R("act"), P("act")))]),
    Shape("domains", ["sub", "dom", "obj", "act"], ["sub", "dom", "obj", "act"], gdefs=[("g", 3)],
          seeds=[AND((5, "g", [R("sub"), P("sub"), R("dom")]), EQ(R("dom"), P("dom")), EQ(R("obj"), P("obj")),
                     EQ(R("act"), P("act")))]),
    Shape("abac", ["sub", "obj", "act"], ["sub", "obj", "act"],
          types={"sub": "obj", "obj": "obj", "act": "str"},
          obj_attrs={"sub": {"Age": "int", "Name": "str"}, "obj": {"Owner": "str", "Name": "str"}},
          seeds=[EQ(R("sub", "Name"), R("obj", "Owner")),
                 AND((3, 4, R("sub", "Age"), (12, "18")), EQ(R("obj", "Name"), P("obj")))]),
    Shape("keymatch", ["sub", "obj", "act"], ["sub", "obj", "act"],
          seeds=[AND(EQ(R("sub"), P("sub")), (5, "keyMatch", [R("obj"), P("obj")]),
                     (5, "regexMatch", [R("act"), P("act")]))]),
    Shape("eft", ["sub", "obj", "act"], ["sub", "obj", "act", "eft"], has_eft=True, effects=(0, 1, 2, 3),
          seeds=[ACL3]),
    Shape("eval", ["sub", "obj", "act"], ["sub_rule", "obj", "act"], eval_fields=["sub_rule"],
          types={"sub": "obj", "obj": "str", "act": "str"}, obj_attrs={"sub": {"Age": "int", "Name": "str"}},
          seeds=[AND((6, "", "sub_rule"), EQ(R("obj"), P("obj")), EQ(R("act"), P("act")))]),
    Shape("eval2", ["sub", "obj", "act"], ["sub_rule", "rule2", "obj", "act"], eval_fields=["sub_rule", "rule2"],
          types={"sub": "obj", "obj": "str", "act": "str"}, obj_attrs={"sub": {"Age": "int", "Name": "str"}},
          seeds=[AND(EQ(R("obj"), P("obj")), (6, "", "sub_rule"), (6, "", "rule2"))]),
    # additional definitions selected through an enforce context; the plain definitions stay ACL
    Shape("ctx2", ["sub", "obj", "act"], ["sub", "obj", "act", "eft"], sfx="2", has_eft=True, effects=(0, 1, 2, 3),
          seeds=[AND(EQ(R("sub", sfx="2"), P("sub", sfx="2")), EQ(R("obj", sfx="2"), P("obj", sfx="2")),
                     EQ(R("act", sfx="2"), P("act", sfx="2")))]),
    Shape("ctx2_eval", ["sub", "obj", "act"], ["sub_rule", "obj", "act", "eft"], sfx="2", has_eft=True,
          eval_fields=["sub_rule"], effects=(0, 1, 2),
          types={"sub": "obj", "obj": "str", "act": "str"}, obj_attrs={"sub": {"Age": "int", "Name": "str"}},
          seeds=[AND((6, "2", "sub_rule"), EQ(R("obj", sfx="2"), P("obj", sfx="2")))]),
]
SHAPE_BY_NAME = {s.name: s for s in SHAPES}

USER_FNS = {
    "eqf": lambda a, b: a == b,
    "second": lambda a, b: b,
    "longer": lambda a, b: len(a) > len(b),
    "idf": lambda a: a,
}


# ------------------------------------------------------------------------------ expression generator
class Gen:
    """typed random generator over the grammar; `depth` bounds the nesting of (e) / calls"""

    def __init__(self, rng, shape, allow_eval, user_fns):
        self.rng, self.sh, self.allow_eval, self.user = rng, shape, allow_eval, user_fns
        self.sfx = shape.sfx

    def pick(self, xs):
        return xs[self.rng.randrange(len(xs))]

    # ---- terms by type
    def str_term(self, d):
        r = self.rng.random()
        strs = [f for f in self.sh.rdef if self.sh.types.get(f, "str") == "str"]
        attr_strs = [(f, a) for f, at in self.sh.obj_attrs.items() for a, ty in at.items() if ty == "str"]
        pf = [f for f in self.sh.pdef if f not in self.sh.eval_fields]
        if r < 0.3 and strs:
            return (8, self.sfx, self.pick(strs), [])
        if r < 0.45 and attr_strs:
            f, a = self.pick(attr_strs)
            if self.rng.random() < 0.3 and "Age" in self.sh.obj_attrs.get(f, {}):
                return (8, self.sfx, f, [self.pick(["Mgr", "Grp"]), "Name"])    # ...Mgr.Name / ...Grp.Name
            return (8, self.sfx, f, [a])
        if r < 0.75 and pf:
            return (9, self.sfx, self.pick(pf))
        if r < 0.95 or d <= 0:
            return (11, self.rng.random() < 0.6, self.pick(LITS))
        fn = self.pick(["second", "idf"])
        if fn == "second":
            return (5, "second", [self.any_term(d - 1), self.str_term(d - 1)])
        return (5, "idf", [self.str_term(d - 1)])

    def int_term(self, d):
        attr_ints = [(f, a) for f, at in self.sh.obj_attrs.items() for a, ty in at.items() if ty == "int"]
        ints = [f for f in self.sh.rdef if self.sh.types.get(f) == "int"]
        r = self.rng.random()
        if r < 0.5 and attr_ints:
            f, a = self.pick(attr_ints)
            return (8, self.sfx, f, [a])
        if r < 0.6 and ints:
            return (8, self.sfx, self.pick(ints), [])
        return (12, self.pick(["0", "1", "18", "30", "60", "100"]))

    def obj_term(self, d):
        objs = [f for f in self.sh.rdef if self.sh.types.get(f) == "obj"]
        if objs:
            return (8, self.sfx, self.pick(objs), [])
        return self.str_term(d)

    def any_term(self, d):
        r = self.rng.random()
        if r < 0.6:
            return self.str_term(d)
        if r < 0.8:
            return self.int_term(d)
        if r < 0.9:
            return self.obj_term(d)
        if d > 0:
            return self.atom(d - 1)          # a boolean-valued atom used as a term
        return self.str_term(d)

    def bad_attr_term(self):
        # attribute of something that has none / a missing attribute: AttributeDoesNotExist
        f = self.pick(self.sh.rdef)
        return (8, self.sfx, f, [self.pick(["Age", "Name", "Owner", "Dept"])] + (["Name"] if self.rng.random() < 0.2 else []))

    POOLS = {"sub": SUBS, "obj": OBJS, "act": ACTS, "dom": DOMS}

    def same_domain_pair(self):
        """two string terms over the same value pool (so that == / in / keyMatch are not constantly false)"""
        doms = [f for f in self.sh.rdef if f in self.POOLS and (self.sh.types.get(f, "str") == "str"
                                                                 or "Name" in self.sh.obj_attrs.get(f, {}))]
        doms = doms or [f for f in self.sh.pdef if f in self.POOLS] or ["sub"]
        f = self.pick(doms)

        def one():
            r = self.rng.random()
            if r < 0.4 and f in self.sh.rdef:
                if self.sh.types.get(f, "str") == "str":
                    return (8, self.sfx, f, [])
                if "Name" in self.sh.obj_attrs.get(f, {}):
                    return (8, self.sfx, f, ["Name"])
            if r < 0.75 and f in self.sh.pdef:
                return (9, self.sfx, f)
            return (11, self.rng.random() < 0.6, self.pick(self.POOLS[f]))
        return one(), one()

    # ---- conditions
    def cmp(self, d):
        r = self.rng.random()
        if r < 0.35:
            a, b = self.same_domain_pair()
            return (3, self.pick([0, 0, 0, 1, 1, 2, 5]), a, b)
        if r < 0.55:
            op = self.pick([0, 0, 0, 1, 2, 3, 4, 5])
            a, b = self.str_term(d), self.str_term(d)
            if a[0] == 11 and b[0] == 11:
                a = self.same_domain_pair()[0]
            return (3, op, a, b)
        if r < 0.75:
            return (3, self.pick([0, 1, 2, 3, 4, 5]), self.int_term(d), self.int_term(d))
        if r < 0.9:
            return (3, self.pick([0, 1, 2, 4]), self.any_term(d), self.any_term(d))     # possibly cross-type
        return (3, self.pick([0, 1]), self.bad_attr_term(), self.str_term(d))

    def isin(self, d):
        brk = self.rng.random() < 0.5
        n = self.rng.randint(1 if brk else 2, 3)
        left = self.str_term(d) if self.rng.random() < 0.8 else self.any_term(d)
        if self.rng.random() < 0.5:
            a, b = self.same_domain_pair()
            c, _ = self.same_domain_pair()
            return (4, a, [b, c][: max(n, 1 if brk else 2)] if n <= 2 else [b, c, self.str_term(d)], brk)
        return (4, left, [self.str_term(d) if self.rng.random() < 0.85 else self.any_term(d) for _ in range(n)], brk)

    def call(self, d, boolean=False):
        opts = ["keyMatch", "regexMatch"] + [g for g, _ in self.sh.gdefs] + list(self.user)
        if boolean and self.rng.random() < 0.9:
            opts = [f for f in opts if f not in ("idf", "second")]
        if self.rng.random() < 0.04:
            return (5, self.pick(["nofn", "keyMatch9"]), [self.str_term(d)])               # FunctionNotDefined
        f = self.pick(opts)
        garity = dict(self.sh.gdefs).get(f)
        if garity:
            if self.rng.random() < 0.7:
                a, b = self.same_domain_pair()
                return (5, f, [a, b] + ([self.str_term(d)] if garity == 3 else []))
            return (5, f, [self.str_term(d) for _ in range(garity)])
        if f == "keyMatch":
            if self.rng.random() < 0.6 and "obj" in self.sh.pdef and self.sh.types.get("obj", "str") == "str":
                return (5, f, [(8, self.sfx, "obj", []), (9, self.sfx, "obj")])
            return (5, f, [self.str_term(d), self.str_term(d)])
        if f == "regexMatch":
            pat = (11, True, self.pick(PLAIN_LITS)) if self.rng.random() < 0.7 else (9, self.sfx, "act")
            if pat[0] == 9 and "act" not in self.sh.pdef:
                pat = (11, True, "re")
            return (5, f, [self.str_term(d), pat])
        if f == "eqf":
            return (5, f, [self.any_term(d), self.any_term(d)])
        if f == "longer":
            return (5, f, [self.str_term(d), self.str_term(d)] if self.rng.random() < 0.9 else [self.any_term(d)])
        if f == "second":
            return (5, f, [self.any_term(d), self.any_term(d)])
        return (5, f, [self.any_term(d)])                                                  # idf

    def atom(self, d):
        r = self.rng.random()
        if d <= 0 or r < 0.35:
            return (7, self.cond(d))
        if r < 0.75:
            return self.call(d, True)
        if r < 0.85 and self.allow_eval and self.sh.eval_fields:
            return (6, self.sfx, self.pick(self.sh.eval_fields))
        return (7, self.expr(d - 1))

    def cond(self, d):
        r = self.rng.random()
        nb = [f for f in ("idf", "second") if f in self.user]
        if r < 0.08 and nb:
            # a condition whose value is not a bool: result typing (core_enforcer.py:461-470), and/or operands
            f = self.pick(nb)
            t = self.str_term(d) if self.rng.random() < 0.7 else self.int_term(d)
            return (5, f, [t] if f == "idf" else [self.any_term(d), t])
        if r < 0.6:
            return self.cmp(d)
        if r < 0.75:
            return self.isin(d)
        return self.call(d, True)

    def notx(self, d):
        r = self.rng.random()
        if r < 0.2:
            return (2, self.atom(d))
        if r < 0.75 or d <= 0:
            return self.cond(d)
        return self.atom(d)

    def conj(self, d):
        e = self.notx(d)
        for _ in range(self.pick([0, 0, 1, 1, 2])):
            e = (1, e, self.notx(d)) if self.rng.random() < 0.7 else (1, self.notx(d), e)
        return e

    def expr(self, d):
        e = self.conj(d)
        for _ in range(self.pick([0, 0, 0, 1, 1, 2])):
            e = (0, e, self.conj(d)) if self.rng.random() < 0.7 else (0, self.conj(d), e)
        return e


def depth_of(e):
    if not isinstance(e, tuple):
        return 0
    t = e[0]
    kids = []
    if t in (0, 1):
        kids = [e[1], e[2]]
    elif t in (2, 7):
        kids = [e[1]]
    elif t == 3:
        kids = [e[2], e[3]]
    elif t == 4:
        kids = [e[1]] + list(e[2])
    elif t == 5:
        kids = list(e[2])
    return (1 if t in (5, 7) else 0) + max([depth_of(k) for k in kids], default=0)


def sub_conditions(e, cond_pos=True):
    """the generated sub-conditions: comparison / in nodes, and calls standing in condition position
    (calls used as operands are terms, not conditions; parenthesised operands are descended into)"""
    out = []
    t = e[0]
    if t in (0, 1):
        out += sub_conditions(e[1]) + sub_conditions(e[2])
    elif t in (2, 7):
        out += sub_conditions(e[1])
    elif t == 3:
        out.append(e)
        out += sub_conditions(e[2], False) + sub_conditions(e[3], False)
    elif t == 4:
        out.append(e)
        for x in [e[1]] + list(e[2]):
            out += sub_conditions(x, False)
    elif t == 5:
        if cond_pos:
            out.append(e)
        for x in e[2]:
            out += sub_conditions(x, False)
    return out


def has_eval(e):
    t = e[0]
    if t == 6:
        return True
    if t in (0, 1):
        return has_eval(e[1]) or has_eval(e[2])
    if t in (2, 7):
        return has_eval(e[1])
    if t == 3:
        return has_eval(e[2]) or has_eval(e[3])
    if t == 4:
        return has_eval(e[1]) or any(has_eval(x) for x in e[2])
    if t == 5:
        return any(has_eval(x) for x in e[2])
    return False


# ------------------------------------------------------------------------------ worlds
def gen_request(rng, sh):
    vals = []
    for f in sh.rdef:
        ty = sh.types.get(f, "str")
        if ty == "str":
            pool = {"sub": SUBS, "obj": OBJS, "act": ACTS, "dom": DOMS}.get(f, SUBS)
            vals.append(rng.choice(pool))
        elif ty == "int":
            vals.append(rng.choice([0, 17, 18, 30, 70]))
        else:
            attrs = {}
            for a, aty in sh.obj_attrs.get(f, {}).items():
                attrs[a] = rng.choice([17, 18, 30, 70]) if aty == "int" else rng.choice(SUBS + OBJS[:2])
            if "Age" in attrs:
                attrs["Mgr"] = Obj(Name=rng.choice(SUBS))
                attrs["Grp"] = Obj(Name=rng.choice(SUBS))
            if rng.random() < 0.1 and attrs:
                attrs.pop(rng.choice(sorted(attrs)))          # a missing attribute now and then
            vals.append(Obj(**attrs))
    return vals


def gen_rule(rng, sh, gen_sub):
    """one policy rule: (values, {eval field: sub AST})"""
    vals, subs = [], {}
    for f in sh.pdef:
        if f in sh.eval_fields:
            e = gen_sub()
            subs[f] = e
            toks = tokens_of(e)
            vals.append(render(toks, gaps_for(toks, rng.choice(["none", "wide", "random"]), rng)).strip())
        elif f == "eft":
            vals.append(rng.choice(["allow", "allow", "deny", "deny", "maybe"]))
        else:
            pool = {"sub": SUBS, "obj": OBJS, "act": ACTS, "dom": DOMS}.get(f, SUBS)
            vals.append(rng.choice(pool))
    return vals, subs


def gen_grouping(rng, sh):
    gs = {}
    for g, arity in sh.gdefs:
        rules = []
        pool = OBJS if g == "g2" else SUBS
        for _ in range(rng.randint(0, 4)):
            a, b = rng.choice(pool), rng.choice(pool + ["role1"])
            r = [a, b] + ([rng.choice(DOMS)] if arity == 3 else [])
            if r not in rules and a != b:
                rules.append(r)
        gs[g] = rules
    return gs


def model_text(sh, matcher_key, matcher_lines_, effect_idx, plain_effect_idx=0):
    """the full model text; the matcher under test is `matcher_key` (m or m2)"""
    sfx = sh.sfx
    L = ["[request_definition]"]
    if sfx:
        L += ["r = sub, obj, act", f"r{sfx} = " + ", ".join(sh.rdef)]
    else:
        L += ["r = " + ", ".join(sh.rdef)]
    L += ["", "[policy_definition]"]
    if sfx:
        L += ["p = sub, obj, act", f"p{sfx} = " + ", ".join(sh.pdef)]
    else:
        L += ["p = " + ", ".join(sh.pdef)]
    if sh.gdefs:
        L += ["", "[role_definition]"] + [f"{g} = " + ", ".join(["_"] * n) for g, n in sh.gdefs]
    L += ["", "[policy_effect]"]
    if sfx:
        L += ["e = " + EFFECT_TEXT[plain_effect_idx], f"e{sfx} = " + EFFECT_TEXT[effect_idx]]
    else:
        L += ["e = " + EFFECT_TEXT[effect_idx]]
    L += ["", "[matchers]"]
    if sfx:
        L += ["m = r.sub == p.sub && r.obj == p.obj && r.act == p.act"]
    L += list(matcher_lines_)
    return "\n".join(L) + "\n"


# ------------------------------------------------------------------------------ the REAL enforcer
def run_real(text, sh, rules, grouping, user_fns, requests, etype_override=None):
    """returns one observation per request: [0, decision] or [999, code]; an exception while building the
    enforcer is the observation of every request"""
    try:
        m = Model()
        m.load_model_from_text(text)
        e = casbin.Enforcer(m)
        for name in user_fns:
            e.add_function(name, USER_FNS[name])
        pt = "p" + sh.sfx
        for r in rules:
            e.add_named_policy(pt, *r)
        for g, grules in grouping.items():
            for gr in grules:
                e.add_named_grouping_policy(g, *gr)
        stored = len(e.get_named_policy(pt))
    except Exception as exc:  # noqa
        return [[999, classify(exc)] for _ in requests], None
    obs = []
    for req in requests:
        try:
            if sh.sfx:
                ctx = e.new_enforce_context(sh.sfx)
                if etype_override is not None:
                    ctx.etype = etype_override
                d = e.enforce(ctx, *req)
            else:
                d = e.enforce(*req)
            obs.append([0, int(d)] if isinstance(d, bool) else [998, repr(d)])
        except Exception as exc:  # noqa
            obs.append([999, classify(exc)])
    return obs, stored


def wire_world(sh, rules, grouping, user_fns):
    return [[[g, grouping[g]] for g, _ in sh.gdefs], sorted(user_fns), [["p" + sh.sfx, [list(r) for r in rules]]]]


def model_req(text, sh, rules, grouping, user_fns, req, etype_override=None):
    s = sh.sfx
    return (1, [text, "r" + s, "p" + s, etype_override if etype_override is not None else "e" + s, "m" + s,
                wire_world(sh, rules, grouping, user_fns), [wire_value(v) for v in req]])


def spec_req(effect_idx, sh, ast, rules, subs, grouping, user_fns, req):
    return (2, [effect_idx, wire_world(sh, rules, grouping, user_fns), sh.sfx, sh.sfx, sh.rdef, sh.pdef,
                [wire_value(v) for v in req], wire_expr(ast),
                [[list(r), [[f, wire_expr(x)] for f, x in sorted(sb.items())]] for r, sb in zip(rules, subs)]])


# ------------------------------------------------------------------------------ ONE enforcer through several worlds
# A "world" is an ordinary case (shape, matcher lines, rules, grouping, registered user functions, requests, effect)
# plus optional keys:
#   via       "set_model": the matcher/effect is replaced on the living enforcer by set_model(new Model)
#   swap_rm   the role manager objects are replaced (set_named_role_manager + build_role_links) before this world's
#             grouping changes are applied
#   reenter   a request that every registered user function asks the SAME enforcer before answering (a nested
#             question; the function's value is unchanged)
#   ask       "plain": on a shape with second definitions the requests are made WITHOUT a context (definitions r, p,
#             e, m of the same model, rules plain_rules)
# The property quantifies over models, policies, role assignments and function tables: what a rule's matcher evaluates
# to is a function of the CURRENT ones - not of what the same enforcer evaluated before.
def world_text(c):
    sh = SHAPE_BY_NAME[c["shape"]]
    return model_text(sh, "m" + sh.sfx, c["lines"], c["effect"])


def _wrap_reentrant(fn, state):
    def f(*args):
        nested = state.get("nested")
        if nested is not None and not state["busy"]:
            state["busy"] = True
            try:
                nested()
            except Exception:  # noqa
                pass
            finally:
                state["busy"] = False
        return fn(*args)
    return f


def run_real_seq(worlds, requests_of):
    """worlds: list of world dicts; requests_of(i) -> the request values of world i (Obj instances shared with the
    oracle requests).  Returns one list of observations per world ([0, decision] / [999, code] per request) and a
    harness note when a world's rules were not stored as given."""
    e, prev, state, note = None, None, {"nested": None, "busy": False}, None
    out = []
    for i, c in enumerate(worlds):
        sh = SHAPE_BY_NAME[c["shape"]]
        text = world_text(c)
        pt = "p" + sh.sfx
        rules = [list(r) for r in c["rules"]]
        plain_rules = [list(r) for r in c.get("plain_rules") or []]
        grouping = {g: [list(r) for r in c["grouping"].get(g, [])] for g, _ in sh.gdefs}
        reqs = requests_of(i)

        def add_all():
            for r in rules:
                e.add_named_policy(pt, *r)
            if sh.sfx:
                for r in plain_rules:
                    e.add_named_policy("p", *r)
            for g, grules in grouping.items():
                for gr in grules:
                    e.add_named_grouping_policy(g, *gr)
        try:
            same = (e is not None and prev is not None and world_text(prev) == text and c.get("via") != "set_model"
                    and set(prev["user_fns"]) <= set(c["user_fns"]))
            if e is None:
                m = Model()
                m.load_model_from_text(text)
                e = casbin.Enforcer(m)
                for name in c["user_fns"]:
                    e.add_function(name, _wrap_reentrant(USER_FNS[name], state))
                add_all()
            elif not same:
                m = Model()
                m.load_model_from_text(text)
                e.set_model(m)
                e.clear_policy()
                for name in c["user_fns"]:
                    e.add_function(name, _wrap_reentrant(USER_FNS[name], state))
                add_all()
                e.build_role_links()
            else:
                for name in c["user_fns"]:
                    if name not in prev["user_fns"]:
                        e.add_function(name, _wrap_reentrant(USER_FNS[name], state))
                if c.get("swap_rm"):
                    for g, _ in sh.gdefs:
                        old = e.get_named_role_manager(g)
                        e.set_named_role_manager(g, type(old)(10))
                    e.build_role_links()
                old_rules = [list(r) for r in prev["rules"]]
                old_plain = [list(r) for r in prev.get("plain_rules") or []]
                kept = [r for r in old_rules if r in rules]
                keptp = [r for r in old_plain if r in plain_rules]
                if rules[:len(kept)] == kept and plain_rules[:len(keptp)] == keptp:
                    for r in old_rules:
                        if r not in rules:
                            e.remove_named_policy(pt, *r)
                    for r in rules[len(kept):]:
                        e.add_named_policy(pt, *r)
                    if sh.sfx:
                        for r in old_plain:
                            if r not in plain_rules:
                                e.remove_named_policy("p", *r)
                        for r in plain_rules[len(keptp):]:
                            e.add_named_policy("p", *r)
                    for g, _ in sh.gdefs:
                        oldg = [list(r) for r in prev["grouping"].get(g, [])]
                        for gr in oldg:
                            if gr not in grouping[g]:
                                e.remove_named_grouping_policy(g, *gr)
                        for gr in grouping[g]:
                            if gr not in oldg:
                                e.add_named_grouping_policy(g, *gr)
                else:
                    e.clear_policy()
                    add_all()
            stored = [list(r) for r in e.get_named_policy(pt)]
            if stored != rules and note is None:
                note = f"world {i}: stored {pt} rules {stored} are not the rules put there {rules}"
        except Exception as exc:  # noqa
            out.append([[999, classify(exc)] for _ in reqs])
            e, prev = None, None
            continue
        plain = c.get("ask") == "plain"

        def ask(req):
            if sh.sfx and not plain:
                ctx = e.new_enforce_context(sh.sfx)
                if c.get("etype") is not None:
                    ctx.etype = c["etype"]
                return e.enforce(ctx, *req)
            return e.enforce(*req)
        nested_req = c.get("reenter")
        state["nested"] = (lambda: ask([value_from_desc(v) for v in nested_req])) if nested_req is not None else None
        obs = []
        for req in reqs:
            try:
                d = ask(req)
                obs.append([0, int(d)] if isinstance(d, bool) else [998, repr(d)])
            except Exception as exc:  # noqa
                obs.append([999, classify(exc)])
        state["nested"] = None
        out.append(obs)
        prev = c
    return out, note


def world_oracle_reqs(c, reqs, subs, ast):
    """(model requests, spec requests) of one world for the given request values"""
    sh = SHAPE_BY_NAME[c["shape"]]
    text = world_text(c)
    if c.get("ask") == "plain":
        acl = SHAPE_BY_NAME["acl"]
        pr = [list(r) for r in c.get("plain_rules") or []]
        world = [[], sorted(c["user_fns"]), [["p", pr]]]
        mq = [(1, [text, "r", "p", "e", "m", world, [wire_value(v) for v in r]]) for r in reqs]
        sq = [spec_req(0, acl, ACL3, pr, [{} for _ in pr], {}, c["user_fns"], r) for r in reqs]
        return mq, sq
    eff = c["effect"] if c.get("etype") is None else 0
    mq = [model_req(text, sh, c["rules"], c["grouping"], c["user_fns"], r, c.get("etype")) for r in reqs]
    sq = [spec_req(eff, sh, ast, c["rules"], subs, c["grouping"], c["user_fns"], r) for r in reqs]
    return mq, sq


# ======================================================================================================================
# Matcher TEXTS of unusual shape (stratum "matcher-text-shapes" of c02.py): stacked negations (!!x, !!!x, ! !x, !(!x)) in
# the matcher and in rule texts run through eval(); user-registered functions whose NAMES contain the library's own
# keywords (eval, g, p, r, in, not, and, or); the empty policy under every such matcher.  The expression language here is a
# small JSON tree with its own renderer and its own evaluator (the meaning of the documented operators, written down
# directly), so a case carries everything a replay needs.
#   term   ["r", field] | ["p", field] | ["lit", text]
#   tree   ["cmp", term, "=="|"!=", term] | ["call", name, [term..]] | ["in", term, [text..]] | ["par", tree]
#          | ["neg", "!"|"! ", tree] | ["and", sep, [tree..]] | ["or", sep, [tree..]] | ["eval", pfield]
# A negation is only ever applied to a unit (call, parenthesised expression, eval(..), another negation); an `or` below an
# `and` is parenthesised.  Rule fields named in ["eval", f] hold a tree over the request only, stored as rendered text.
TS_RDEF = ["sub", "obj", "act"]
TS_SUBS = ["alice", "bob", "root", ""]
TS_OBJS = ["/data/1", "/tmp/1", ""]
TS_ACTS = ["read", "write", ""]
# names a user may well give a function; each contains (or is built around) a word the library's text rewriting looks for
TS_NAMES = ["acl_eval", "retrieval", "re_eval", "doEval", "evaluate", "eval_ok", "gmember", "g_of", "gg", "p_owner", "r_check",
            "rp", "pr2", "inside", "is_in", "in_", "notify", "not_banned", "android", "and_", "order_ok", "or_", "keyMatch_",
            "regexMatchx", "allow", "some"]


def ts_key_match(k1, k2):
    """documented keyMatch: the pattern may end in *"""
    i = k2.find("*")
    if i == -1:
        return k1 == k2
    if len(k1) > i:
        return k1[:i] == k2[:i]
    return k1 == k2[:i]


def ts_term_text(t, dq):
    if t[0] == "lit":
        q = '"' if dq else "'"
        return q + t[1] + q
    return f"{t[0]}.{t[1]}"


def ts_render(t, dq=True):
    k = t[0]
    if k == "cmp":
        return f"{ts_term_text(t[1], dq)} {t[2]} {ts_term_text(t[3], dq)}"
    if k == "call":
        return f"{t[1]}(" + ", ".join(ts_term_text(x, dq) for x in t[2]) + ")"
    if k == "in":
        q = '"' if dq else "'"
        return f"{ts_term_text(t[1], dq)} in (" + ", ".join(q + x + q for x in t[2]) + ")"
    if k == "par":
        return "(" + ts_render(t[1], dq) + ")"
    if k == "neg":
        return t[1] + ts_render(t[2], dq)
    if k in ("and", "or"):
        return t[1].join(ts_render(x, dq) for x in t[2])
    if k == "eval":
        return f"eval(p.{t[1]})"
    raise ValueError(t)


def ts_value(t, r, p, rule_trees):
    """r, p: dicts field -> text; rule_trees: field -> tree for the eval fields of THIS rule"""
    k = t[0]

    def term(x):
        return x[1] if x[0] == "lit" else (r if x[0] == "r" else p)[x[1]]
    if k == "cmp":
        return (term(t[1]) == term(t[3])) == (t[2] == "==")
    if k == "call":
        a = [term(x) for x in t[2]]
        return ts_key_match(*a) if t[1] == "keyMatch" else a[0] == a[1]       # every user function here is equality
    if k == "in":
        return term(t[1]) in t[2]
    if k == "par":
        return ts_value(t[1], r, p, rule_trees)
    if k == "neg":
        return not ts_value(t[2], r, p, rule_trees)
    if k == "and":
        return all(ts_value(x, r, p, rule_trees) for x in t[2])
    if k == "or":
        return any(ts_value(x, r, p, rule_trees) for x in t[2])
    if k == "eval":
        return ts_value(rule_trees[t[1]], r, p, rule_trees)
    raise ValueError(t)


def ts_has_eval(t):
    if t[0] == "eval":
        return True
    if t[0] in ("par",):
        return ts_has_eval(t[1])
    if t[0] == "neg":
        return ts_has_eval(t[2])
    if t[0] in ("and", "or"):
        return any(ts_has_eval(x) for x in t[2])
    return False


def ts_negs(unit, styles):
    """styles: one of "!", "! ", "!(" per negation, outermost first; "!(" parenthesises what it negates"""
    t = unit
    for s_ in reversed(styles):
        t = ["neg", "!", ["par", t]] if s_ == "!(" else ["neg", s_, t]
    return t


TS_MODEL = """[request_definition]
r = sub, obj, act
[policy_definition]
p = %s
[policy_effect]
e = some(where (p.eft == allow))
[matchers]
m = %s
"""


def ts_rule_values(pdef, rule):
    """stored texts of one rule (eval fields rendered with single quotes) and the trees of its eval fields"""
    vals, trees = [], {}
    for f, x in zip(pdef, rule):
        if isinstance(x, (list, tuple)):
            trees[f] = x
            vals.append(ts_render(x, dq=False))
        else:
            vals.append(x)
    return vals, trees


def ts_judge(case, only=None):
    """case: dict(pdef, tree, user_fns, phases=[[rule..]..], requests).  ONE enforcer; for every phase the stored rules are
    removed one by one and the phase's rules added, then every request is asked.  Returns (judged, failures) with
    failures = [(phase index, request, observed, expected)].  SPEC: allow-override over the rules the matcher tree is true
    of; with no rule stored the tree is judged once with every p.<field> = '' (not asked when the matcher contains a real
    eval(): there is no rule text to evaluate)."""
    pdef, tree = case["pdef"], case["tree"]
    text = TS_MODEL % (", ".join(pdef), ts_render(tree))
    fails, n = [], 0
    try:
        e = casbin.Enforcer(casbin.Enforcer.new_model(text=text))
        for name in case["user_fns"]:
            e.add_function(name, lambda a, b: a == b)
    except Exception as exc:  # noqa
        return 1, [(0, None, dict(raised_while_building=type(exc).__name__, message=str(exc)[:160]), "an enforcer")]
    for pi, rules in enumerate(case["phases"]):
        for old in [list(x) for x in e.get_policy()]:
            e.remove_policy(*old)
        vals = [ts_rule_values(pdef, r) for r in rules]
        for v, _ in vals:
            e.add_policy(*v)
        if not rules and ts_has_eval(tree):
            continue
        for q in case["requests"]:
            if only is not None and (pi, q) != only:
                continue
            r = dict(zip(TS_RDEF, q))
            if rules:
                want = any(ts_value(tree, r, dict(zip(pdef, v)), tr) for v, tr in vals)
            else:
                want = bool(ts_value(tree, r, {f: "" for f in pdef}, {}))
            n += 1
            try:
                got = e.enforce(*q)
            except Exception as exc:  # noqa
                got = f"raised {type(exc).__name__}: {str(exc)[:120]}"
            if got is not want:
                fails.append((pi, q, got, want))
    return n, fails


def ts_cases(rng, n_random):
    R_, P_, L_ = (lambda f: ["r", f]), (lambda f: ["p", f]), (lambda s_: ["lit", s_])
    pdef = ["sub", "obj", "act"]
    rules = [["alice", "/data/*", "read"], ["bob", "/tmp/*", "write"], ["alice", "/tmp/1", "write"], ["root", "*", "read"]]
    reqs = [[s_, o, a] for s_ in TS_SUBS for o in TS_OBJS for a in TS_ACTS]
    plain = [["cmp", R_("sub"), "==", P_("sub")], ["call", "keyMatch", [R_("obj"), P_("obj")]], ["cmp", R_("act"), "==", P_("act")],
             ["cmp", R_("act"), "!=", P_("act")], ["in", R_("act"), ["read", "write"]], ["call", "eqf", [R_("sub"), P_("sub")]],
             ["cmp", R_("sub"), "==", L_("root")], ["cmp", R_("obj"), "!=", P_("obj")]]
    unit = lambda t: t if t[0] == "call" else ["par", t]
    all_styles = lambda k: [["!"] * k, ["! "] * k, ["!("] * k, [rng.choice(["!", "! ", "!("]) for _ in range(k)]]
    phases3 = lambda: [[], [list(r) for r in rng.sample(rules, rng.randint(1, 3))], []]
    out = []

    def mk(part, tree, pd=pdef, fns=("eqf",), phases=None):
        out.append(dict(stratum="matcher-text-shapes", part=part, pdef=list(pd), tree=tree, matcher=ts_render(tree), user_fns=list(fns),
                        phases=phases if phases is not None else phases3(), requests=reqs))
    # (a1) k stacked negations of one unit, first / in the middle / last among other conjuncts, with and without blanks
    for a in plain:
        for k in (1, 2, 3, 4):
            for st in all_styles(k):
                others = rng.sample([x for x in plain if x is not a], 2)
                pos = rng.randrange(3)
                kids = others[:pos] + [ts_negs(unit(a), st)] + others[pos:]
                mk("stacked negations", ["and", rng.choice([" && ", "&&", " &&"]), kids])
    # (a2) negated parenthesised combinations
    for k in (1, 2, 3):
        for st in all_styles(k)[:3]:
            a, b, c = rng.sample(plain, 3)
            op = rng.choice(["and", "or"])
            inner = [op, " && " if op == "and" else rng.choice([" || ", "||"]), [ts_negs(unit(a), ["!"] * rng.randint(0, 2)), unit(b)]]
            mk("stacked negations", ["and", " && ", [ts_negs(["par", inner], st), c]])
            mk("stacked negations", ["or", rng.choice([" || ", "||"]), [ts_negs(["par", inner], st), ["and", "&&", [unit(c), ts_negs(unit(b), st)]]]])

    # (a3) random trees
    def rnd(d):
        x = rng.random()
        if d <= 0 or x < 0.3:
            a = rng.choice(plain)
            k = rng.choice([0, 0, 1, 2, 2, 3])
            return ts_negs(unit(a), [rng.choice(["!", "!", "! ", "!("]) for _ in range(k)]) if k else a
        if x < 0.65:
            return ["and", rng.choice([" && ", "&&"]), [y if y[0] != "or" else ["par", y] for y in (rnd(d - 1) for _ in range(rng.randint(2, 3)))]]
        if x < 0.85:
            return ["or", rng.choice([" || ", "||"]), [rnd(d - 1) for _ in range(2)]]
        return ts_negs(["par", rnd(d - 1)], [rng.choice(["!", "! ", "!("]) for _ in range(rng.randint(1, 3))])
    for _ in range(n_random):
        mk("stacked negations", rnd(2))
    # (a4) rule texts run through eval(): the stacked negations are in the RULE
    epdef = ["sub_rule", "obj", "act"]
    ratoms = [["cmp", R_("sub"), "==", L_("alice")], ["cmp", R_("sub"), "!=", L_("bob")], ["call", "eqf", [R_("sub"), L_("alice")]],
              ["call", "keyMatch", [R_("obj"), L_("/data/*")]], ["in", R_("act"), ["read", ""]]]
    rest = [["call", "keyMatch", [R_("obj"), P_("obj")]], ["cmp", R_("act"), "==", P_("act")]]
    for head in (["eval", "sub_rule"], ["neg", "!", ["eval", "sub_rule"]], ["neg", "!", ["neg", "!", ["eval", "sub_rule"]]],
                 ["neg", "! ", ["neg", "!", ["neg", "!", ["eval", "sub_rule"]]]]):
        for sep in (" && ", "&&"):
            for _ in range(max(2, n_random // 12)):
                erules = []
                for j, (o, a) in enumerate(rng.sample([("/data/*", "read"), ("/tmp/*", "write"), ("/tmp/1", "read"), ("*", "write")], 3)):
                    k = rng.choice([0, 1, 2, 2, 3, 4])
                    erules.append([ts_negs(unit(rng.choice(ratoms)), [rng.choice(["!", "!", "! ", "!("]) for _ in range(k)]), o, a])
                kids = [head] + rest if rng.random() < 0.6 else rest[:1] + [head] + rest[1:]
                mk("stacked negations in eval() rule texts", ["and", sep, kids], pd=epdef, phases=[erules, erules[:1]])
    # (b) user functions whose names contain the library's keywords; (c) each under the empty policy, before the first rule
    #     is added and after the last one was removed
    for name in TS_NAMES:
        call = ["call", name, [R_("sub"), P_("sub")]]
        acl = [call, ["cmp", R_("obj"), "==", P_("obj")], ["cmp", R_("act"), "==", P_("act")]]
        xr = [["alice", "/data/1", "read"], ["bob", "/tmp/1", "write"]]
        mk("keyword-like function names", ["or", " || ", [["cmp", R_("sub"), "==", L_("root")], ["par", ["and", " && ", acl]]]],
           fns=[name], phases=[[], xr, []])
        mk("keyword-like function names", ["and", "&&", acl[1:2] + [call] + acl[2:]], fns=[name], phases=[[], xr[:1], xr, []])
        mk("keyword-like function names", ["and", " && ", [ts_negs(call, [rng.choice(["!", "! "]) for _ in range(rng.randint(1, 2))]), acl[1]]],
           fns=[name], phases=[[], xr, []])
        # ... beside a real eval() in the matcher, and called from the rule text
        erules = [[["cmp", R_("sub"), "!=", L_("bob")], "/data/1", "read"], [["call", name, [R_("sub"), L_("bob")]], "/tmp/1", "write"]]
        mk("keyword-like function names", ["and", " && ", [["eval", "sub_rule"], ["call", name, [R_("obj"), P_("obj")]], ["cmp", R_("act"), "==", P_("act")]]],
           pd=epdef, fns=[name], phases=[erules, erules[1:]])
    return out
