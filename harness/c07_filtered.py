"""C07, filtered-loading stratum: 'after loading' also means after load_filtered_policy and after
load_increment_filtered_policy (FilteredFileAdapter on a temp file).  Implementation-level SPEC:
  explicit priority   stored rules in ascending numeric priority, equal priorities in arrival order (file order of
                      the rules a load brought in; rules loaded earlier arrived earlier), decision = first definite
                      match in that order;
  subject priority    every rule of a subject before every rule of a role it inherits from (over the LOADED role
                      assignments), rules of one subject in arrival order, decision = first definite match.
The subject-priority observations are also compared with coq/theories/Subject.v (oracle_C07 tag 2)."""
import os
import tempfile

import casbin
from casbin.model import Model
from casbin.persist.adapters import FilteredFileAdapter
from casbin.persist.adapters.filtered_file_adapter import Filter

from . import c07_subject

EXPLICIT = """[request_definition]
r = sub, obj, act
[policy_definition]
p = priority, sub, obj, act, eft
[role_definition]
g = _, _
[policy_effect]
e = priority(p.eft) || deny
[matchers]
m = g(r.sub, p.sub) && r.obj == p.obj && r.act == p.act
"""
SUBS = ["alice", "bob", "carol"]
OBJS = ["data1", "data2"]
PRIOS = ["1", "2", "2", "5", "10"]
EFTS = ["allow", "deny", "audit", "allow", "deny"]


def gen_case(rng, kind):
    if kind == "explicit":
        rules, seen = [], set()
        for _ in range(rng.randint(3, 9)):
            r = [rng.choice(PRIOS), rng.choice(SUBS), rng.choice(OBJS), "read", rng.choice(EFTS)]
            if tuple(r) not in seen:
                seen.add(tuple(r))
                rules.append(r)
        order = list(SUBS)
        rng.shuffle(order)
        k = rng.randint(1, 3)
        # first a filtered load of one subject (or of everything), then incremental loads of other subjects
        loads = [("filtered", ["", order[0]] if rng.random() < 0.7 else [])]
        if loads[0][1]:
            loads += [("incremental", ["", s]) for s in order[1:k]]
        return dict(kind=kind, p=rules, g=[], loads=loads)
    n = rng.randint(2, 5)
    names = c07_subject.NAMES[:n + 1]
    g, seen = [], set()
    for _ in range(rng.randint(1, 5)):
        i, j = rng.randrange(len(names)), rng.randrange(len(names))
        if i != j:
            e = [names[min(i, j)], names[max(i, j)]]
            if tuple(e) not in seen:
                seen.add(tuple(e))
                g.append(e)
    rules, seen = [], set()
    for _ in range(rng.randint(2, 8)):
        r = [rng.choice(names), rng.choice(OBJS), "read", rng.choice(EFTS)]
        if tuple(r) not in seen:
            seen.add(tuple(r))
            rules.append(r)
    rng.shuffle(rules)
    first = rng.choice([[], ["", "data1"], ["", "", "read"]])
    loads = [("filtered", first)]
    if first == ["", "data1"] and rng.random() < 0.6:
        loads.append(("incremental", ["", "data2"]))
    return dict(kind=kind, p=rules, g=g, loads=loads)


def run_impl(case):
    d = tempfile.mkdtemp(prefix="c07f_")
    path = os.path.join(d, "policy.csv")
    try:
        with open(path, "w") as f:
            for r in case["p"]:
                f.write("p, " + ", ".join(r) + "\n")
            for r in case["g"]:
                f.write("g, " + ", ".join(r) + "\n")
        m = Model()
        m.load_model_from_text(EXPLICIT if case["kind"] == "explicit" else c07_subject.MODEL_PLAIN)
        e = casbin.Enforcer(m, FilteredFileAdapter(path))
        obs, arrival = [], []
        for how, P in case["loads"]:
            flt = Filter()
            flt.P, flt.G = list(P), []
            o = dict(load=how, P=P)
            try:
                (e.load_filtered_policy if how == "filtered" else e.load_increment_filtered_policy)(flt)
            except Exception as ex:  # noqa
                o["err"] = type(ex).__name__ + ":" + str(ex)[:60]
                obs.append(o)
                break
            pol = [list(r) for r in e.get_policy()]
            if how == "filtered":
                arrival = []
            arrival = arrival + [r for r in case["p"] if r in pol and r not in arrival]
            o.update(policy=pol, gpolicy=[list(r) for r in e.get_grouping_policy()], arrival=[list(r) for r in arrival])
            dec = {}
            subs = sorted({r[1] if case["kind"] == "explicit" else r[0] for r in case["p"]} | {x for r in case["g"] for x in r})
            for s in subs:
                for ob in OBJS:
                    try:
                        dec[(s, ob, "read")] = bool(e.enforce(s, ob, "read"))
                    except Exception as ex:  # noqa
                        dec[(s, ob, "read")] = "raise:" + type(ex).__name__
            o["decisions"] = dec
            obs.append(o)
        return obs
    finally:
        try:
            os.unlink(path)
            os.rmdir(d)
        except OSError:
            pass


def spec_violation(case, o):
    if "err" in o:
        edges = {(("", r[0]), ("", r[1])) for r in case["g"]}
        nodes = {x for e2 in edges for x in e2}
        if any(n in c07_subject.reach_plus(edges, n) for n in nodes):
            return None
        return f"{o['load']} load raised {o['err']}"
    pol, arrival = o["policy"], o["arrival"]
    if sorted(map(tuple, pol)) != sorted(map(tuple, arrival)):
        return "the loaded rules are not the rules the loads brought in (harness bookkeeping or a lost/duplicated rule)"
    if case["kind"] == "explicit":
        want = sorted(arrival, key=lambda r: int(r[0]))                     # Python's sorted is stable
        if [int(r[0]) for r in pol] != sorted(int(r[0]) for r in pol):
            return f"after a {o['load']} load the stored rules are not in ascending numeric priority: {[r[0] for r in pol]}"
        if pol != want:
            return f"after a {o['load']} load rules of equal priority are not in arrival order"
        for (s, ob, act), d in o["decisions"].items():
            exp = False
            for r in pol:
                if r[1] == s and r[2] == ob and r[3] == act and r[4] in ("allow", "deny"):
                    exp = r[4] == "allow"
                    break
            if d != exp:
                return f"enforce({s},{ob},{act}) = {d}, but the first definite match in priority order says {exp}"
        return None
    oo = dict(stored_p=arrival, stored_g=o["gpolicy"], policy=pol, decisions=o["decisions"])
    return c07_subject.spec_violation(dict(dom=False), oo)


def run(chk, oracle, n):
    rng = chk.rng
    cases = [gen_case(rng, "explicit" if i % 2 == 0 else "subject") for i in range(n)]
    reqs, idx = [], []
    all_obs = []
    for ci, c in enumerate(cases):
        obs = run_impl(c)
        all_obs.append(obs)
        if c["kind"] == "subject":
            for k, o in enumerate(obs):
                if "err" not in o:
                    at = c07_subject.Atoms()
                    o["_atoms"] = at
                    reqs.append((2, [[], [at.rule(r) for r in o["gpolicy"]], [at.rule(r) for r in o["arrival"]]]))
                    idx.append((ci, k))
    reps = dict(zip(idx, oracle.query(reqs))) if (oracle is not None and reqs) else {}
    reported = 0
    for ci, (c, obs) in enumerate(zip(cases, all_obs)):
        for k, o in enumerate(obs):
            chk.count(("filtered-load", c["kind"], repr(c["p"]), repr(c["g"]), repr(c["loads"][:k + 1])))
            v = spec_violation(c, o)
            small = dict(c, loads=c["loads"][:k + 1])
            if v:
                if reported < 3:
                    chk.spec_fail(dict(stratum="filtered-load", case=small),
                                  {kk: (vv if kk != "decisions" else {" ".join(a): b for a, b in vv.items()})
                                   for kk, vv in o.items() if not kk.startswith("_")}, "see 'what'", v)
                reported += 1
                break
            rep = reps.get((ci, k))
            if rep is not None and "err" not in o:
                inv = {vv: kk for kk, vv in o["_atoms"].m.items()}
                if rep[0] != 0:
                    chk.disagree(dict(stratum="filtered-load", case=small), str(o["policy"]), str(rep),
                                 where="filtered load on a subject-priority model: model refuses, implementation loaded")
                elif [[inv[x] for x in r] for r in rep[1]] != o["policy"]:
                    chk.disagree(dict(stratum="filtered-load", case=small), str(o["policy"]),
                                 str([[inv[x] for x in r] for r in rep[1]]),
                                 where="filtered load on a subject-priority model: stored order differs from Subject.sort_by_subject")
    chk.extra.setdefault("strata", {})["filtered_load_cases"] = len(cases)
