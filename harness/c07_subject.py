"""C07, subject-priority stratum: real Enforcer on subjectPriority models vs coq/theories/Subject.v.

A case = (domain?, rounds) where every round is a list of edits applied through the management API followed by
save_policy() + load_policy() on the SAME enforcer (so anything the enforcer carries over from an earlier load
is exercised).  After every load:
  MODEL   get_policy() == sort_by_subject(stored g rules, stored p rules in store order)  (oracle_C07 tag 2), or
          both refuse (cycle / short rule); get_subject_hierarchy_map == hierarchy_map (tag 1);
  SPEC    (independent of the model, evaluated on the implementation's output)
          same rules as stored; every rule of a subject s before every rule of a role s inherits from (same
          domain); rules of one subject in arrival order; for every request the decision is the effect of the
          first rule in stored order that matches with a definite effect, else deny.
"""
import itertools

import casbin
from casbin import persist

NAMES = ["alice", "bob", "carol", "admin", "staff", "root"]
DOMS = ["domain1", "domain2"]
OBJS = ["data1", "data2"]
ACTS = ["read"]
EFTS = ["allow", "deny", "audit"]

MODEL_PLAIN = """[request_definition]
r = sub, obj, act
[policy_definition]
p = sub, obj, act, eft
[role_definition]
g = _, _
[policy_effect]
e = subjectPriority(p.eft) || deny
[matchers]
m = g(r.sub, p.sub) && r.obj == p.obj && r.act == p.act
"""
MODEL_DOM = """[request_definition]
r = sub, obj, dom, act
[policy_definition]
p = sub, obj, dom, act, eft
[role_definition]
g = _, _, _
[policy_effect]
e = subjectPriority(p.eft) || deny
[matchers]
m = g(r.sub, p.sub, r.dom) && r.dom == p.dom && r.obj == p.obj && r.act == p.act
"""


class MemAdapter(persist.Adapter):
    """keeps the policy as text lines, in the order save_policy wrote them"""

    def __init__(self, lines):
        self.lines = list(lines)

    def load_policy(self, model):
        for line in self.lines:
            persist.load_policy_line(line, model)

    def save_policy(self, model):
        out = []
        for sec in ("p", "g"):
            if sec in model.keys():
                for ptype, ast in model[sec].items():
                    for rule in ast.policy:
                        out.append(ptype + ", " + ", ".join(rule))
        self.lines = out
        return True


class Atoms:
    def __init__(self):
        self.m = {}

    def a(self, s):
        return self.m.setdefault(s, len(self.m) + 1)       # 0 is the default domain

    def rule(self, r):
        return [self.a(x) for x in r]


def reach_plus(edges, s):
    out, front = set(), {s}
    while front:
        nxt = {b for a, b in edges if a in front} - out
        out |= nxt
        front = nxt
    return out


def bounded_reach(edges, a, b, depth=10):
    if a == b:
        return True
    front, seen = {a}, {a}
    for _ in range(depth - 1):
        nxt = {y for x, y in edges if x in front} - seen
        if b in nxt:
            return True
        if not nxt:
            return False
        seen |= nxt
        front = nxt
    return False


def gen_case(rng, dom):
    """rounds of edits; edits: ('p+', rule) ('p-', rule) ('g+', rule) ('g-', rule)"""
    n = rng.randint(2, 6)
    names = NAMES[:n]
    doms = DOMS if dom else [None]
    cur_p, cur_g = [], []
    rounds = []
    for rnd in range(rng.randint(1, 3)):
        edits = []
        for _ in range(rng.randint(1, 7) if rnd == 0 else rng.randint(1, 4)):
            k = rng.random()
            if k < 0.45:
                s, o, e = rng.choice(names), rng.choice(OBJS), rng.choice(EFTS + ["allow", "deny"])
                r = [s, o] + ([rng.choice(doms)] if dom else []) + ["read", e]
                if r not in cur_p:
                    cur_p.append(r)
                    edits.append(("p+", r))
            elif k < 0.8:
                if rng.random() < 0.85:        # mostly upward edges (forest / DAG), sometimes arbitrary (cycles)
                    i = rng.randrange(n)
                    j = rng.randrange(n)
                    a, b = (names[min(i, j)], names[max(i, j)])
                else:
                    a, b = rng.choice(names), rng.choice(names)
                r = [a, b] + ([rng.choice(doms)] if dom else [])
                if r not in cur_g:
                    cur_g.append(r)
                    edits.append(("g+", r))
            elif k < 0.9 and cur_p:
                r = rng.choice(cur_p)
                cur_p.remove(r)
                edits.append(("p-", r))
            elif cur_g:
                r = rng.choice(cur_g)
                cur_g.remove(r)
                edits.append(("g-", r))
        if rng.random() < 0.15:
            # the reload happens while auto_build_role_links is off (the ordering does not depend on the role managers)
            edits.append(("cfg", ["auto_build", False]))
        rounds.append(edits)
    return dict(dom=dom, rounds=rounds, subcol=("user" if rng.random() < 0.3 else "sub"))


def deep_chain_cases(rng, count):
    """role chains deeper than the role manager's hierarchy bound (10): the level rounds must place every subject,
    however deep; rules arrive root first (the worst order), every subject's own rule contradicts its parent's"""
    for _ in range(count):
        n = rng.randint(11, 16)
        names = [f"u{i}" for i in range(n)]                       # u0 is the root role, u(n-1) the deepest subject
        g = [("g+", [names[i + 1], names[i]]) for i in range(n - 1)]
        if rng.random() < 0.5:
            rng.shuffle(g)
        p = [("p+", [names[i], "data1", "read", "allow" if i % 2 == 0 else "deny"]) for i in range(n)]
        if rng.random() < 0.3:
            rng.shuffle(p)
        yield dict(dom=False, rounds=[g + p])


def exhaustive_cases():
    """all hierarchies on 3 names (every subset of the 9 ordered pairs incl. self-loops: 512) with one rule per
    name in each of the 6 arrival orders is too many for quick; take all 512 graphs x 2 arrival orders"""
    names = NAMES[:3]
    pairs = [(a, b) for a in names for b in names]
    orders = [list(names), list(reversed(names))]
    for mask in range(1 << len(pairs)):
        g = [list(pairs[i]) for i in range(len(pairs)) if mask >> i & 1]
        for o in orders:
            edits = [("g+", r) for r in g] + [("p+", [s, "data1", "read", "deny" if s == names[0] else "allow"]) for s in o]
            yield dict(dom=False, rounds=[edits])


def run_impl(case):
    """returns list of per-load observations: dict(stored_g, stored_p, err|policy, hmap, decisions)"""
    dom = case["dom"]
    ad = MemAdapter([])
    text = MODEL_DOM if dom else MODEL_PLAIN
    if case.get("subcol", "sub") != "sub":
        # the subject is the FIRST policy column whatever it is called
        text = text.replace("p = sub,", "p = %s," % case["subcol"]).replace("p.sub", "p." + case["subcol"])
    m = casbin.Enforcer.new_model(text=text)
    e = casbin.Enforcer(m, ad)
    e.enable_auto_save(False)
    obs = []
    for edits in case["rounds"]:
        auto_build = True
        e.enable_auto_build_role_links(True)
        for kind, r in edits:
            if kind == "cfg":
                auto_build = bool(r[1])
                continue
            if kind == "p+":
                e.add_policy(*r)
            elif kind == "p-":
                e.remove_policy(*r)
            elif kind == "g+":
                e.add_grouping_policy(*r)
            else:
                e.remove_grouping_policy(*r)
        e.save_policy()
        stored_p = [[x.strip() for x in l.split(",")][1:] for l in ad.lines if l.startswith("p,")]
        stored_g = [[x.strip() for x in l.split(",")][1:] for l in ad.lines if l.startswith("g,")]
        o = dict(stored_p=stored_p, stored_g=stored_g)
        try:
            e.enable_auto_build_role_links(auto_build)
            e.load_policy()
            if not auto_build:
                e.enable_auto_build_role_links(True)
                e.build_role_links()
            o["policy"] = [list(r) for r in e.get_policy()]
            o["gpolicy"] = [list(r) for r in e.get_grouping_policy()]
            try:
                o["hmap"] = e.get_model().get_subject_hierarchy_map(e.get_grouping_policy())
            except Exception as ex:  # noqa
                o["hmap"] = "raise:" + type(ex).__name__
            subs = sorted({r[0] for r in stored_p} | {x for r in stored_g for x in r[:2]})
            dec = {}
            for s in subs:
                for ob in OBJS:
                    for d in (DOMS if dom else [None]):
                        req = [s, ob] + ([d] if dom else []) + ["read"]
                        try:
                            dec[tuple(req)] = bool(e.enforce(*req))
                        except Exception as ex:  # noqa
                            dec[tuple(req)] = "raise:" + type(ex).__name__
            o["decisions"] = dec
        except Exception as ex:  # noqa
            o["err"] = type(ex).__name__ + ":" + str(ex)[:60]
            o["policy_after_error"] = [list(r) for r in e.get_policy()]
        obs.append(o)
    return obs


def spec_violation(case, o):
    """SPEC evaluated on one load observation of the implementation; returns message or None"""
    dom = case["dom"]
    sp, sg = o["stored_p"], o["stored_g"]

    def node(r, is_p):
        if dom:
            return (r[2], r[0])
        return ("", r[0])
    edges = set()
    for r in sg:
        d = r[2] if len(r) > 2 else ""
        edges.add(((d, r[0]), (d, r[1])))
    nodes = {x for e2 in edges for x in e2}
    cyclic = any(n in reach_plus(edges, n) for n in nodes)
    if "err" in o:
        if not cyclic:
            return f"load_policy raised {o['err']} on an acyclic hierarchy"
        return None
    if cyclic:
        return "load_policy accepted a cyclic subject hierarchy"
    pol = o["policy"]
    if sorted(map(tuple, pol)) != sorted(map(tuple, sp)):
        return "the loaded rules are not the stored rules"
    pos = {tuple(r): i for i, r in enumerate(pol)}
    for r1 in sp:
        anc = reach_plus(edges, node(r1, True))
        for r2 in sp:
            if node(r2, True) in anc and not pos[tuple(r1)] < pos[tuple(r2)]:
                return f"rule {r2} of an inherited role is consulted before rule {r1} of the subject"
    for s in {node(r, True) for r in sp}:
        mine = [r for r in sp if node(r, True) == s]
        got = [r for r in pol if node(r, True) == s]
        if mine != got:
            return f"rules of subject {s} are not in arrival order"
    gflat = {}
    for (a, b) in edges:
        gflat.setdefault(a[0], set()).add((a[1], b[1]))
    for req, d in o["decisions"].items():
        if dom:
            s, ob, dm, act = req
        else:
            (s, ob, act), dm = req, ""
        want = False
        for r in pol:
            rs, ro = r[0], r[1]
            rd = r[2] if dom else ""
            ra, eft = (r[3], r[4]) if dom else (r[2], r[3])
            if rd == dm and ro == ob and ra == act and bounded_reach(gflat.get(dm, set()), s, rs):
                if eft == "allow":
                    want = True
                    break
                if eft == "deny":
                    want = False
                    break
        if d != want:
            return f"enforce{req} = {d}, but the first definite match in stored order says {want}"
    return None


def model_requests(case, obs):
    """oracle requests for every load observation (tag 2 then tag 1)"""
    reqs = []
    for o in obs:
        at = Atoms()
        for d in DOMS:
            at.a(d)
        g = [at.rule(r) for r in o["stored_g"]]
        p = [at.rule(r) for r in o["stored_p"]]
        o["_atoms"] = at
        reqs.append((2, [[2] if case["dom"] else [], g, p]))
        reqs.append((1, g))
    return reqs


def compare_model(case, o, rep_sort, rep_map):
    """returns None or a description of the difference between implementation and model"""
    at = o["_atoms"]
    inv = {v: k for k, v in at.m.items()}
    if "err" in o:
        if rep_sort[0] == 0:
            return f"implementation raised {o['err']}, model sorts"
        return None
    if rep_sort[0] != 0:
        return f"model refuses (code {rep_sort}), implementation loaded"
    mp = [[inv[x] for x in r] for r in rep_sort[1]]
    if mp != o["policy"]:
        return f"stored order differs: impl {o['policy']} model {mp}"
    if rep_map[0] == 0 and isinstance(o["hmap"], dict):
        mm = {}
        for d, n, l in rep_map[1]:
            dn = "" if d == 0 else inv[d]
            mm[(dn, inv[n])] = l
        im = {}
        for k, v in o["hmap"].items():
            d, n = k.split("::", 1)
            im[(d, n)] = v                                 # DEFAULT_DOMAIN = ""
        if mm != im:
            return f"level map differs: impl {im} model {mm}"
    return None


def run(chk, oracle, n_random, exhaustive=True, seed_cases=()):
    cases = list(seed_cases)
    if exhaustive:
        cases += list(exhaustive_cases())
    for i in range(n_random):
        cases.append(gen_case(chk.rng, dom=(i % 2 == 1)))
    if n_random:
        cases += list(deep_chain_cases(chk.rng, max(4, n_random // 60)))
    all_obs = [run_impl(c) for c in cases]
    reqs, index = [], []
    for ci, (c, obs) in enumerate(zip(cases, all_obs)):
        rq = model_requests(c, obs)
        for k in range(len(obs)):
            index.append((ci, k, len(reqs) + 2 * k))
        reqs += rq
    reps = oracle.query(reqs) if oracle is not None else None
    reported = 0
    for ci, k, ri in index:
        c, o = cases[ci], all_obs[ci][k]
        key = ("subject", c["dom"], repr(o["stored_g"]), repr(o["stored_p"]))
        chk.count(key if o["stored_g"] and o["stored_p"] else None)
        if ci % max(1, len(cases) // 3) == 0 and k == 0:
            chk.sample(dict(stratum="subject-priority", domain_model=c["dom"], rounds=c["rounds"][:2],
                            loaded=o.get("policy", o.get("err"))), cap=8)
        small = dict(dom=c["dom"], rounds=c["rounds"][:k + 1])
        v = spec_violation(c, o)
        if v:
            if reported < 3:
                small = shrink_case(small, lambda cc: any(spec_violation(cc, oo) for oo in run_impl(cc)))
                oo = next((x for x in run_impl(small) if spec_violation(small, x)), o)
                v = spec_violation(small, oo) or v
                o = oo
            reported += 1
            chk.spec_fail(dict(stratum="subject-priority", case=small),
                          {kk: (vv if kk != "decisions" else {" ".join(map(str, a)): b for a, b in vv.items()})
                           for kk, vv in o.items() if not kk.startswith("_")},
                          "see 'what'", v)
            continue
        if reps is not None:
            d = compare_model(c, o, reps[ri], reps[ri + 1])
            if d:
                chk.disagree(dict(stratum="subject-priority", case=small), str(o.get("policy", o.get("err"))),
                             str(reps[ri]), where="subject-priority load: " + d[:300])
    chk.extra.setdefault("strata", {})["subject_priority_loads"] = len(index)
    chk.extra["strata"]["subject_priority_exhaustive_graphs_on_3_names"] = 512 if exhaustive else 0
    return cases


def shrink_case(case, fails):
    """drop rounds' edits one by one while the case still fails"""
    cur = case
    changed = True
    while changed:
        changed = False
        for ri in range(len(cur["rounds"])):
            for ei in range(len(cur["rounds"][ri])):
                cand = dict(dom=cur["dom"], rounds=[list(r) for r in cur["rounds"]])
                del cand["rounds"][ri][ei]
                try:
                    if fails(cand):
                        cur = cand
                        changed = True
                        break
                except Exception:  # noqa
                    pass
            if changed:
                break
    return cur
