"""C07, subject-priority stratum: real Enforcer on subjectPriority models vs coq/theories/Subject.v.

A case = (domain?, rounds) where every round is a list of edits applied through the management API followed by
save_policy() + load_policy() on the SAME enforcer (so anything the enforcer carries over from an earlier load
is exercised).  After every load:
  MODEL   get_policy() == sort_by_subject(stored g rules, stored p rules in store order)  (oracle_C07 tag 2), or
          both refuse (cycle / short rule); get_subject_hierarchy_map == hierarchy_map (tag 1);
  SPEC    (independent of the model, evaluated on the implementation's output)
          same rules as stored; every rule of a subject s before every rule of a role s inherits from (same
          domain); rules of one subject in arrival order; for every request the decision is the effect of the
          first rule in stored order that matches with a definite effect, else deny.

Two further families (same SPEC): (a) model TEXTS whose effect line is spelled unusually (blanks / tabs / line
continuation / comment around the pieces of "subjectPriority(p.eft) || deny"): a spelling the library refuses is
fine (nothing is decided), a spelling it accepts is a subject-priority model and is judged like the canonical one;
(b) an enforcer whose MODEL IS REPLACED: it starts its life on an allow-override / deny-override / allow-and-deny
model of the same shape (policy loaded, requests decided) and is switched to the subject-priority model with
set_model() or by load_model() of the rewritten model file, then set_adapter() and the rounds as above.
"""
import itertools
import os
import tempfile

import casbin
from casbin import persist

NAMES = ["alice", "bob", "carol", "admin", "staff", "root"]
DOMS = ["domain1", "domain2"]
OBJS = ["data1", "data2"]
ACTS = ["read"]
EFTS = ["allow", "deny", "audit"]

MODEL_PLAIN = """[request_definition]
r = sub, obj, act
[policy_definition]
p = sub, obj, act, eft
[role_definition]
g = _, _
[policy_effect]
e = subjectPriority(p.eft) || deny
[matchers]
m = g(r.sub, p.sub) && r.obj == p.obj && r.act == p.act
"""
MODEL_DOM = """[request_definition]
r = sub, obj, dom, act
[policy_definition]
p = sub, obj, dom, act, eft
[role_definition]
g = _, _, _
[policy_effect]
e = subjectPriority(p.eft) || deny
[matchers]
m = g(r.sub, p.sub, r.dom) && r.dom == p.dom && r.obj == p.obj && r.act == p.act
"""


EFFECT_CANON = "e = subjectPriority(p.eft) || deny"
# the effect texts an enforcer may have lived on before its model is replaced (case["start"]["effect"] indexes this)
START_EFFECTS = ["some(where (p.eft == allow))", "!some(where (p.eft == deny))",
                 "some(where (p.eft == allow)) && !some(where (p.eft == deny))"]
# unusual spellings of the effect line (the text after the key "e"): the canonical pieces with blanks, tabs, a line
# continuation or a trailing comment between them.  Which of them the library accepts is the library's business.
SPELLINGS = [" = subjectPriority(p.eft)  ||  deny", " = subjectPriority(p.eft)\t||\tdeny", " = subjectPriority(p.eft) ||  deny",
             " = subjectPriority(p.eft)  || deny", " = subjectPriority(p.eft)\t|| deny", " = subjectPriority(p.eft)||deny",
             " = subjectPriority(p.eft) ||deny", " = subjectPriority( p.eft ) || deny", " = subjectPriority (p.eft) || deny",
             " =   subjectPriority(p.eft) || deny   ", "=subjectPriority(p.eft) || deny", "\t=\tsubjectPriority(p.eft) || deny\t",
             " = subjectPriority(p_eft) || deny", " = subjectPriority(p_eft)  ||  deny", " = subjectPriority(p.eft) || deny # most specific subject wins",
             " = subjectPriority(p.eft) || \\\n    deny", " = subjectPriority(p.eft) \\\n || deny", " = subjectPriority(p.eft) ||\\\ndeny",
             " = subjectPriority(p.eft) || deny \t "]
BLANKS = ["", " ", "  ", "\t", " \t"]


def gen_spelling(rng):
    """the pieces of the canonical effect line joined by random runs of blanks / tabs"""
    b = lambda: rng.choice(BLANKS + ["", " ", " "])      # noqa: E731
    return (rng.choice([" ", "", "\t", "  "]) + "=" + b() + "subjectPriority" + rng.choice(["", "", "", " "]) + "(" +
            rng.choice(["", "", " "]) + "p" + rng.choice([".", ".", "_"]) + "eft" + rng.choice(["", "", " "]) + ")" + b() + "||" + b() +
            "deny" + rng.choice(["", "", " ", "\t", "  # comment"]))


def model_text(case, effect=None):
    """model text of a case; `effect` (a right-hand side) replaces the subject-priority effect (the model an enforcer
    lived on before the switch)"""
    text = MODEL_DOM if case["dom"] else MODEL_PLAIN
    if case.get("subcol", "sub") != "sub":
        # the subject is the FIRST policy column whatever it is called
        text = text.replace("p = sub,", "p = %s," % case["subcol"]).replace("p.sub", "p." + case["subcol"])
    if effect is not None:
        return text.replace(EFFECT_CANON, "e = " + effect)
    if case.get("effect_line") is not None:
        text = text.replace(EFFECT_CANON, "e" + case["effect_line"])
    return text


class MemAdapter(persist.Adapter):
    """keeps the policy as text lines, in the order save_policy wrote them"""

    def __init__(self, lines):
        self.lines = list(lines)

    def load_policy(self, model):
        for line in self.lines:
            persist.load_policy_line(line, model)

    def save_policy(self, model):
        out = []
        for sec in ("p", "g"):
            if sec in model.keys():
                for ptype, ast in model[sec].items():
                    for rule in ast.policy:
                        out.append(ptype + ", " + ", ".join(rule))
        self.lines = out
        return True


class Atoms:
    def __init__(self):
        self.m = {}

    def a(self, s):
        return self.m.setdefault(s, len(self.m) + 1)       # 0 is the default domain

    def rule(self, r):
        return [self.a(x) for x in r]


def reach_plus(edges, s):
    out, front = set(), {s}
    while front:
        nxt = {b for a, b in edges if a in front} - out
        out |= nxt
        front = nxt
    return out


def bounded_reach(edges, a, b, depth=10):
    if a == b:
        return True
    front, seen = {a}, {a}
    for _ in range(depth - 1):
        nxt = {y for x, y in edges if x in front} - seen
        if b in nxt:
            return True
        if not nxt:
            return False
        seen |= nxt
        front = nxt
    return False


def gen_case(rng, dom):
    """rounds of edits; edits: ('p+', rule) ('p-', rule) ('g+', rule) ('g-', rule)"""
    n = rng.randint(2, 6)
    names = NAMES[:n]
    doms = DOMS if dom else [None]
    cur_p, cur_g = [], []
    rounds = []
    for rnd in range(rng.randint(1, 3)):
        edits = []
        for _ in range(rng.randint(1, 7) if rnd == 0 else rng.randint(1, 4)):
            k = rng.random()
            if k < 0.45:
                s, o, e = rng.choice(names), rng.choice(OBJS), rng.choice(EFTS + ["allow", "deny"])
                r = [s, o] + ([rng.choice(doms)] if dom else []) + ["read", e]
                if r not in cur_p:
                    cur_p.append(r)
                    edits.append(("p+", r))
            elif k < 0.8:
                if rng.random() < 0.85:        # mostly upward edges (forest / DAG), sometimes arbitrary (cycles)
                    i = rng.randrange(n)
                    j = rng.randrange(n)
                    a, b = (names[min(i, j)], names[max(i, j)])
                else:
                    a, b = rng.choice(names), rng.choice(names)
                r = [a, b] + ([rng.choice(doms)] if dom else [])
                if r not in cur_g:
                    cur_g.append(r)
                    edits.append(("g+", r))
            elif k < 0.9 and cur_p:
                r = rng.choice(cur_p)
                cur_p.remove(r)
                edits.append(("p-", r))
            elif cur_g:
                r = rng.choice(cur_g)
                cur_g.remove(r)
                edits.append(("g-", r))
        if rng.random() < 0.15:
            # the reload happens while auto_build_role_links is off (the ordering does not depend on the role managers)
            edits.append(("cfg", ["auto_build", False]))
        rounds.append(edits)
    return dict(dom=dom, rounds=rounds, subcol=("user" if rng.random() < 0.3 else "sub"))


def deep_chain_cases(rng, count):
    """role chains deeper than the role manager's hierarchy bound (10): the level rounds must place every subject,
    however deep; rules arrive root first (the worst order), every subject's own rule contradicts its parent's"""
    for _ in range(count):
        n = rng.randint(11, 16)
        names = [f"u{i}" for i in range(n)]                       # u0 is the root role, u(n-1) the deepest subject
        g = [("g+", [names[i + 1], names[i]]) for i in range(n - 1)]
        if rng.random() < 0.5:
            rng.shuffle(g)
        p = [("p+", [names[i], "data1", "read", "allow" if i % 2 == 0 else "deny"]) for i in range(n)]
        if rng.random() < 0.3:
            rng.shuffle(p)
        yield dict(dom=False, rounds=[g + p])


def exhaustive_cases():
    """all hierarchies on 3 names (every subset of the 9 ordered pairs incl. self-loops: 512) with one rule per
    name in each of the 6 arrival orders is too many for quick; take all 512 graphs x 2 arrival orders"""
    names = NAMES[:3]
    pairs = [(a, b) for a in names for b in names]
    orders = [list(names), list(reversed(names))]
    for mask in range(1 << len(pairs)):
        g = [list(pairs[i]) for i in range(len(pairs)) if mask >> i & 1]
        for o in orders:
            edits = [("g+", r) for r in g] + [("p+", [s, "data1", "read", "deny" if s == names[0] else "allow"]) for s in o]
            yield dict(dom=False, rounds=[edits])


def switched_enforcer(case, text, start):
    """an enforcer that has lived on ANOTHER model of the same shape (effect START_EFFECTS[start['effect']], the rules
    start['prior'] loaded, every request over them decided once) and is then switched to the model `text`:
    'set_model' = set_model(new Model object); 'load_model' = the model file it was built from is rewritten and
    load_model() re-reads it"""
    dom = case["dom"]
    first = model_text(case, effect=START_EFFECTS[start["effect"]])
    prior = MemAdapter([", ".join(l) for l in start.get("prior", [])])

    def live(e):
        for l in start.get("prior", []):
            if l[0] == "p":
                e.enforce(*l[1:-1])

    if start["switch"] == "set_model":
        e = casbin.Enforcer(casbin.Enforcer.new_model(text=first), prior)
        live(e)
        e.set_model(casbin.Enforcer.new_model(text=text))
        return e
    d = tempfile.mkdtemp(prefix="c07s_")
    path = os.path.join(d, "model.conf")
    try:
        with open(path, "w") as f:
            f.write(first)
        e = casbin.Enforcer(path, prior)
        live(e)
        with open(path, "w") as f:
            f.write(text)
        e.load_model()
        return e
    finally:
        try:
            os.unlink(path)
            os.rmdir(d)
        except OSError:
            pass


def gen_start(rng, dom):
    """the earlier life of an enforcer whose model is replaced: effect, how the switch is made, rules it had loaded"""
    prior = []
    for _ in range(rng.randint(0, 4)):
        if rng.random() < 0.6:
            prior.append(["p", rng.choice(NAMES), rng.choice(OBJS)] + ([rng.choice(DOMS)] if dom else []) + ["read", rng.choice(["allow", "deny"])])
        else:
            i, j = sorted(rng.sample(range(len(NAMES)), 2))
            prior.append(["g", NAMES[i], NAMES[j]] + ([rng.choice(DOMS)] if dom else []))
    return dict(effect=rng.randrange(len(START_EFFECTS)), switch=rng.choice(["set_model", "set_model", "load_model"]), prior=prior)


def run_impl(case):
    """returns list of per-load observations: dict(stored_g, stored_p, err|policy, hmap, decisions)"""
    dom = case["dom"]
    ad = MemAdapter([])
    text = model_text(case)
    start = case.get("start")
    if start:
        e = switched_enforcer(case, text, start)
        e.set_adapter(ad)
    elif case.get("effect_line") is not None:
        try:
            m = casbin.Enforcer.new_model(text=text)
            e = casbin.Enforcer(m, ad)
        except Exception as ex:  # noqa
            # the library refuses this spelling of the model: nothing is decided, nothing to judge
            return [dict(refused=type(ex).__name__ + ":" + str(ex)[:60])]
    else:
        m = casbin.Enforcer.new_model(text=text)
        e = casbin.Enforcer(m, ad)
    e.enable_auto_save(False)
    obs = []
    for edits in case["rounds"]:
        auto_build = True
        e.enable_auto_build_role_links(True)
        for kind, r in edits:
            if kind == "cfg":
                auto_build = bool(r[1])
                continue
            if kind == "p+":
                e.add_policy(*r)
            elif kind == "p-":
                e.remove_policy(*r)
            elif kind == "g+":
                e.add_grouping_policy(*r)
            else:
                e.remove_grouping_policy(*r)
        e.save_policy()
        stored_p = [[x.strip() for x in l.split(",")][1:] for l in ad.lines if l.startswith("p,")]
        stored_g = [[x.strip() for x in l.split(",")][1:] for l in ad.lines if l.startswith("g,")]
        o = dict(stored_p=stored_p, stored_g=stored_g)
        try:
            e.enable_auto_build_role_links(auto_build)
            e.load_policy()
            if not auto_build:
                e.enable_auto_build_role_links(True)
                e.build_role_links()
            o["policy"] = [list(r) for r in e.get_policy()]
            o["gpolicy"] = [list(r) for r in e.get_grouping_policy()]
            try:
                o["hmap"] = e.get_model().get_subject_hierarchy_map(e.get_grouping_policy())
            except Exception as ex:  # noqa
                o["hmap"] = "raise:" + type(ex).__name__
            subs = sorted({r[0] for r in stored_p} | {x for r in stored_g for x in r[:2]})
            dec = {}
            for s in subs:
                for ob in OBJS:
                    for d in (DOMS if dom else [None]):
                        req = [s, ob] + ([d] if dom else []) + ["read"]
                        try:
                            dec[tuple(req)] = bool(e.enforce(*req))
                        except Exception as ex:  # noqa
                            dec[tuple(req)] = "raise:" + type(ex).__name__
            o["decisions"] = dec
        except Exception as ex:  # noqa
            o["err"] = type(ex).__name__ + ":" + str(ex)[:60]
            o["policy_after_error"] = [list(r) for r in e.get_policy()]
        obs.append(o)
    return obs


def spec_violation(case, o):
    """SPEC evaluated on one load observation of the implementation; returns message or None"""
    dom = case["dom"]
    sp, sg = o["stored_p"], o["stored_g"]

    def node(r, is_p):
        if dom:
            return (r[2], r[0])
        return ("", r[0])
    edges = set()
    for r in sg:
        d = r[2] if len(r) > 2 else ""
        edges.add(((d, r[0]), (d, r[1])))
    nodes = {x for e2 in edges for x in e2}
    cyclic = any(n in reach_plus(edges, n) for n in nodes)
    if "err" in o:
        if not cyclic:
            return f"load_policy raised {o['err']} on an acyclic hierarchy"
        return None
    if cyclic:
        return "load_policy accepted a cyclic subject hierarchy"
    pol = o["policy"]
    if sorted(map(tuple, pol)) != sorted(map(tuple, sp)):
        return "the loaded rules are not the stored rules"
    pos = {tuple(r): i for i, r in enumerate(pol)}
    for r1 in sp:
        anc = reach_plus(edges, node(r1, True))
        for r2 in sp:
            if node(r2, True) in anc and not pos[tuple(r1)] < pos[tuple(r2)]:
                return f"rule {r2} of an inherited role is consulted before rule {r1} of the subject"
    for s in {node(r, True) for r in sp}:
        mine = [r for r in sp if node(r, True) == s]
        got = [r for r in pol if node(r, True) == s]
        if mine != got:
            return f"rules of subject {s} are not in arrival order"
    gflat = {}
    for (a, b) in edges:
        gflat.setdefault(a[0], set()).add((a[1], b[1]))
    for req, d in o["decisions"].items():
        if dom:
            s, ob, dm, act = req
        else:
            (s, ob, act), dm = req, ""
        want = False
        for r in pol:
            rs, ro = r[0], r[1]
            rd = r[2] if dom else ""
            ra, eft = (r[3], r[4]) if dom else (r[2], r[3])
            if rd == dm and ro == ob and ra == act and bounded_reach(gflat.get(dm, set()), s, rs):
                if eft == "allow":
                    want = True
                    break
                if eft == "deny":
                    want = False
                    break
        if d != want:
            return f"enforce{req} = {d}, but the first definite match in stored order says {want}"
    return None


def model_requests(case, obs):
    """oracle requests for every load observation (tag 2 then tag 1)"""
    reqs = []
    for o in obs:
        at = Atoms()
        for d in DOMS:
            at.a(d)
        g = [at.rule(r) for r in o["stored_g"]]
        p = [at.rule(r) for r in o["stored_p"]]
        o["_atoms"] = at
        reqs.append((2, [[2] if case["dom"] else [], g, p]))
        reqs.append((1, g))
    return reqs


def compare_model(case, o, rep_sort, rep_map):
    """returns None or a description of the difference between implementation and model"""
    at = o["_atoms"]
    inv = {v: k for k, v in at.m.items()}
    if "err" in o:
        if rep_sort[0] == 0:
            return f"implementation raised {o['err']}, model sorts"
        return None
    if rep_sort[0] != 0:
        return f"model refuses (code {rep_sort}), implementation loaded"
    mp = [[inv[x] for x in r] for r in rep_sort[1]]
    if mp != o["policy"]:
        return f"stored order differs: impl {o['policy']} model {mp}"
    if rep_map[0] == 0 and isinstance(o["hmap"], dict):
        mm = {}
        for d, n, l in rep_map[1]:
            dn = "" if d == 0 else inv[d]
            mm[(dn, inv[n])] = l
        im = {}
        for k, v in o["hmap"].items():
            d, n = k.split("::", 1)
            im[(d, n)] = v                                 # DEFAULT_DOMAIN = ""
        if mm != im:
            return f"level map differs: impl {im} model {mm}"
    return None


def run(chk, oracle, n_random, exhaustive=True, seed_cases=()):
    cases = list(seed_cases)
    if exhaustive:
        cases += list(exhaustive_cases())
    for i in range(n_random):
        cases.append(gen_case(chk.rng, dom=(i % 2 == 1)))
    if n_random:
        cases += list(deep_chain_cases(chk.rng, max(4, n_random // 60)))
    n_spelled = n_replaced = 0
    if n_random:
        # (a) unusual spellings of the effect line: every listed one on both model shapes, plus random ones
        for i, sp in enumerate(SPELLINGS + [gen_spelling(chk.rng) for _ in range(max(10, n_random // 12))]):
            for dom in (False, True):
                cases.append(dict(gen_case(chk.rng, dom=dom), effect_line=sp))
                n_spelled += 1
        # (b) the enforcer lived on another model before (set_model / load_model of the rewritten file)
        for i in range(max(40, n_random // 4)):
            c = gen_case(chk.rng, dom=(i % 2 == 1))
            cases.append(dict(c, start=gen_start(chk.rng, c["dom"])))
            n_replaced += 1
    all_obs = [run_impl(c) for c in cases]
    refused = accepted = 0
    for ci, c in enumerate(cases):
        if c.get("effect_line") is not None:
            if all_obs[ci] and "refused" in all_obs[ci][0]:
                refused += 1
                chk.count(None)
                all_obs[ci] = []
            else:
                accepted += 1
    reqs, index = [], []
    for ci, (c, obs) in enumerate(zip(cases, all_obs)):
        rq = model_requests(c, obs)
        for k in range(len(obs)):
            index.append((ci, k, len(reqs) + 2 * k))
        reqs += rq
    reps = oracle.query(reqs) if oracle is not None else None
    reported = 0
    for ci, k, ri in index:
        c, o = cases[ci], all_obs[ci][k]
        key = ("subject", c["dom"], repr(o["stored_g"]), repr(o["stored_p"])) + \
              ((c["effect_line"],) if c.get("effect_line") is not None else ()) + \
              ((repr(c["start"]),) if c.get("start") else ())
        chk.count(key if o["stored_g"] and o["stored_p"] else None)
        if ci % max(1, len(cases) // 3) == 0 and k == 0:
            chk.sample(dict(stratum="subject-priority", domain_model=c["dom"], rounds=c["rounds"][:2],
                            loaded=o.get("policy", o.get("err")),
                            **{kk: c[kk] for kk in ("effect_line", "start") if c.get(kk) is not None}), cap=8)
        small = dict(c, rounds=c["rounds"][:k + 1])
        v = spec_violation(c, o)
        if v:
            if reported < 3:
                small = shrink_case(small, lambda cc: any(spec_violation(cc, oo) for oo in run_impl(cc)))
                oo = next((x for x in run_impl(small) if spec_violation(small, x)), o)
                v = spec_violation(small, oo) or v
                o = oo
            reported += 1
            chk.spec_fail(dict(stratum="subject-priority", case=small),
                          {kk: (vv if kk != "decisions" else {" ".join(map(str, a)): b for a, b in vv.items()})
                           for kk, vv in o.items() if not kk.startswith("_")},
                          "see 'what'", v)
            continue
        if reps is not None:
            d = compare_model(c, o, reps[ri], reps[ri + 1])
            if d:
                chk.disagree(dict(stratum="subject-priority", case=small), str(o.get("policy", o.get("err"))),
                             str(reps[ri]), where="subject-priority load: " + d[:300])
    chk.extra.setdefault("strata", {})["subject_priority_loads"] = len(index)
    chk.extra["strata"]["subject_priority_exhaustive_graphs_on_3_names"] = 512 if exhaustive else 0
    if n_spelled or n_replaced:
        st = chk.extra["strata"]
        st["subject_priority_effect_line_spellings"] = st.get("subject_priority_effect_line_spellings", 0) + n_spelled
        st["subject_priority_spellings_accepted_by_the_library"] = st.get("subject_priority_spellings_accepted_by_the_library", 0) + accepted
        st["subject_priority_spellings_refused_by_the_library"] = st.get("subject_priority_spellings_refused_by_the_library", 0) + refused
        st["subject_priority_model_replaced"] = st.get("subject_priority_model_replaced", 0) + n_replaced
    return cases


def shrink_case(case, fails):
    """drop rounds' edits one by one while the case still fails"""
    cur = case
    changed = True
    while changed:
        changed = False
        for ri in range(len(cur["rounds"])):
            for ei in range(len(cur["rounds"][ri])):
                cand = dict(cur, rounds=[list(r) for r in cur["rounds"]])
                del cand["rounds"][ri][ei]
                try:
                    if fails(cand):
                        cur = cand
                        changed = True
                        break
                except Exception:  # noqa
                    pass
            if changed:
                break
    return cur
