"""C07 — implementation-level strata the shared Mgmt model cannot express:
  * priority VALUES outside the model's atom range (0, 00, 007 ...) and rules of equal numeric value written differently,
  * a SECOND policy definition (p2, evaluated through an EnforceContext) that has its own priority column - in another
    position than p's, or while p has none,
  * after the load and after single / batch adds and removes through the named API.
SPEC (reference list kept by the harness): for a policy type with a priority column the stored rules are the stable sort,
by numeric priority, of the arrival sequence (load order, then call order; a remove deletes its rule); a type without
priority column keeps arrival order; the decision for a request is the effect of the first stored rule (in that order)
that matches with a definite effect, else deny."""
import casbin
from casbin.persist.adapters.string_adapter import StringAdapter

PRIOS = ["0", "1", "2", "2", "10", "00", "5", "007"]
SUBS = ["alice", "bob"]
EFTS = ["allow", "deny", "maybe"]


def model_text(p_prio):
    pdef = "priority, sub, obj, act, eft" if p_prio else "sub, obj, act, eft"
    return f"""[request_definition]
r = sub, obj, act
r2 = sub, obj, act
[policy_definition]
p = {pdef}
p2 = sub, obj, act, eft, priority
[policy_effect]
e = priority(p_eft) || deny
e2 = priority(p_eft) || deny
[matchers]
m = r.sub == p.sub && r.obj == p.obj && r.act == p.act
m2 = r2.sub == p2.sub && r2.obj == p2.obj && r2.act == p2.act
"""


def mk_rule(pt, p_prio, prio, sub, eft, tag):
    core = [sub, "data1", "read", eft]
    if pt == "p2":
        return core + [prio] if tag is None else [sub, "data1", tag, eft, prio]
    if p_prio:
        return [prio] + (core if tag is None else [sub, "data1", tag, eft])
    return core if tag is None else [sub, "data1", tag, eft]


def prio_of(pt, p_prio, rule):
    if pt == "p2":
        return int(rule[4])
    return int(rule[0]) if p_prio else None


def ref_insert(ref, pt, p_prio, rule):
    k = prio_of(pt, p_prio, rule)
    if k is None:
        ref.append(rule)
        return
    i = len(ref)
    while i > 0 and prio_of(pt, p_prio, ref[i - 1]) > k:
        i -= 1
    ref.insert(i, rule)


def ref_decide(ref, pt, p_prio, req):
    off = 1 if (pt == "p" and p_prio) else 0
    for r in ref:
        if r[off:off + 3] == list(req):
            if r[off + 3] == "allow":
                return True
            if r[off + 3] == "deny":
                return False
    return False


def gen_case(rng):
    p_prio = rng.random() < 0.5
    loaded = []
    seen = set()
    for _ in range(rng.randint(0, 6)):
        pt = rng.choice(["p", "p2", "p2"])
        r = mk_rule(pt, p_prio, rng.choice(PRIOS), rng.choice(SUBS), rng.choice(EFTS), rng.choice([None, None, "write"]))
        if (pt, tuple(r)) not in seen:
            seen.add((pt, tuple(r)))
            loaded.append([pt, r])
    if not loaded:      # the model must have been loaded once (the priority columns are located by load_policy)
        loaded.append(["p2", ["zed", "data9", "none", "allow", "3"]])
    ops = []
    for _ in range(rng.randint(1, 6)):
        pt = rng.choice(["p", "p2", "p2"])
        k = rng.random()
        mk = lambda: mk_rule(pt, p_prio, rng.choice(PRIOS), rng.choice(SUBS), rng.choice(EFTS), rng.choice([None, None, "write"]))
        if k < 0.5:
            ops.append(["add", pt, mk()])
        elif k < 0.75:
            ops.append(["add_batch", pt, [mk() for _ in range(rng.randint(1, 3))]])
        else:
            ops.append(["remove_nth", pt, rng.randrange(8)])
    return dict(p_prio=p_prio, loaded=loaded, ops=ops)


def targeted_cases():
    """priority 0 / 00 added to a loaded store, with a conflicting rule of larger priority; p2 sorted while p has no
    priority column / has it in another column"""
    out = []
    for p_prio in (False, True):
        for zero in ("0", "00"):
            for pt in ("p", "p2"):
                if pt == "p" and not p_prio:
                    continue
                loaded = [[pt, mk_rule(pt, p_prio, "10", "alice", "allow", None)], [pt, mk_rule(pt, p_prio, "1", "bob", "allow", None)]]
                out.append(dict(p_prio=p_prio, loaded=loaded, ops=[["add", pt, mk_rule(pt, p_prio, zero, "alice", "deny", None)]]))
                out.append(dict(p_prio=p_prio, loaded=loaded, ops=[["add_batch", pt, [mk_rule(pt, p_prio, zero, "alice", "deny", None),
                                                                                       mk_rule(pt, p_prio, "5", "bob", "deny", "write")]]]))
        out.append(dict(p_prio=p_prio, loaded=[["p2", mk_rule("p2", p_prio, "10", "alice", "allow", None)],
                                               ["p2", mk_rule("p2", p_prio, "1", "alice", "deny", None)],
                                               ["p2", mk_rule("p2", p_prio, "5", "bob", "deny", None)],
                                               ["p2", mk_rule("p2", p_prio, "2", "bob", "allow", None)]],
                        ops=[["add", "p2", mk_rule("p2", p_prio, "1", "bob", "allow", "write")]]))
    return out


def run_case(case):
    """returns None or (step, what, observed, expected)"""
    p_prio = case["p_prio"]
    text = "\n".join(", ".join([pt] + r) for pt, r in case["loaded"])
    m = casbin.Enforcer.new_model(text=model_text(p_prio))
    e = casbin.Enforcer(m, StringAdapter(text) if text else None)
    e.enable_auto_save(False)
    ref = {"p": [], "p2": []}
    for pt, r in case["loaded"]:
        ref_insert(ref[pt], pt, p_prio, list(r))

    def check(step):
        for pt in ("p", "p2"):
            got = [list(r) for r in e.get_named_policy(pt)]
            if got != ref[pt]:
                return (step, f"stored {pt} rules are not the stable sort by numeric priority of the arrival sequence", got, ref[pt])
        for sub in SUBS:
            for act in ("read", "write"):
                req = (sub, "data1", act)
                d1 = e.enforce(*req)
                if d1 != ref_decide(ref["p"], "p", p_prio, req):
                    return (step, f"decision for {req} on p is not that of the first matching rule in priority order", d1, ref_decide(ref["p"], "p", p_prio, req))
                d2 = e.enforce(e.new_enforce_context("2"), *req)
                if d2 != ref_decide(ref["p2"], "p2", p_prio, req):
                    return (step, f"decision for {req} on p2 is not that of the first matching rule in priority order", d2, ref_decide(ref["p2"], "p2", p_prio, req))
        return None

    bad = check("after load")
    if bad:
        return bad
    for i, op in enumerate(case["ops"]):
        kind, pt = op[0], op[1]
        if kind == "add":
            r = list(op[2])
            ok = e.add_named_policy(pt, r)
            if ok != (r not in ref[pt]):
                return (i, "add returned the wrong result", ok, r not in ref[pt])
            if ok:
                ref_insert(ref[pt], pt, p_prio, r)
        elif kind == "add_batch":
            rs = [list(r) for r in op[2]]
            exp = all(r not in ref[pt] for r in rs) and len({tuple(r) for r in rs}) == len(rs)
            ok = e.add_named_policies(pt, rs)
            if ok != exp:
                return (i, "batch add returned the wrong result", ok, exp)
            if ok:
                for r in rs:
                    ref_insert(ref[pt], pt, p_prio, r)
        elif kind == "remove_nth":
            if ref[pt]:
                r = ref[pt][op[2] % len(ref[pt])]
                ok = e.remove_named_policy(pt, list(r))
                if not ok:
                    return (i, "remove of a stored rule failed", ok, True)
                ref[pt].remove(r)
        bad = check(i)
        if bad:
            return bad
    return None


def run(chk, n):
    rng = chk.rng
    cases = targeted_cases() + [gen_case(rng) for _ in range(n)]
    for c in cases:
        chk.count(("priority-values", repr(c)))
        try:
            bad = run_case(c)
        except Exception as ex:  # noqa
            bad = ("?", "the history raised " + type(ex).__name__ + ": " + str(ex)[:200], None, None)
        if bad:
            chk.spec_fail(dict(stratum="priority-values", case=c), dict(at_step=bad[0], observed=bad[2]), bad[3], bad[1])
            break
    chk.extra.setdefault("strata", {})["priority_values_and_named_types"] = len(cases)
