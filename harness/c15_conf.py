"""C15 on enforcers in NON-DEFAULT CONFIGURATIONS (helper of harness/props/c15.py only).

The property's clauses compare the RBAC query API with enforcement on ONE enforcer; they are stated for "RBAC models
whose matcher is role membership on the subject plus equality on the remaining fields" - whatever role manager that
membership is asked of.  This module provides the configurations an application reaches through the public API:

  op (92, L)  e.set_role_manager(<manager of the same class>(max_hierarchy_level=L)); e.build_role_links()
  op (91,)    e.add_named_matching_func("g", util.key_match_func)          (a NAME matching function on g)
  op (90,)    e.add_named_domain_matching_func("g", util.key_match_func)   (a DOMAIN matching function on g)

as extra ops of a management history (mgmt.Impl subclass), so that they can occur BEFORE the policy is loaded, right
after it, or LATE - after queries have already been answered (and per-domain managers cached, names looked up).
`Conf` is the configuration in force at a point of a history; its two predicates (key_match re-stated in four lines,
independent of casbin.util) are all the spec needs to know about it: with a name matching function a name holds the
roles assigned to every pattern it matches, with a domain matching function an assignment recorded for a pattern
domain holds in every domain matching it.

Generator restrictions (documented premises, not special cases):
  * wildcards occur only in the USER column of g (and as p subjects / requested subjects), never in the role column:
    a pattern role manager creates a node for every name it is asked about, and with a pattern in the role column the
    listings would legitimately depend on which names were asked about before (DESIGN.md 9.4, fifth wave);
  * permission rules sit in concrete domains (the matcher compares r.dom == p.dom; "*" there would be a literal name);
  * no role assignment is REVOKED in a history in which two different assignments yield one link of some role
    manager (listed findings C14-F14-delete-removes-shared-grant, C04/pattern-and-concrete-domain-share-a-link).
"""
from casbin import util as _util

from . import mgmt

A = mgmt.ATOMS.a
S1 = mgmt.ATOMS.s

# interned at import time (c15 imports this module right after its own atoms) so that replays decode the same atoms
DEEP_MORE = [A("r%d" % i) for i in range(15, 25)]
STAR = A("*")
PATTERNS = [A("/user/*"), A("/user/a/*"), A("/grp/*")]
CONCRETE = [A("/user/42"), A("/user/a/7"), A("/grp/x"), A("/other/1")]
MEMBER, STAFF = A("member"), A("staff")
PLAIN = [A("alice"), A("bob")]
ROLES = [MEMBER, STAFF, A("admin"), A("/user/42")]          # wildcard-free; one of them matches a pattern itself
D1, D2 = A("d1"), A("d2")

G_REMOVALS = {17, 18, 20, 10, 11}


def km(k1, k2):
    """key_match, re-stated: k2 may end in a wildcard part starting at its first '*'"""
    i = k2.find("*")
    return k1 == k2 if i < 0 else (len(k1) >= i and k1[:i] == k2[:i])


class Conf:
    def __init__(self, maxlvl=10, nm=False, dm=False):
        self.maxlvl, self.nm, self.dm = maxlvl, nm, dm
        self._memo = {}

    def copy(self):
        return Conf(self.maxlvl, self.nm, self.dm)

    def default(self):
        return self.maxlvl == 10 and not self.nm and not self.dm

    def match(self, x, pat):
        """atoms; equality or key_match(x, pat)"""
        if x == pat:
            return True
        k = (x, pat)
        if k not in self._memo:
            self._memo[k] = km(S1(x), S1(pat))
        return self._memo[k]

    def name_match(self):
        return self.match if self.nm else None

    def dom_match(self):
        return self.match if self.dm else None

    def describe(self):
        return dict(max_hierarchy_level=self.maxlvl, name_matching_function=self.nm, domain_matching_function=self.dm)


def step_conf(conf, op):
    """the configuration after `op`"""
    c = op[0]
    if c == 92:
        return Conf(op[1], False, False)             # a fresh manager: no functions registered on it
    if c == 91:
        return Conf(conf.maxlvl, True, conf.dm)
    if c == 90:
        return Conf(conf.maxlvl, conf.nm, True)
    return conf


class ConfImpl(mgmt.Impl):
    def call(self, op):
        c, e = op[0], self.e
        if c == 90:
            return self._b(e.add_named_domain_matching_func("g", _util.key_match_func))
        if c == 91:
            return self._b(e.add_named_matching_func("g", _util.key_match_func))
        if c == 92:
            old = e.get_role_manager()
            e.set_role_manager(type(old)(max_hierarchy_level=op[1]))
            e.build_role_links()
            return [0, []]
        return super().call(op)


def run_impl(kind, rows, load_first, ops, **kw):
    impl = ConfImpl(kind, rows, load_first, **kw)
    return impl, [impl.step(op) for op in ops]


def pretty_op(op):
    if op[0] == 90:
        return ["add_named_domain_matching_func('g', key_match)"]
    if op[0] == 91:
        return ["add_named_matching_func('g', key_match)"]
    if op[0] == 92:
        return ["set_role_manager(<same class>(max_hierarchy_level=%d)) + build_role_links" % op[1]]
    return mgmt.pretty_op(op)


# ----------------------------------------------------------------------------- query block (random order)
def block(kind, rng, subs, doms, objs, acts, resource_views=True):
    """every query of the RBAC API for every subject x object x action x domain; the subjects in random order and, per
    subject, the API queries before or after the enforce calls (a pattern role manager memoises the names it is asked
    about: which entry point sees a name first must not matter)"""
    ops = []
    order = list(subs)
    for d in (doms if kind.dom else [0]):
        rng.shuffle(order)
        for u in order:
            api = [(60, u, d), (61, u, d)] + ([(57, u, d), (58, u, d)] if kind.dom else [])
            if rng.random() < 0.3:
                rng.shuffle(api)
            enf = [(50, [u, d, o, a] if kind.dom else [u, o, a]) for o in objs for a in acts]
            ops += (api + enf) if rng.random() < 0.6 else (enf + api)
        for o in objs:
            for a in acts:
                ops.append((62, [d, o, a] if kind.dom else [o, a]))
        if kind.dom and resource_views:
            ops += [(64, o, d) for o in objs]
    if resource_views:
        ops += [(63, o) for o in objs]
    if not kind.dom:
        rng.shuffle(order)
        for u in order:
            ops += [(55, u), (56, u)]
    return ops


def subjects_in(kind, rows, ops, base):
    out = list(base)
    for pt, r in list(rows) + [(o[1], o[2]) for o in ops if o[0] in (1, 3) and o[1] in (0, 1)] + \
            [(o[1], r) for o in ops if o[0] in (2, 4) and o[1] in (0, 1) for r in o[2]] + \
            [(1, [o[1], o[2]]) for o in ops if o[0] in (16, 17, 19)] + [(0, [o[1]] + list(o[2])) for o in ops if o[0] in (13, 14)]:
        for x in (r[:2] if pt == 1 else r[:1]):
            if x not in out:
                out.append(x)
    return out


# ----------------------------------------------------------------------------- universes
class ConfUniverse(mgmt.Universe):
    """subjects / users: plain names, role names, concrete paths and (patterns=True) wildcard patterns; roles are
    wildcard-free; with star=True grouping rules may be recorded for the pattern domain "*" """

    def __init__(self, kind, patterns, star):
        super().__init__(kind)
        self.users = PLAIN + ROLES[:3] + (CONCRETE + PATTERNS if patterns else [A("editor")])
        self.roles = ROLES if patterns else ROLES[:3] + [A("editor")]
        self.subs = list(dict.fromkeys(self.users + self.roles))
        self.gdoms = (self.doms + [STAR, STAR]) if (star and kind.dom) else self.doms

    def p_rule(self, rng):
        k = self.kind
        return [rng.choice(self.subs)] + ([rng.choice(self.doms)] if k.dom else []) + [rng.choice(self.objs), rng.choice(self.acts)]

    def g_rule(self, rng, pt=1):
        r = [rng.choice(self.users), rng.choice(self.roles)]
        if self.kind.dom:
            r.append(rng.choice(self.gdoms))
        return r


def related(x, y):
    return x == y or km(S1(x), S1(y)) or km(S1(y), S1(x))


def shared_links(kind, grules):
    """two DIFFERENT grouping rules that yield one link in some role manager once matching functions are in force: same
    role, user names equal or matching one way or the other, (domains equal or matching one way or the other)"""
    rs = []
    for r in grules:
        if len(r) >= (3 if kind.dom else 2) and list(r) not in rs:
            rs.append(list(r))
    for i, r1 in enumerate(rs):
        for r2 in rs[i + 1:]:
            if r1[1] == r2[1] and related(r1[0], r2[0]) and (not kind.dom or related(r1[2], r2[2])):
                return True
    return False


W_CONF = dict(p_add=3, p_add_many=1, p_remove=2, p_remove_many=0.5, p_remove_filtered=0, p_update=0, p_update_many=0,
              p_update_filtered=0, g_add=7, g_add_many=3, g_remove=4, g_remove_many=1, g_remove_filtered=0, rbac=3,
              clear=0, load=1.5, save=0, build=0.5, flags=0, query=0, probe=0)


def management_ops(rng, gen, n):
    """1..n management calls from the shared generator (the universe replaced), restricted to adds / removals of single
    rules and batches, the RBAC-API forms of them, reloads and build_role_links"""
    out = []
    for _ in range(n):
        for o in gen.op():
            if o[0] in (1, 2, 3, 4, 13, 14, 16, 17, 19, 31, 34):
                out.append(o)
    return out


def strip_unsafe_revocations(kind, rows, ops):
    """drop revocations of role assignments from histories in which two assignments share a link (see module docstring)"""
    gs = [r for pt, r in mgmt.g_rules_mentioned(kind, rows, ops) if pt == 1]
    if not shared_links(kind, gs):
        return ops
    return [o for o in ops if not ((o[0] in (3, 4) and o[1] == 1) or o[0] in G_REMOVALS)]


# ----------------------------------------------------------------------------- case families
def chain_rows(kind, rng, L, chain_names):
    """alice -> r1 -> ... -> rN with N around the CONFIGURED bound L, optionally a shortcut or a back edge; permissions
    on the last three roles; with domains a one-step copy in the other domain"""
    al = A("alice")
    N = max(2, min(len(chain_names), rng.choice([L - 3, L - 2, L - 1, L - 1, L, L, L + 1, L + 2])))
    d = [rng.choice([D1, D2])] if kind.dom else []
    names = [al] + chain_names[:N]
    links = [[a, b] + d for a, b in zip(names, names[1:])]
    x = rng.random()
    if x < 0.25 and N >= 3:
        i = rng.randrange(0, N - 1)
        links.append([names[i], names[rng.randrange(i + 2, N + 1)]] + d)           # shortcut
    elif x < 0.4:
        i = rng.randrange(1, N + 1)
        links.append([names[i], names[rng.randrange(0, i)]] + d)                   # back edge: a cycle
    rng.shuffle(links)
    ps = [[names[N]] + d + [A("data1"), A("read")], [names[N - 1]] + d + [A("data2"), A("read")],
          [names[max(0, N - 2)]] + d + [A("data1"), A("write")]]
    if kind.dom:
        other = D2 if d[0] == D1 else D1
        links.append([al, names[N], other])
        ps.append([names[N], other, A("data2"), A("write")])
    return links, ps


def depth_cases(kind, rng, n, chain_names):
    """a role manager with another hierarchy bound L installed through set_role_manager + build_role_links (before the
    policy is loaded / right after / LATE, after a block was answered by the default manager), chains of L-3..L+2
    assignments, part of the chain possibly assigned through the API after the manager was installed"""
    uni = mgmt.Universe(kind)
    for _ in range(n):
        L = rng.choice([2, 3, 5, 8, 12, 12, 15, 20, 20])
        links, ps = chain_rows(kind, rng, L, chain_names)
        k = rng.randint(0, min(3, len(links) - 1)) if rng.random() < 0.4 else 0
        later, links = links[:k], links[k:]
        rows = [(1, r) for r in links] + [(0, r) for r in ps]
        subs = subjects_in(kind, rows + [(1, r) for r in later], [], uni.subs)
        blk = lambda: block(kind, rng, subs, uni.doms, uni.objs, uni.acts)  # noqa: E731
        adds = [((19, r[0], r[1], r[2]) if (kind.dom and rng.random() < 0.5) else (1, 1, r)) for r in later]
        x = rng.random()
        if x < 0.2:
            yield (rows, False, [(92, L), (31,)] + adds + blk())
        elif x < 0.45:
            yield (rows, True, blk() + [(92, L)] + adds + blk())
        else:
            ops = [(92, L)] + adds + blk()
            if rng.random() < 0.3:
                ops += [(31,)] + blk()               # a reload keeps the installed manager
            yield (rows, True, ops)


def matcher_cases(kind, rng, n, which):
    """which = 'name' (91), 'domain' (90, domain models) or 'both' (+ w.p. 0.3 another depth bound): the functions are
    registered before the policy is loaded, right after, or LATE (after a whole block, or after a few queries that
    touch only some of the domains / names); then 0..2 segments of management calls, the block after each"""
    patterns = which in ("name", "both")
    star = which in ("domain", "both")
    for _ in range(n):
        gen = mgmt.Gen(rng, kind, W_CONF)
        gen.uni = uni = ConfUniverse(kind, patterns, star)
        rows = gen.rows(rng.randint(3, 10))
        if not any(pt == 1 for pt, _ in rows):
            rows.append((1, uni.g_rule(rng)))
        if not any(pt == 0 for pt, _ in rows):
            rows.append((0, uni.p_rule(rng)))
        conf_ops = ([(91,)] if patterns else []) + ([(90,)] if star else [])
        rng.shuffle(conf_ops)
        if which == "both" and rng.random() < 0.3:
            conf_ops.insert(0, (92, rng.choice([3, 12])))
        segs = [management_ops(rng, gen, rng.randint(1, 3)) for _ in range(rng.choice([0, 0, 1, 1, 2]))]
        flat = [o for s in segs for o in s]
        subs = subjects_in(kind, rows, flat, uni.subs)
        qdoms = (uni.doms + [STAR]) if (star and kind.dom and rng.random() < 0.5) else uni.doms
        blk = lambda: block(kind, rng, subs, qdoms, uni.objs, uni.acts)  # noqa: E731
        x = rng.random()
        lf = True
        if x < 0.15:
            lf, ops = False, conf_ops + [(31,)] + blk()
        elif x < 0.4:
            ops = conf_ops + blk()
        elif x < 0.6:
            ops = blk() + conf_ops + blk()
        else:
            # a few early answers only: some domains / names have been looked up before the registration, others not
            early = rng.sample(blk(), rng.randint(1, 6))
            if kind.dom and rng.random() < 0.6:
                d0 = rng.choice(uni.doms)
                early = [o for o in early if d0 in (o[1] if o[0] in (50, 62) else o[1:])] or early[:1]
            ops = early + conf_ops + blk()
        for s in segs:
            ops += s + blk()
        yield (rows, lf, strip_unsafe_revocations(kind, rows, ops))
