"""C20 — implementation-level stratum: watchers that offer only PART of the operation-specific callbacks, adapters that
implement only the mandatory interface, and batch removals handed the very list a getter returned.
SPEC per call (adapter attached, auto-save and auto-notify on, watcher set):
  * the call reports success  =>  exactly one notification: the callback that corresponds to the operation if the watcher
    offers THAT callback (carrying the operation's own arguments), else the generic update();
  * the call reports failure / no change  =>  no notification;
  * a call that raises may not have notified unless memory and the adapter's rows were both changed before."""
import itertools

import casbin
from casbin import persist

from .async_facade import AsyncFacade

MODEL = """[request_definition]
r = sub, obj, act
[policy_definition]
p = sub, obj, act
[role_definition]
g = _, _
[policy_effect]
e = some(where (p.eft == allow))
[matchers]
m = g(r.sub, p.sub) && r.obj == p.obj && r.act == p.act
"""
ROWS = [("p", ["alice", "data1", "read"]), ("p", ["bob", "data2", "write"]), ("p", ["admin", "data2", "read"]),
        ("g", ["alice", "admin"])]

SPECIFIC = ["update_for_add_policy", "update_for_remove_policy", "update_for_remove_filtered_policy", "update_for_add_policies",
            "update_for_remove_policies", "update_for_update_policy", "update_for_update_policies", "update_for_save_policy"]


class MinimalAdapter(persist.Adapter):
    """the mandatory interface only (no batch, update or filtered-update methods)"""

    def __init__(self, rows):
        self.rows = [(pt, list(r)) for pt, r in rows]
        self.calls = []

    def load_policy(self, model):
        for pt, r in self.rows:
            persist.load_policy_line(", ".join([pt] + r), model)

    def save_policy(self, model):
        self.calls.append(("save",))
        return True

    def add_policy(self, sec, ptype, rule):
        self.calls.append(("add", ptype, list(rule)))
        self.rows.append((ptype, list(rule)))

    def remove_policy(self, sec, ptype, rule):
        self.calls.append(("remove", ptype, list(rule)))
        if (ptype, list(rule)) in self.rows:
            self.rows.remove((ptype, list(rule)))

    def remove_filtered_policy(self, sec, ptype, field_index, *field_values):
        self.calls.append(("remove_filtered", ptype, field_index, list(field_values)))
        keep = []
        for pt, r in self.rows:
            hit = pt == ptype and all(v == "" or (field_index + i < len(r) and r[field_index + i] == v) for i, v in enumerate(field_values))
            if not hit:
                keep.append((pt, r))
        self.rows = keep


class FullAdapter(MinimalAdapter):
    def add_policies(self, sec, ptype, rules):
        self.calls.append(("add_many", ptype, [list(r) for r in rules]))
        for r in rules:
            self.rows.append((ptype, list(r)))

    def remove_policies(self, sec, ptype, rules):
        self.calls.append(("remove_many", ptype, [list(r) for r in rules]))
        for r in rules:
            if (ptype, list(r)) in self.rows:
                self.rows.remove((ptype, list(r)))

    def update_policy(self, sec, ptype, old_rule, new_rule):
        self.calls.append(("update", ptype, list(old_rule), list(new_rule)))
        self.rows = [(pt, list(new_rule)) if (pt, r) == (ptype, list(old_rule)) else (pt, r) for pt, r in self.rows]

    def update_policies(self, sec, ptype, old_rules, new_rules):
        self.calls.append(("update_many", ptype))
        for o, n in zip(old_rules, new_rules):
            self.rows = [(pt, list(n)) if (pt, r) == (ptype, list(o)) else (pt, r) for pt, r in self.rows]


def make_watcher(offered, coro):
    log = []

    def rec(name):
        if coro and name != "update":
            async def f(self, *a):
                log.append((name, _canon(a)))
        else:
            def f(self, *a):
                log.append((name, _canon(a)))
        return f

    ns = {"set_update_callback": lambda self, cb: None, "update": rec("update")}
    for n in offered:
        ns[n] = rec(n)
    return type("PartialWatcher", (), ns)(), log


def _canon(a):
    def c(x):
        if isinstance(x, (list, tuple)):
            return [c(y) for y in x]
        if isinstance(x, (str, int)) or x is None:
            return x
        return type(x).__name__
    return [c(x) for x in a]


# (name, callback, call on the enforcer, expected callback arguments given the p rules before the call)
def operations():
    r_new, r_new2 = ["carol", "data1", "read"], ["carol", "data2", "write"]
    r_old, r_old2 = ["alice", "data1", "read"], ["bob", "data2", "write"]
    yield ("add_policy", "update_for_add_policy", lambda e: e.add_policy(*r_new), lambda p: ["p", "p", r_new])
    yield ("add_policy(present)", "update_for_add_policy", lambda e: e.add_policy(*r_old), None)
    yield ("add_policies", "update_for_add_policies", lambda e: e.add_policies([r_new, r_new2]), lambda p: ["p", "p", [r_new, r_new2]])
    yield ("add_grouping_policies", "update_for_add_policies", lambda e: e.add_grouping_policies([["bob", "admin"], ["carol", "admin"]]),
           lambda p: ["g", "g", [["bob", "admin"], ["carol", "admin"]]])
    yield ("remove_policy", "update_for_remove_policy", lambda e: e.remove_policy(*r_old), lambda p: ["p", "p", r_old])
    yield ("remove_policies", "update_for_remove_policies", lambda e: e.remove_policies([r_old, r_old2]), lambda p: ["p", "p", [r_old, r_old2]])
    yield ("remove_policies(get_policy())", "update_for_remove_policies", lambda e: e.remove_policies(e.get_policy()), lambda p: ["p", "p", p])
    yield ("remove_named_policies('p', get_named_policy('p'))", "update_for_remove_policies",
           lambda e: e.remove_named_policies("p", e.get_named_policy("p")), lambda p: ["p", "p", p])
    yield ("remove_policies(absent)", "update_for_remove_policies", lambda e: e.remove_policies([r_new]), None)
    yield ("remove_filtered_policy", "update_for_remove_filtered_policy", lambda e: e.remove_filtered_policy(0, "alice"), lambda p: ["p", "p", 0, "alice"])
    yield ("update_policy", "update_for_update_policy", lambda e: e.update_policy(r_old, r_new), lambda p: [r_old, r_new])
    yield ("update_policies", "update_for_update_policies", lambda e: e.update_policies([r_old, r_old2], [r_new, r_new2]),
           lambda p: [[r_old, r_old2], [r_new, r_new2]])
    yield ("save_policy", "update_for_save_policy", lambda e: e.save_policy(), "save")


def offered_sets(rng, n_random):
    yield ()
    yield tuple(SPECIFIC)
    yield tuple(x for x in SPECIFIC if x.endswith("policies"))                       # batch callbacks only
    yield tuple(x for x in SPECIFIC if not x.endswith("policies"))                   # an older extended watcher
    yield ("update_for_update_policy", "update_for_update_policies")
    for _ in range(n_random):
        yield tuple(x for x in SPECIFIC if rng.random() < 0.5)


NOTIFY_MODES = ("on", "off-then-set_watcher", "set_watcher-then-off", "off-then-watcher-exchanged")


def run_one(is_async, coro, full_adapter, offered, opname, mode="on"):
    """returns None or (what, observed, expected).  mode: auto-notify on (the default state), or switched off before the
    watcher is attached / after it was attached / before the attached watcher is exchanged for another one - attaching a
    watcher is not a flag change, so in the three off-modes no management call may notify (save_policy does: it notifies
    whenever a watcher is set)"""
    op = next(o for o in operations() if o[0] == opname)
    m = casbin.Enforcer.new_model(text=MODEL)
    ad = (FullAdapter if full_adapter else MinimalAdapter)(ROWS)
    e = AsyncFacade(m) if is_async else casbin.Enforcer(m)
    e.set_adapter(ad)
    e.load_policy()
    w, log = make_watcher(offered, coro)
    old_log = []
    if mode == "off-then-set_watcher":
        e.enable_auto_notify_watcher(False)
        e.set_watcher(w)
    elif mode == "set_watcher-then-off":
        e.set_watcher(w)
        e.enable_auto_notify_watcher(False)
    elif mode == "off-then-watcher-exchanged":
        w_old, old_log = make_watcher(offered, coro)
        e.set_watcher(w_old)
        e.enable_auto_notify_watcher(False)
        e.set_watcher(w)
    else:
        e.set_watcher(w)
    ad.calls[:] = []
    before = [list(r) for r in e.get_policy()]
    try:
        res = op[2](e)
        raised = None
    except Exception as ex:  # noqa
        res, raised = None, type(ex).__name__ + ": " + str(ex)[:120]
    if raised is not None:
        # e.g. an adapter without update_policy: the call may raise; the property speaks of calls that report a result
        return None
    ok = bool(res) if not (op[3] == "save") else True
    if old_log:
        return ("a replaced watcher was still notified", dict(result=res, notifications=list(old_log)), [])
    if mode != "on" and op[3] != "save":
        if log:
            return ("a notification was sent although auto-notify is off", dict(result=res, notifications=list(log)), [])
        return None
    if op[3] == "save":
        want = [("update_for_save_policy", ["Model"])] if "update_for_save_policy" in offered else [("update", [])]
        got = [(n, a if n == "update" else ["Model"]) for n, a in log]
    elif not ok or op[3] is None:
        want, got = ([] if not ok else None), list(log)
        if want is None:
            return ("a call expected to be refused reported success", res, False)
    else:
        args = op[3](before)
        # arguments as the enforcer passes them: (sec, ptype, rule) / (sec, ptype, rules) / (sec, ptype, index, *values) / (old, new)
        if op[1] in ("update_for_update_policy", "update_for_update_policies"):
            want = [(op[1], _canon(args))]
        elif op[1] == "update_for_remove_filtered_policy":
            want = [(op[1], _canon(args))]
        else:
            want = [(op[1], _canon([args[0], args[1], args[2]]))]
        if op[1] not in offered:
            want = [("update", [])]
        got = list(log)
    if got != want:
        if ok and len(log) != 1:
            what = f"a successful call sent {len(log)} notifications instead of exactly one"
        elif not ok:
            what = "a call that reported failure / no change notified the watcher"
        else:
            what = ("the notification is not the operation's own callback with the operation's arguments (or update() when the "
                    "watcher does not offer that callback)")
        return (what, dict(result=res, notifications=got), want)
    return None


def run(chk, n_random):
    rng = chk.rng
    n = 0
    names = [o[0] for o in operations()]
    sets = list(offered_sets(rng, n_random))
    n_off = 0
    for is_async, coro in ((False, False), (True, False), (True, True)):
        for full in (True, False):
            for offered in sets:
                for opname in names:
                    for mode in NOTIFY_MODES:
                        if mode == "on":
                            n += 1
                        else:
                            n_off += 1
                        chk.count(("partial", is_async, coro, full, offered, opname) + (() if mode == "on" else (mode,)))
                        bad = run_one(is_async, coro, full, offered, opname, mode)
                        if bad:
                            chk.spec_fail(dict(stratum="partial-watcher-minimal-adapter", enforcer="AsyncEnforcer" if is_async else "Enforcer",
                                               coroutine_callbacks=coro, adapter="full" if full else "mandatory interface only",
                                               watcher_offers=list(offered), call=opname, auto_notify=mode,
                                               replay_args=[is_async, coro, full, list(offered), opname, mode]),
                                          bad[1], bad[2], bad[0])
                            chk.extra.setdefault("strata", {})["partial_watcher_minimal_adapter"] = n
                            chk.extra.setdefault("strata", {})["partial_watcher_auto_notify_off"] = n_off
                            return
    chk.extra.setdefault("strata", {})["partial_watcher_minimal_adapter"] = n
    chk.extra.setdefault("strata", {})["partial_watcher_auto_notify_off"] = n_off
