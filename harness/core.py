"""Shared machinery of every ./check run: translators, Coq cone build (+ Print Assumptions capture),
oracle build and invocation, vm_compute cross-check, evidence, replays, known findings, verdict.

Verdict table (DESIGN.md §2):
  spec fails on an implementation output, not a listed finding  -> VIOLATION replay=<failing input>, exit 1
  proofs broken / translator rejects / impl != model, no failing input after escalation
                                                                -> VIOLATION ... no-failing-input-found, exit 1
  only listed findings fail                                     -> KNOWN-FINDING lines, exit 0
"""
import hashlib
import json
import os
import random
import re
import subprocess
import sys
import time
from pathlib import Path

ROOT = Path(__file__).resolve().parent.parent
REPO = Path(os.environ.get("VERIF_REPO", "/repo"))
# runs against a seeded change / scratch copy may use their OWN copy of the Coq tree and build directory
# (tools/seedtest.py), so that regenerated coq/gen files never leak between concurrent runs
COQ = Path(os.environ.get("VERIF_COQ_DIR") or (ROOT / "coq"))
BUILD = Path(os.environ.get("VERIF_BUILD_DIR") or (ROOT / "build"))
PY = "/venv/bin/python"

# error enum shared with coq/theories/Base.v
ERR = dict(EArity=1, EPolicySize=2, EMatcherType=3, EPriorityMismatch=4, ELinkMissing=5, EKeyError=6,
           EIndex=7, EFilteredSave=8, EGroupArity=9, EFuel=10, EValue=11, EUnsupportedEffect=12,
           EEvalEmpty=13, EAttr=14, EType=15, ERuntime=16, ESyntax=17, EName=18, EAdapterFail=19)


def classify_exception(e):
    """Python exception -> model error code (A.3). Unknown -> 900+ (never equal to a model error)."""
    m = str(e)
    if isinstance(e, RuntimeError):
        if m.startswith("invalid request size"):
            return ERR["EArity"]
        if m.startswith("invalid policy size"):
            return ERR["EPolicySize"]
        if m.startswith("matcher result should be"):
            return ERR["EMatcherType"]
        if m.startswith("error: link between") or "link between" in m:
            return ERR["ELinkMissing"]
        if m.startswith("cannot save a filtered policy"):
            return ERR["EFilteredSave"]
        if m.startswith("unsupported effect"):
            return ERR["EUnsupportedEffect"]
        if m.startswith("please make sure rule exists"):
            return ERR["EEvalEmpty"]
        if "grouping policy elements" in m:
            return ERR["EGroupArity"]
        return ERR["ERuntime"]
    if isinstance(e, KeyError):
        return ERR["EKeyError"]
    if isinstance(e, IndexError):
        return ERR["EIndex"]
    if isinstance(e, ValueError):
        return ERR["EValue"]
    if isinstance(e, AttributeError):
        return ERR["EAttr"]
    if isinstance(e, TypeError):
        if "grouping policy elements" in m:
            return ERR["EGroupArity"]
        return ERR["EType"]
    if isinstance(e, SyntaxError):
        return ERR["ESyntax"]
    if type(e).__name__ == "AdapterFail":
        return ERR["EAdapterFail"]
    if isinstance(e, Exception) and m.startswith("New rule should have the same priority"):
        return ERR["EPriorityMismatch"]
    return 900 + (int(hashlib.sha1(type(e).__name__.encode()).hexdigest(), 16) % 90)


# ----------------------------------------------------------------------------- wire values
def enc(v):
    """python nested lists / ints / bools / str -> wire text"""
    if isinstance(v, bool):
        return "1" if v else "0"
    if isinstance(v, int):
        if v < 0:
            raise ValueError("negative int on the wire")
        return str(v)
    if isinstance(v, str):
        return "(" + " ".join(str(ord(c)) for c in v) + ")"
    if isinstance(v, (list, tuple)):
        return "(" + " ".join(enc(x) for x in v) + ")"
    if v is None:
        return "()"
    raise TypeError(f"cannot encode {type(v)}")


def dec(s):
    s = s.strip()
    if s.startswith("!"):
        return ("ORACLE-ERROR", s)
    toks = re.findall(r"\(|\)|\d+", s)
    pos = 0

    def value():
        nonlocal pos
        t = toks[pos]
        pos += 1
        if t == "(":
            items = []
            while toks[pos] != ")":
                items.append(value())
            pos += 1
            return items
        return int(t)

    return value()


def coq_val(v):
    """python value -> Gallina term of type val (for vm_compute cross-checks)"""
    if isinstance(v, bool):
        return f"VN {1 if v else 0}"
    if isinstance(v, int):
        return f"VN {v}"
    if isinstance(v, str):
        return "VL [" + "; ".join(f"VN {ord(c)}" for c in v) + "]"
    if v is None:
        return "VL []"
    return "VL [" + "; ".join(coq_val(x) for x in v) + "]"


def canon(v):
    """decoded wire value <-> python value normal form (tuples -> lists, bools -> ints, str -> code points)"""
    return dec(enc(v))


def wstr(codes):
    return "".join(chr(c) for c in codes)


# ----------------------------------------------------------------------------- build
def sh(cmd, timeout=1800, cwd=None, env=None):
    p = subprocess.run(cmd, shell=isinstance(cmd, str), cwd=cwd, env=env, stdout=subprocess.PIPE,
                       stderr=subprocess.STDOUT, text=True, timeout=timeout)
    return p.returncode, p.stdout


FORBIDDEN = re.compile(
    r"\b(Admitted|admit|Axiom|Axioms|Parameter|Parameters|Conjecture|Conjectures|Admit Obligations|"
    r"Unset Guard Checking|Unset Positivity Checking|Unset Universe Checking|bypass_check|"
    r"native_compute|type-in-type|impredicative-set)\b")


def strip_coq_comments(text):
    out, depth, i = [], 0, 0
    while i < len(text):
        if text.startswith("(*", i):
            depth += 1
            i += 2
        elif text.startswith("*)", i) and depth:
            depth -= 1
            i += 2
        else:
            if depth == 0:
                out.append(text[i])
            i += 1
    return "".join(out)


def forbidden_scan(files):
    bad = []
    for f in files:
        txt = strip_coq_comments(Path(f).read_text())
        for m in FORBIDDEN.finditer(txt):
            bad.append(f"{f}: {m.group(0)}")
        # Variable/Hypothesis outside a section
        depth = 0
        for line in txt.splitlines():
            s = line.strip()
            if re.match(r"(Section|Module Type|Module)\s+\w+\s*\.", s) and s.startswith("Section"):
                depth += 1
            elif re.match(r"End\s+\w+\s*\.", s) and depth:
                depth -= 1
            elif depth == 0 and re.match(r"(Variable|Variables|Hypothesis|Hypotheses|Context)\b", s):
                bad.append(f"{f}: section-less {s.split()[0]}")
    return bad


def cone(target_v):
    """local .v files the target depends on (coqdep -sort), target last"""
    rc, out = sh(["coqdep", "-Q", "theories", "PyCasbin", "-Q", "gen", "PyCasbinGen", "-sort", target_v], cwd=COQ)
    files = [t for t in out.split() if t.endswith(".v")]
    return [str((COQ / f).resolve()) for f in files]


STMT = re.compile(r"^\s*(Theorem|Lemma|Corollary|Example|Proposition|Fact|Remark)\s+(\w+)", re.M)


class ProofStatus:
    def __init__(self):
        self.ok = False
        self.translator_ok = True
        self.obligations = 0
        self.discharged = 0
        self.axioms = []          # as printed by Print Assumptions
        self.closed = 0           # number of "Closed under the global context"
        self.failed = None        # first failing file / error text
        self.log = ""
        self.theorems = []        # names stated in Props/Cxx.v
        self.checker_cmd = ""
        self.translators = []


def run_translators(names):
    """run translators/<name>.py /repo ; returns (all_ok, messages)"""
    ok, msgs = True, []
    for n in names:
        gen_name = {"effectors": "EffectorsGen.v", "rwlock": "RWLockGen.v", "synced": "SyncedGen.v", "asyncdiff": "AsyncGen.v", "policy": "PolicyGen.v", "internal": "InternalGen.v", "enforce": "EnforceGen.v", "loadline": "LoadLineGen.v", "filterline": "FilterGen.v", "haslink": "HasLinkGen.v", "rolelinks": "RoleLinksGen.v", "adapters": "AdaptersGen.v", "loadpolicy": "LoadPolicyGen.v", "keymatch": "KeyMatchGen.v", "condhaslink": "CondHasLinkGen.v", "filtered": "FilteredGen.v", "rbacapi": "RbacApiGen.v", "grouping": "GroupingGen.v", "fastenforce": "FastGen.v", "rangematch": "RangeMatchGen.v", "globmatch": "GlobMatchGen.v", "implroles": "ImplRolesGen.v", "implusers": "ImplUsersGen.v", "implresource": "ImplResourceGen.v", "implperms": "ImplPermsGen.v", "polwrap": "PolWrapGen.v", "fastcontainer": "FastContGen.v", "remcomments": "CmtGen.v"}.get(n)
        extra = [str(COQ / "gen" / gen_name)] if (gen_name and os.environ.get("VERIF_COQ_DIR")) else []
        rc, out = sh([PY, str(ROOT / "translators" / f"{n}.py"), str(REPO)] + extra, timeout=300)
        if rc != 0:
            ok = False
        msgs.append(f"{n}: rc={rc} {out.strip()[-400:]}")
    return ok, msgs


def build_props(prop, translators=()):
    st = ProofStatus()
    st.translators = list(translators)
    tok, msgs = run_translators(translators)
    st.translator_ok = tok
    st.log += "\n".join(msgs) + "\n"
    target = f"theories/Props/{prop}.v"
    vo = COQ / "theories" / "Props" / f"{prop}.vo"
    if vo.exists():
        vo.unlink()
    st.checker_cmd = f"tools/coqbuild theories/Props/{prop}.vo  (coq_makefile full .vo build, coqc 8.16.1)"
    rc, out = sh([str(ROOT / "tools" / "coqbuild"), f"theories/Props/{prop}.vo"], timeout=3000)
    st.log += out
    files = cone(target)
    bad = forbidden_scan(files)
    total = 0
    for f in files:
        total += len(STMT.findall(strip_coq_comments(Path(f).read_text())))
    st.obligations = total
    st.theorems = [m[1] for m in STMT.findall(strip_coq_comments((COQ / target).read_text()))]
    st.closed = out.count("Closed under the global context")
    ax = []
    # "Axioms:" blocks printed by Print Assumptions
    for blk in re.findall(r"Axioms:\n((?:.+\n?)+?)(?=\n|\Z|COQC|Closed)", out):
        for line in blk.splitlines():
            m = re.match(r"^(\S+)\s*:", line)
            if m:
                ax.append(m.group(1))
    st.axioms = sorted(set(ax))
    # thorough tier: the independent checker re-checks the compiled cone and lists the axioms it relies on
    st.coqchk = None
    if rc == 0 and os.environ.get("VERIF_COQCHK", "1" if os.environ.get("VERIF_TIER_EFFECTIVE") == "thorough" else "0") == "1":
        rc2, out2 = sh(["coqchk", "-o", "-silent", "-Q", "theories", "PyCasbin", "-Q", "gen", "PyCasbinGen", f"PyCasbin.Props.{prop}"],
                       cwd=COQ, timeout=3000)
        m2 = re.search(r"CONTEXT SUMMARY\n=+\n((?:.|\n)*)", out2)
        summ = " ".join((m2.group(1) if m2 else out2[-600:]).split())
        st.coqchk = f"coqchk -o PyCasbin.Props.{prop}: exit {rc2}; {summ[:500]}"
        st.log += "\n" + st.coqchk
        if rc2 != 0:
            rc = rc2
            out += "\nError: coqchk rejected the compiled cone: " + out2[-600:]
    if rc == 0 and not bad and tok:
        st.ok = True
        st.discharged = total
    else:
        m = re.search(r'File "([^"]+)", line (\d+).*?\n(Error:(?:.|\n)*?)(?=\nmake|\Z)', out)
        if bad:
            st.failed = "forbidden construct: " + "; ".join(bad[:5])
        elif not tok:
            st.failed = "translator rejected the source: " + " | ".join(msgs)
        elif m:
            st.failed = f"{m.group(1)}:{m.group(2)}: {m.group(3)[:600]}"
        else:
            st.failed = out[-800:]
        # count what did get through: statements in files whose .vo exists and is newer than the source
        done = 0
        for f in files:
            fvo = Path(f[:-2] + ".vo")
            if fvo.exists() and fvo.stat().st_mtime >= Path(f).stat().st_mtime:
                done += len(STMT.findall(strip_coq_comments(Path(f).read_text())))
        st.discharged = min(done, max(total - 1, 0))
    return st


def file_hash(paths):
    h = hashlib.sha1()
    for p in paths:
        h.update(Path(p).read_bytes())
    return h.hexdigest()


def build_oracle(prop):
    """extract coq/extract/Extract<prop>.v and link the generic driver; returns path to the binary
    (or None and a log if the model no longer compiles)"""
    src = COQ / "extract" / f"Extract{prop}.v"
    d = BUILD / "oracle" / prop
    d.mkdir(parents=True, exist_ok=True)
    deps = cone(str(src.relative_to(COQ)))
    stamp = file_hash(deps + [str(ROOT / "oracle" / "driver.ml")])
    sfile = d / "stamp"
    binp = d / "oracle"
    if binp.exists() and sfile.exists() and sfile.read_text() == stamp:
        return str(binp), ""
    # make sure the .vo of the deps exist (full build of exactly those)
    vos = [str(Path(f).relative_to(COQ))[:-2] + ".vo" for f in deps if not f.endswith(src.name)]
    rc, out = sh([str(ROOT / "tools" / "coqbuild")] + vos, timeout=3000)
    if rc != 0:
        return (str(binp) if binp.exists() else None), "model build failed:\n" + out[-1500:]
    (d / src.name).write_text(src.read_text())
    for f in ("oracle.ml", "oracle.mli"):
        if (d / f).exists():
            (d / f).unlink()
    rc, out = sh(["coqc", "-Q", str(COQ / "theories"), "PyCasbin", "-Q", str(COQ / "gen"), "PyCasbinGen", src.name],
                 cwd=d, timeout=900)
    if rc != 0 or not (d / "oracle.ml").exists():
        return (str(binp) if binp.exists() else None), "extraction failed:\n" + out[-1500:]
    (d / "driver.ml").write_text((ROOT / "oracle" / "driver.ml").read_text())
    rc, out2 = sh("ocamlfind ocamlopt -w -a -O3 oracle.mli oracle.ml driver.ml -o oracle 2>&1 || "
                  "ocamlfind ocamlopt -w -a oracle.mli oracle.ml driver.ml -o oracle", cwd=d, timeout=900)
    if rc != 0:
        return None, "ocamlopt failed:\n" + out2[-1500:]
    sfile.write_text(stamp)
    return str(binp), ""


class Oracle:
    def __init__(self, path):
        self.path = path
        self.calls = 0

    def query(self, reqs):
        """reqs: list of (tag:int, value) -> list of decoded values"""
        if not reqs:
            return []
        data = "\n".join(f"{t} {enc(v)}" for t, v in reqs) + "\n"
        p = subprocess.run(f"ulimit -s unlimited 2>/dev/null; exec {self.path}", shell=True, input=data,
                           stdout=subprocess.PIPE, stderr=subprocess.PIPE, text=True, timeout=3000)
        lines = p.stdout.splitlines()
        if len(lines) != len(reqs):
            raise RuntimeError(f"oracle returned {len(lines)} lines for {len(reqs)} requests; stderr={p.stderr[-300:]}")
        self.calls += len(reqs)
        return [dec(l) for l in lines]


def vm_crosscheck(prop, requires, oracle_fn, reqs, expected, chunk=300):
    """re-evaluate (tag, val) requests inside Coq with vm_compute and compare with `expected`
    (decoded oracle replies).  Returns (ok, n_checked, log)."""
    d = BUILD / "vm" / prop
    d.mkdir(parents=True, exist_ok=True)
    n = 0
    for k in range(0, len(reqs), chunk):
        part = list(zip(reqs[k:k + chunk], expected[k:k + chunk]))
        lines = [f"From Coq Require Import List NArith Bool.", f"{requires}", "Import ListNotations.",
                 "Local Open Scope N_scope.",
                 "Definition cases : list (N * val * val) := ["]
        lines.append(";\n".join(f"  ({t}, {coq_val(v)}, {coq_val(e)})" for (t, v), e in part))
        lines.append("].")
        lines.append(f"Definition all_ok := forallb (fun c => val_eqb ({oracle_fn} (fst (fst c)) (snd (fst c))) (snd c)) cases.")
        lines.append("Eval vm_compute in all_ok.")
        f = d / f"cases_{k}.v"
        f.write_text("\n".join(lines) + "\n")
        rc, out = sh(["coqc", "-Q", str(COQ / "theories"), "PyCasbin", "-Q", str(COQ / "gen"), "PyCasbinGen", f.name],
                     cwd=d, timeout=1200)
        for junk in d.glob(f"cases_{k}.*"):
            if junk.suffix != ".v" or (rc == 0 and "= true" in out):
                junk.unlink(missing_ok=True)               # keep only the source of a failing chunk
        for junk in d.glob(f".cases_{k}.*"):
            junk.unlink(missing_ok=True)
        if rc != 0 or "= true" not in out:
            return False, n, out[-1500:]
        n += len(part)
    return True, n, ""


# ----------------------------------------------------------------------------- findings
def load_findings(prop):
    files = [ROOT / "known_findings.jsonl"] + sorted((ROOT / "findings.d").glob("*.jsonl"))
    out, seen = [], set()
    for f in files:
        if not f.exists():
            continue
        for line in f.read_text().splitlines():
            line = line.strip()
            if line and not line.startswith("#"):
                r = json.loads(line)
                if r.get("property") == prop and r.get("id") not in seen:
                    seen.add(r.get("id"))
                    out.append(r)
    return out


# ----------------------------------------------------------------------------- the check object
class Check:
    def __init__(self, prop, level="proof"):
        self.prop = prop
        self.level = level
        self.t0 = time.time()
        self.tier = os.environ.get("VERIF_TIER", "quick")
        args = sys.argv[1:]
        if "--tier" in args:
            self.tier = args[args.index("--tier") + 1]
        if self.tier not in ("quick", "thorough"):
            self.tier = "quick"
        os.environ["VERIF_TIER_EFFECTIVE"] = self.tier if "--replay" not in args else "quick"
        self.replay_file = args[args.index("--replay") + 1] if "--replay" in args else None
        try:
            self.seed = int(os.environ.get("VERIF_SEED", "20260926"))
        except ValueError:
            self.seed = 20260926
        self.rng = random.Random(self.seed)
        self.proof = None
        self.oracle = None
        self.oracle_log = ""
        self.evaluations = 0
        self.nontrivial = set()
        self.samples = []
        self.disagreements = []     # impl != model      (dicts)
        self.spec_failures = []     # spec false on impl (dicts with optional 'fingerprint')
        self.known_hits = {}        # finding id -> example
        self.traces = 0
        self.exhaustive = False
        self.rule = ""
        self.extra = {}
        self.assumptions = []
        self.trusted = []
        self.vm_checked = 0
        self.notes = []
        self.findings = load_findings(prop)
        # which files of the package differ from the state the checks were validated against (tools/anchors.py):
        # not a violation - a reason to spend the escalation budget on the search even in the quick tier
        try:
            sys.path.insert(0, str(ROOT / "tools"))
            import anchors as _anchors
            self.changed_files = _anchors.changed(REPO) or []
        except Exception:  # noqa
            self.changed_files = []
        finally:
            if sys.path and sys.path[0] == str(ROOT / "tools"):
                sys.path.pop(0)
        relevant = set()
        try:
            for line in (ROOT / "properties.jsonl").read_text().splitlines():
                if line.strip():
                    pr = json.loads(line)
                    if pr["id"] == prop:
                        relevant = set(pr.get("anchors", {}).get("files", []))
        except Exception:  # noqa
            pass
        core_files = {"casbin/core_enforcer.py", "casbin/internal_enforcer.py", "casbin/management_enforcer.py",
                      "casbin/enforcer.py", "casbin/model/policy.py", "casbin/model/assertion.py", "casbin/model/model.py",
                      "casbin/rbac/default_role_manager/role_manager.py"}
        if prop in ("C04", "C05", "C06", "C07", "C09", "C11", "C15", "C19", "C20", "C03", "C14", "C17", "C18"):
            relevant |= core_files
        self.anchor_changed = bool(set(self.changed_files) & relevant) and "--replay" not in args
        if self.changed_files:
            self.notes.append("package files edited since the checks were validated: " + ", ".join(self.changed_files[:8]))

    # --- building
    def build(self, translators=(), oracle_name=None):
        self.proof = build_props(self.prop, translators)
        path, log = build_oracle(oracle_name or self.prop)
        self.oracle_log = log
        if path:
            self.oracle = Oracle(path)
        if log:
            self.notes.append(log[:500])
        return self.proof

    def broken(self):
        return (self.proof is not None and not self.proof.ok) or bool(self.disagreements) or bool(self.oracle_log)

    # --- recording
    def count(self, key=None, n=1):
        self.evaluations += n
        if key is not None:
            self.nontrivial.add(key)

    def sample(self, s, cap=6):
        if len(self.samples) < cap:
            self.samples.append(s)

    def disagree(self, case, impl, model, where=""):
        self.disagreements.append(dict(case=case, impl_observation=impl, model_observation=model, where=where))

    def spec_fail(self, case, impl, expected, what, finding=None):
        """the implementation's output violates the SPEC on `case`.  `finding` = id of a listed known
        finding whose fingerprint this (shrunk) case matches, or None."""
        rec = dict(case=case, impl_observation=impl, spec_expected=expected, what=what)
        ids = {f["id"] for f in self.findings if f.get("status") == "known"}
        if finding is not None and finding in ids:
            self.known_hits.setdefault(finding, rec)
        else:
            self.spec_failures.append(rec)

    # --- output
    def write_replay(self, obj):
        d = ROOT / "replays"
        d.mkdir(exist_ok=True)
        body = json.dumps(obj, sort_keys=True, indent=1, default=str)
        h = hashlib.sha1(body.encode()).hexdigest()[:12]
        p = d / f"{self.prop}-{h}.json"
        obj["replay_cmd"] = f"./check {self.prop} --replay {p}"
        p.write_text(json.dumps(obj, sort_keys=True, indent=1, default=str))
        return str(p)

    def repo_state(self):
        rc, head = sh(["git", "-C", str(REPO), "rev-parse", "HEAD"])
        rc, dirty = sh(["git", "-C", str(REPO), "status", "--porcelain"])
        return dict(repo_head=head.strip(), dirty_files=[l[3:] for l in dirty.splitlines()][:20])

    def write_evidence(self, violations):
        pr = self.proof or ProofStatus()
        cov = dict(
            obligations=pr.obligations, discharged=pr.discharged, checker_cmd=pr.checker_cmd or "n/a",
            trusted_base=self.trusted + ([
                "translators/{" + ",".join(pr.translators) + "}.py (fail-closed, purely syntactic; their output coq/gen/*.v is "
                "regenerated from /repo on every run) and the interpreters of the small languages they emit (coq/theories/*Lang.v) "
                "as the reading of the accepted Python subset (DESIGN 6, 9.8)"] if pr.translators else []) + [
                "Coq 8.16.1 kernel (coqc, full .vo build; vm_compute used in proofs by computation; no native_compute)",
                "axioms reported by Print Assumptions in this run: " + (", ".join(pr.axioms) if pr.axioms else
                                                                        f"none ({pr.closed} x 'Closed under the global context')"),
                *([pr.coqchk] if getattr(pr, "coqchk", None) else []),
                "extraction: ExtrOcamlBasic only (bool/option/unit/list/prod/sumbool/sumor, andb/orb inlined); N/Z/positive/nat stay inductive; OCaml 4.13.1 + oracle/driver.ml (correspondence only)",
            ],
            theorems=pr.theorems,
            proofs_ok=pr.ok,
            proof_failure=pr.failed,
            translators=pr.translators,
            evaluations=self.evaluations,
            distinct_nontrivial=len(self.nontrivial),
            rule=self.rule,
            samples=self.samples[:8] if self.samples else ["(no case was run: build failed before the correspondence)"],
            traces_validated_against_impl=self.traces,
            disagreements_checked=self.evaluations,
            disagreements_found=len(self.disagreements),
            spec_failures_found=len(self.spec_failures),
            known_findings_reproduced=sorted(self.known_hits),
            vm_compute_crosschecked=self.vm_checked,
            exhaustive=self.exhaustive,
        )
        cov.update(self.extra)
        ev = dict(property_id=self.prop, tier=self.tier, seed=self.seed, level=self.level, coverage=cov,
                  assumptions=self.assumptions, wall_s=round(time.time() - self.t0, 2), violations=violations)
        evdir = Path(os.environ.get("VERIF_EVIDENCE_DIR") or (ROOT / "evidence"))   # seeded-change runs divert it
        evdir.mkdir(parents=True, exist_ok=True)
        (evdir / f"{self.prop}.json").write_text(json.dumps(ev, indent=1, default=str) + "\n")

    def finish(self):
        """print the verdict lines, write evidence, exit"""
        base = dict(property=self.prop, seed=self.seed, tier=self.tier, **self.repo_state())
        for fid, rec in sorted(self.known_hits.items()):
            f = next(x for x in self.findings if x["id"] == fid)
            print(f"KNOWN-FINDING: property={self.prop} {fid}: {f['what']}")
        if self.spec_failures:
            rec = self.spec_failures[0]
            path = self.write_replay(dict(base, kind="failing-input", **rec,
                                          broken=self._broken_desc()))
            print(f"  failing input: {json.dumps(rec, default=str)[:600]}")
            self.write_evidence(len(self.spec_failures))
            print(f"VIOLATION property={self.prop} replay={path}")
            sys.exit(1)
        if self.broken():
            rec = self.disagreements[0] if self.disagreements else {}
            path = self.write_replay(dict(base, kind="no-failing-input-found", broken=self._broken_desc(), **rec))
            print(f"  broken: {json.dumps(self._broken_desc(), default=str)[:800]}")
            self.write_evidence(1)
            print(f"VIOLATION property={self.prop} replay={path} no-failing-input-found")
            sys.exit(1)
        self.write_evidence(0)
        print(f"OK property={self.prop} tier={self.tier} seed={self.seed} proofs={self.proof.discharged if self.proof else 0}"
              f"/{self.proof.obligations if self.proof else 0} evaluations={self.evaluations} "
              f"nontrivial={len(self.nontrivial)} wall={round(time.time() - self.t0, 1)}s")
        sys.exit(0)

    def _broken_desc(self):
        d = {}
        if self.proof is not None and not self.proof.ok:
            d["theorem"] = f"Props/{self.prop}.v cone no longer checks: {self.proof.failed}"
        if self.oracle_log:
            d["model"] = self.oracle_log[:600]
        if self.disagreements:
            d["correspondence"] = f"{len(self.disagreements)} case(s) where implementation and model differ; first: " \
                                  f"{self.disagreements[0].get('where', '')}"
        return d
