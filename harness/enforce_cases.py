"""Shared by C01 and C08: realise a sequence of per-rule outcomes as a real model + policy + request,
run Enforcer.enforce / enforce_ex / batch_enforce, and canonicalise the observation."""
import itertools

import casbin
from casbin.model import Model

from .core import classify_exception

# the five documented policy-effect expressions (Casbin syntax documentation) -> effector index in Effect.v
EFFECTS = [
    ("some(where (p_eft == allow))", 0),
    ("!some(where (p_eft == deny))", 1),
    ("some(where (p_eft == allow)) && !some(where (p_eft == deny))", 2),
    ("priority(p_eft) || deny", 3),
    ("subjectPriority(p_eft) || deny", 3),
]

# outcome codes (Effect.v outcome_of_N): 0 NoMatch 1 Match allow 2 Match deny 3 Match other 4 BadSize 5 BadType
NOMATCH, MALLOW, MDENY, MOTHER, BADSIZE, BADTYPE = range(6)

MODEL = """
[request_definition]
r = sub, obj, act

[policy_definition]
p = {pdef}

[policy_effect]
e = {effect}{e2}

[matchers]
m = {matcher}
"""

PLAIN_MATCHER = "r.sub == p.sub && r.obj == p.obj && r.act == p.act"
FN_MATCHER = "r.sub == p.sub && r.obj == p.obj && probe(p.act, r.act)"
# the user function comes FIRST: whatever it does (e.g. re-enter the enforcer) happens before the request and rule
# fields of the remaining conjuncts are read
FN_FIRST_MATCHER = "probe(p.act, r.act) && r.sub == p.sub && r.obj == p.obj"


def probe(pact, ract):
    """user function whose result type is steered by the rule's act field"""
    if pact == ract:
        return True
    if pact == "f1":
        return 1.5          # non-zero float: counts as a match (core_enforcer.py:465-468)
    if pact == "f0":
        return 0.0          # zero float: no match
    if pact == "s":
        return "text"       # neither bool nor float: raises
    if pact == "i":
        return 2            # int is NOT accepted by the isinstance(bool)/isinstance(float) tests: raises
    return False


REQ = ("alice", "data1", "read")

# how a rule realises an outcome: list of variants (sub, obj, act, eft) ; tag appended for uniqueness
VARIANTS = {
    NOMATCH: [("bob", "data1", "read", "allow"), ("alice", "data2", "read", "deny"), ("alice", "data1", "write", "allow"),
              ("alice", "data1", "f0", "allow")],
    MALLOW: [("alice", "data1", "read", "allow"), ("alice", "data1", "f1", "allow")],
    MDENY: [("alice", "data1", "read", "deny"), ("alice", "data1", "f1", "deny")],
    MOTHER: [("alice", "data1", "read", "maybe"), ("alice", "data1", "read", ""), ("alice", "data1", "read", "Allow"),
             ("alice", "data1", "f1", "DENY")],
    BADTYPE: [("alice", "data1", "s", "allow"), ("alice", "data1", "i", "deny")],
}


def needs_fn(rule):
    return rule[2] in ("f0", "f1", "s", "i")


def realise(outs, has_eft, rng=None, allow_fn=True):
    """outcome codes -> list of rules (lists of str).  Without an effect column only codes 0,1,4,5 exist."""
    rules = []
    for i, o in enumerate(outs):
        if o == BADSIZE:
            # any length other than len(p_tokens) (5 with effect column, 4 without); content is irrelevant
            if rng is not None and rng.random() < 0.5:
                rules.append(["alice", "data1", "read", "allow", "x", "y", f"t{i}"])
            else:
                rules.append(["alice", "data1", f"t{i}"])
            continue
        vs = VARIANTS[o]
        if not allow_fn:
            vs = [v for v in vs if not needs_fn(v)] or vs
        v = vs[0] if rng is None else vs[rng.randrange(len(vs))]
        sub, obj, act, eft = v
        if has_eft:
            rules.append([sub, obj, act, eft, f"t{i}"])
        else:
            rules.append([sub, obj, act, f"t{i}"])
    return rules


_CACHE = {}


NESTED_REQ = ("carol", "data9", "read")
# rules that only the nested request matches (for the outer request REQ they are plain non-matches)
NESTED_RULES = [("carol", "data9", "read", "allow"), ("carol", "data9", "read", "deny")]


def make_nesting_probe(e):
    """user function that itself asks the enforcer (a delegation lookup): the nested decision must not leak into
    the decision that is being computed"""
    state = {"depth": 0}

    def f(pact, ract):
        if state["depth"] == 0:
            state["depth"] = 1
            try:
                e.enforce(*NESTED_REQ)
            except Exception:  # noqa
                pass
            finally:
                state["depth"] = 0
        return probe(pact, ract)
    return f


def get_enforcer(effect, has_eft, use_fn, cls=None, default_effect=None):
    """default_effect: the model's `e` is default_effect and the effect under test is defined as `e2`
    (selected through an EnforceContext whose other definitions stay r/p/m)"""
    key = (effect, has_eft, use_fn, cls, default_effect)
    e = _CACHE.get(key)
    if e is None:
        m = Model()
        m.load_model_from_text(MODEL.format(pdef="sub, obj, act, eft, tag" if has_eft else "sub, obj, act, tag",
                                            effect=default_effect or effect,
                                            e2=("\ne2 = " + effect) if default_effect else "",
                                            matcher=(FN_FIRST_MATCHER if use_fn == "nest1" else FN_MATCHER) if use_fn else PLAIN_MATCHER))
        e = (cls or casbin.Enforcer)(m)
        if use_fn in ("nest", "nest1"):
            e.add_function("probe", make_nesting_probe(e))
        elif use_fn:
            e.add_function("probe", probe)
        _CACHE[key] = e
    return e


def observe(effect, has_eft, rules, req=REQ, enabled=True, use_fn=False, default_effect=None):
    """returns canonical observation in the oracle's result shape:
       [0, [decision, [idx]|[]]]  or [999, code];  plus side observations dict"""
    e = get_enforcer(effect, has_eft, use_fn, default_effect=default_effect)
    e.clear_policy()
    e.enable_enforce(True)
    for r in rules:
        e.add_policy(*r)
    stored = e.get_policy()
    e.enable_enforce(enabled)
    if default_effect:
        ctx = e.new_enforce_context("2")
        ctx.rtype, ctx.ptype, ctx.mtype = "r", "p", "m"       # only the effect definition is the second one
        req = (ctx,) + tuple(req)
    side = {}
    try:
        d, ex = e.enforce_ex(*req)
        if ex:
            idx = [i for i, r in enumerate(stored) if r is ex or r == ex]
            obs = [0, [int(bool(d)), [idx[0]] if idx else [99999]]]
            side["explain_rule"] = list(ex)
        else:
            obs = [0, [int(bool(d)), []]]
        side["decision_type_is_bool"] = isinstance(d, bool)
    except Exception as exc:  # noqa
        obs = [999, classify_exception(exc)]
    # enforce and batch_enforce must agree with enforce_ex
    try:
        d2 = e.enforce(*req)
        o2 = [0, int(bool(d2))]
    except Exception as exc:  # noqa
        o2 = [999, classify_exception(exc)]
    try:
        d3 = e.batch_enforce([list(req), list(req)])
        o3 = [0, [int(bool(x)) for x in d3]]
    except Exception as exc:  # noqa
        o3 = [999, classify_exception(exc)]
    side["enforce"] = o2
    side["batch"] = o3
    side["stored_len"] = len(stored)
    return obs, side


def all_sequences(alphabet, maxlen):
    for n in range(1, maxlen + 1):
        for seq in itertools.product(alphabet, repeat=n):
            yield list(seq)
