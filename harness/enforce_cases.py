"""Shared by C01 and C08: realise a sequence of per-rule outcomes as a real model + policy + request,
run Enforcer.enforce / enforce_ex / batch_enforce, and canonicalise the observation."""
import itertools

import casbin
from casbin.model import Model

from .core import classify_exception

# the five documented policy-effect expressions (Casbin syntax documentation) -> effector index in Effect.v
EFFECTS = [
    ("some(where (p_eft == allow))", 0),
    ("!some(where (p_eft == deny))", 1),
    ("some(where (p_eft == allow)) && !some(where (p_eft == deny))", 2),
    ("priority(p_eft) || deny", 3),
    ("subjectPriority(p_eft) || deny", 3),
]

# outcome codes (Effect.v outcome_of_N): 0 NoMatch 1 Match allow 2 Match deny 3 Match other 4 BadSize 5 BadType
NOMATCH, MALLOW, MDENY, MOTHER, BADSIZE, BADTYPE = range(6)

MODEL = """
[request_definition]
r = sub, obj, act

[policy_definition]
p = {pdef}

[policy_effect]
e = {effect}{e2}

[matchers]
m = {matcher}
"""

PLAIN_MATCHER = "r.sub == p.sub && r.obj == p.obj && r.act == p.act"
FN_MATCHER = "r.sub == p.sub && r.obj == p.obj && probe(p.act, r.act)"
# the user function comes FIRST: whatever it does (e.g. re-enter the enforcer) happens before the request and rule
# fields of the remaining conjuncts are read
FN_FIRST_MATCHER = "probe(p.act, r.act) && r.sub == p.sub && r.obj == p.obj"


def probe(pact, ract):
    """user function whose result type is steered by the rule's act field"""
    if pact == ract:
        return True
    if pact == "f1":
        return 1.5          # non-zero float: counts as a match (core_enforcer.py:465-468)
    if pact == "f0":
        return 0.0          # zero float: no match
    if pact == "s":
        return "text"       # neither bool nor float: raises
    if pact == "i":
        return 2            # int is NOT accepted by the isinstance(bool)/isinstance(float) tests: raises
    return False


REQ = ("alice", "data1", "read")

# how a rule realises an outcome: list of variants (sub, obj, act, eft) ; tag appended for uniqueness
VARIANTS = {
    NOMATCH: [("bob", "data1", "read", "allow"), ("alice", "data2", "read", "deny"), ("alice", "data1", "write", "allow"),
              ("alice", "data1", "f0", "allow")],
    MALLOW: [("alice", "data1", "read", "allow"), ("alice", "data1", "f1", "allow")],
    MDENY: [("alice", "data1", "read", "deny"), ("alice", "data1", "f1", "deny")],
    MOTHER: [("alice", "data1", "read", "maybe"), ("alice", "data1", "read", ""), ("alice", "data1", "read", "Allow"),
             ("alice", "data1", "f1", "DENY")],
    BADTYPE: [("alice", "data1", "s", "allow"), ("alice", "data1", "i", "deny")],
}


def needs_fn(rule):
    return rule[2] in ("f0", "f1", "s", "i")


def realise(outs, has_eft, rng=None, allow_fn=True):
    """outcome codes -> list of rules (lists of str).  Without an effect column only codes 0,1,4,5 exist."""
    rules = []
    for i, o in enumerate(outs):
        if o == BADSIZE:
            # any length other than len(p_tokens) (5 with effect column, 4 without); content is irrelevant
            if rng is not None and rng.random() < 0.5:
                rules.append(["alice", "data1", "read", "allow", "x", "y", f"t{i}"])
            else:
                rules.append(["alice", "data1", f"t{i}"])
            continue
        vs = VARIANTS[o]
        if not allow_fn:
            vs = [v for v in vs if not needs_fn(v)] or vs
        v = vs[0] if rng is None else vs[rng.randrange(len(vs))]
        sub, obj, act, eft = v
        if has_eft:
            rules.append([sub, obj, act, eft, f"t{i}"])
        else:
            rules.append([sub, obj, act, f"t{i}"])
    return rules


_CACHE = {}


NESTED_REQ = ("carol", "data9", "read")
# rules that only the nested request matches (for the outer request REQ they are plain non-matches)
NESTED_RULES = [("carol", "data9", "read", "allow"), ("carol", "data9", "read", "deny")]


def make_nesting_probe(e):
    """user function that itself asks the enforcer (a delegation lookup): the nested decision must not leak into
    the decision that is being computed"""
    state = {"depth": 0}

    def f(pact, ract):
        if state["depth"] == 0:
            state["depth"] = 1
            try:
                e.enforce(*NESTED_REQ)
            except Exception:  # noqa
                pass
            finally:
                state["depth"] = 0
        return probe(pact, ract)
    return f


def get_enforcer(effect, has_eft, use_fn, cls=None, default_effect=None):
    """default_effect: the model's `e` is default_effect and the effect under test is defined as `e2`
    (selected through an EnforceContext whose other definitions stay r/p/m)"""
    key = (effect, has_eft, use_fn, cls, default_effect)
    e = _CACHE.get(key)
    if e is None:
        m = Model()
        m.load_model_from_text(MODEL.format(pdef="sub, obj, act, eft, tag" if has_eft else "sub, obj, act, tag",
                                            effect=default_effect or effect,
                                            e2=("\ne2 = " + effect) if default_effect else "",
                                            matcher=(FN_FIRST_MATCHER if use_fn == "nest1" else FN_MATCHER) if use_fn else PLAIN_MATCHER))
        e = (cls or casbin.Enforcer)(m)
        if use_fn in ("nest", "nest1"):
            e.add_function("probe", make_nesting_probe(e))
        elif use_fn:
            e.add_function("probe", probe)
        _CACHE[key] = e
    return e


def observe(effect, has_eft, rules, req=REQ, enabled=True, use_fn=False, default_effect=None):
    """returns canonical observation in the oracle's result shape:
       [0, [decision, [idx]|[]]]  or [999, code];  plus side observations dict"""
    e = get_enforcer(effect, has_eft, use_fn, default_effect=default_effect)
    e.clear_policy()
    e.enable_enforce(True)
    for r in rules:
        e.add_policy(*r)
    stored = e.get_policy()
    e.enable_enforce(enabled)
    if default_effect:
        ctx = e.new_enforce_context("2")
        ctx.rtype, ctx.ptype, ctx.mtype = "r", "p", "m"       # only the effect definition is the second one
        req = (ctx,) + tuple(req)
    side = {}
    try:
        d, ex = e.enforce_ex(*req)
        if ex:
            idx = [i for i, r in enumerate(stored) if r is ex or r == ex]
            obs = [0, [int(bool(d)), [idx[0]] if idx else [99999]]]
            side["explain_rule"] = list(ex)
        else:
            obs = [0, [int(bool(d)), []]]
        side["decision_type_is_bool"] = isinstance(d, bool)
    except Exception as exc:  # noqa
        obs = [999, classify_exception(exc)]
    # enforce and batch_enforce must agree with enforce_ex
    try:
        d2 = e.enforce(*req)
        o2 = [0, int(bool(d2))]
    except Exception as exc:  # noqa
        o2 = [999, classify_exception(exc)]
    try:
        d3 = e.batch_enforce([list(req), list(req)])
        o3 = [0, [int(bool(x)) for x in d3]]
    except Exception as exc:  # noqa
        o3 = [999, classify_exception(exc)]
    side["enforce"] = o2
    side["batch"] = o3
    side["stored_len"] = len(stored)
    return obs, side


def all_sequences(alphabet, maxlen):
    for n in range(1, maxlen + 1):
        for seq in itertools.product(alphabet, repeat=n):
            yield list(seq)


# ======================================================================================================================
# Histories on ONE enforcer (C01/C08 strata "history-*" and "context-p2").
#
# The property quantifies over "every model, policy and request": what enforce / enforce_ex / batch_enforce answer is a
# function of the CURRENT model, policy, role links, enabled flag and request - not of which requests were asked
# before, which of them raised, which entry point was used, which enforcer class of the library holds the policy, or
# which role-manager object currently holds the links.  A history is a list of steps on one freshly built enforcer;
# every "ask" step is judged against the spec evaluated on the state the management calls have produced so far.
#
# model descriptor md = dict(kind, effect, effect2, has_eft, fn)
#   kind "acl"  : the C01 model (r.sub == p.sub && r.obj == p.obj && <act>)
#   kind "rbac" : the same with a role definition g = _, _ and g(r.sub, p.sub) for the subject
#   kind "two"  : second definitions r2 / p2 / e2 / m2 beside r / p / e / m (selected through an EnforceContext)
#   <act> is r.act == p.act, or probe(p.act, r.act) when md["fn"]
# steps: ["add", ptype, rule] ["remove", ptype, rule] ["clear"] ["enable", bool] ["add_g", [user, role]]
#        ["remove_g", [user, role]] ["swap_rm"] (set_role_manager(fresh manager) + build_role_links) ["build_links"]
#        ["ask", entry, ctx, [request, ...]]  entry in enforce_ex / enforce / batch_enforce; ctx None or
#        dict(r=, p=, e=, m=) naming the definitions of an EnforceContext
TWO_MODEL = """
[request_definition]
r = sub, obj, act
r2 = sub, obj, act

[policy_definition]
p = {pdef}
p2 = {pdef}

[policy_effect]
e = {effect}
e2 = {effect2}

[matchers]
m = r.sub == p.sub && r.obj == p.obj && {act}
m2 = r2.sub == p2.sub && r2.obj == p2.obj && {act2}
"""

RBAC_MODEL = """
[request_definition]
r = sub, obj, act

[policy_definition]
p = {pdef}

[role_definition]
g = _, _

[policy_effect]
e = {effect}

[matchers]
m = g(r.sub, p.sub) && r.obj == p.obj && {act}
"""


def model_text(md):
    pdef = "sub, obj, act, eft, tag" if md["has_eft"] else "sub, obj, act, tag"
    if md["kind"] == "acl":
        return MODEL.format(pdef=pdef, effect=md["effect"], e2="", matcher=FN_MATCHER if md["fn"] else PLAIN_MATCHER)
    if md["kind"] == "rbac":
        return RBAC_MODEL.format(pdef=pdef, effect=md["effect"], act="probe(p.act, r.act)" if md["fn"] else "r.act == p.act")
    return TWO_MODEL.format(pdef=pdef, effect=md["effect"], effect2=md["effect2"],
                            act="probe(p.act, r.act)" if md["fn"] else "r.act == p.act",
                            act2="probe(p2.act, r2.act)" if md["fn"] else "r2.act == p2.act")


def build_enforcer(flavour, order, md):
    """a FRESH enforcer of one of the library's enforcer classes on the model md (no adapter)"""
    from casbin.model.model_fast import FastModel
    m = FastModel(list(order)) if (flavour == "FastEnforcer" and order) else Model()
    m.load_model_from_text(model_text(md))
    if flavour == "FastEnforcer":
        e = casbin.FastEnforcer(m, cache_key_order=list(order) if order else None)
    elif flavour == "SyncedEnforcer":
        e = casbin.SyncedEnforcer(m)
    else:
        e = casbin.Enforcer(m)
    if md["fn"]:
        e.add_function("probe", probe)
    return e


def reachable(grouping, a, b):
    """g(a, b) for g = _, _ : equal names, or b reachable from a over the current assignments (the harness keeps
    every graph below the role manager's depth bound of 10)"""
    if a == b:
        return True
    seen, todo = {a}, [a]
    while todo:
        x = todo.pop()
        for r in grouping:
            if len(r) >= 2 and r[0] == x and r[1] not in seen:
                if r[1] == b:
                    return True
                seen.add(r[1])
                todo.append(r[1])
    return False


def rule_outcome(rule, req, md, grouping=()):
    """outcome code of ONE stored rule for ONE request (of the right arity), by evaluating the harness's own matcher
    directly: this is the 'rules whose matcher is true for the request' of the property for these fixed matchers"""
    if len(rule) != (5 if md["has_eft"] else 4):
        return BADSIZE
    sub_ok = reachable(grouping, req[0], rule[0]) if md["kind"] == "rbac" else req[0] == rule[0]
    if not (sub_ok and req[1] == rule[1]):
        return NOMATCH                                  # && short-circuits: the act conjunct is not evaluated
    if md["fn"]:
        v = probe(rule[2], req[2])
        if isinstance(v, bool):
            hit = v
        elif isinstance(v, float):
            hit = v != 0
        else:
            return BADTYPE
    else:
        hit = req[2] == rule[2]
    if not hit:
        return NOMATCH
    if not md["has_eft"]:
        return MALLOW
    return MALLOW if rule[3] == "allow" else MDENY if rule[3] == "deny" else MOTHER


def empty_match(req, md):
    """the matcher judged against empty rule fields"""
    if len(req) != 3 or req[0] != "" or req[1] != "":
        return False
    if md["fn"]:
        v = probe("", req[2])
        return bool(v)
    return req[2] == ""


def _perm_of(a, b):
    return sorted(map(repr, a)) == sorted(map(repr, b))


def run_history(flavour, order, md, steps):
    """run the steps on a fresh enforcer; returns the list of ask records
       dict(i, entry, ctx, reqs, enabled, ptype, effect, stored, grouping, obs, explain_rules, premise)"""
    from casbin.rbac.default_role_manager import RoleManager
    e = build_enforcer(flavour, order, md)
    expected = {"p": [], "p2": [], "g": []}
    stored = {"p": [], "p2": [], "g": []}
    enabled = True
    premise = None
    asks = []

    def snap(pt):
        nonlocal premise
        if pt == "g":
            stored["g"] = [list(r) for r in e.get_grouping_policy()]
        else:
            stored[pt] = [list(r) for r in e.get_named_policy(pt)]
        ok = _perm_of(stored[pt], expected[pt]) if (flavour == "FastEnforcer" and order and pt == "p") else stored[pt] == expected[pt]
        if not ok and premise is None:
            premise = f"after step {i} the stored {pt} rules {stored[pt]} are not the rules put there {expected[pt]}"
            stored[pt] = [list(r) for r in expected[pt]]

    for i, st in enumerate(steps):
        op = st[0]
        if op == "add":
            e.add_named_policy(st[1], *st[2])
            if list(st[2]) not in expected[st[1]]:
                expected[st[1]].append(list(st[2]))
            snap(st[1])
        elif op == "remove":
            e.remove_named_policy(st[1], *st[2])
            if list(st[2]) in expected[st[1]]:
                expected[st[1]].remove(list(st[2]))
            snap(st[1])
        elif op == "clear":
            e.clear_policy()
            expected = {"p": [], "p2": [], "g": []}
            snap("p")
            if md["kind"] == "two":
                snap("p2")
            if md["kind"] == "rbac":
                snap("g")
        elif op == "enable":
            e.enable_enforce(bool(st[1]))
            enabled = bool(st[1])
        elif op == "add_g":
            e.add_grouping_policy(*st[1])
            if list(st[1]) not in expected["g"]:
                expected["g"].append(list(st[1]))
            snap("g")
        elif op == "remove_g":
            e.remove_grouping_policy(*st[1])
            if list(st[1]) in expected["g"]:
                expected["g"].remove(list(st[1]))
            snap("g")
        elif op == "swap_rm":
            e.set_role_manager(RoleManager(10))
            e.build_role_links()
        elif op == "build_links":
            e.build_role_links()
        elif op == "ask":
            entry, ctx, reqs = st[1], st[2], [tuple(r) for r in st[3]]
            ptype = ctx["p"] if ctx else "p"
            effect = md["effect2"] if (ctx and ctx["e"] == "e2") else md["effect"]

            def args(r):
                if not ctx:
                    return r
                c = e.new_enforce_context("2") if hasattr(e, "new_enforce_context") else casbin.EnforceContext("r2", "p2", "e2", "m2")
                c.rtype, c.ptype, c.etype, c.mtype = ctx["r"], ctx["p"], ctx["e"], ctx["m"]
                return (c,) + r
            expl = None
            try:
                if entry == "enforce_ex":
                    d, ex = e.enforce_ex(*args(reqs[0]))
                    if ex:
                        idx = [k for k, r in enumerate(stored[ptype]) if r == list(ex)]
                        obs = [0, [int(bool(d)), [idx[0]] if idx else [99999]]]
                        expl = list(ex)
                    else:
                        obs = [0, [int(bool(d)), []]]
                elif entry == "enforce":
                    obs = [0, int(bool(e.enforce(*args(reqs[0]))))]
                else:
                    obs = [0, [int(bool(x)) for x in e.batch_enforce([list(args(r)) for r in reqs])]]
            except Exception as exc:  # noqa
                obs = [999, classify_exception(exc)]
            asks.append(dict(i=i, entry=entry, ctx=ctx, reqs=[list(r) for r in reqs], enabled=enabled, ptype=ptype,
                             effect=effect, stored=[list(r) for r in stored[ptype]], grouping=[list(r) for r in stored["g"]],
                             obs=obs, explain_rule=expl))
        else:
            raise ValueError(f"unknown step {st!r}")
    return asks, premise


def ask_queries(md, a):
    """oracle requests (model tag 1, spec tag 2) for every request of one ask record, plus the side data the spec
    clauses stated in Python need: list of (model_req, spec_req, eidx, outs, arity_ok, em)"""
    eidx = dict(EFFECTS)[a["effect"]]
    out = []
    for r in a["reqs"]:
        arity_ok = len(r) == 3
        outs = [rule_outcome(rule, r, md, a["grouping"]) if arity_ok else NOMATCH for rule in a["stored"]]
        em = empty_match(r, md) if not a["stored"] else False
        out.append(((1, [a["effect"], a["enabled"], arity_ok, outs, em]), (2, [eidx, outs]), eidx, outs, arity_ok, em))
    return out
