"""Shared by C01 and C08: realise a sequence of per-rule outcomes as a real model + policy + request,
run Enforcer.enforce / enforce_ex / batch_enforce, and canonicalise the observation."""
import itertools

import casbin
from casbin.model import Model

from .core import classify_exception

# the five documented policy-effect expressions (Casbin syntax documentation) -> effector index in Effect.v
EFFECTS = [
    ("some(where (p_eft == allow))", 0),
    ("!some(where (p_eft == deny))", 1),
    ("some(where (p_eft == allow)) && !some(where (p_eft == deny))", 2),
    ("priority(p_eft) || deny", 3),
    ("subjectPriority(p_eft) || deny", 3),
]

# outcome codes (Effect.v outcome_of_N): 0 NoMatch 1 Match allow 2 Match deny 3 Match other 4 BadSize 5 BadType
NOMATCH, MALLOW, MDENY, MOTHER, BADSIZE, BADTYPE = range(6)

MODEL = """
[request_definition]
r = sub, obj, act

[policy_definition]
p = {pdef}

[policy_effect]
e = {effect}{e2}

[matchers]
m = {matcher}
"""

PLAIN_MATCHER = "r.sub == p.sub && r.obj == p.obj && r.act == p.act"
FN_MATCHER = "r.sub == p.sub && r.obj == p.obj && probe(p.act, r.act)"
# the user function comes FIRST: whatever it does (e.g. re-enter the enforcer) happens before the request and rule
# fields of the remaining conjuncts are read
FN_FIRST_MATCHER = "probe(p.act, r.act) && r.sub == p.sub && r.obj == p.obj"


def probe(pact, ract):
    """user function whose result type is steered by the rule's act field"""
    if pact == ract:
        return True
    if pact == "f1":
        return 1.5          # non-zero float: counts as a match (core_enforcer.py:465-468)
    if pact == "f0":
        return 0.0          # zero float: no match
    if pact == "s":
        return "text"       # neither bool nor float: raises
    if pact == "i":
        return 2            # int is NOT accepted by the isinstance(bool)/isinstance(float) tests: raises
    return False


REQ = ("alice", "data1", "read")

# how a rule realises an outcome: list of variants (sub, obj, act, eft) ; tag appended for uniqueness
VARIANTS = {
    NOMATCH: [("bob", "data1", "read", "allow"), ("alice", "data2", "read", "deny"), ("alice", "data1", "write", "allow"),
              ("alice", "data1", "f0", "allow")],
    MALLOW: [("alice", "data1", "read", "allow"), ("alice", "data1", "f1", "allow")],
    MDENY: [("alice", "data1", "read", "deny"), ("alice", "data1", "f1", "deny")],
    MOTHER: [("alice", "data1", "read", "maybe"), ("alice", "data1", "read", ""), ("alice", "data1", "read", "Allow"),
             ("alice", "data1", "f1", "DENY")],
    BADTYPE: [("alice", "data1", "s", "allow"), ("alice", "data1", "i", "deny")],
}


def needs_fn(rule):
    return rule[2] in ("f0", "f1", "s", "i")


def realise(outs, has_eft, rng=None, allow_fn=True):
    """outcome codes -> list of rules (lists of str).  Without an effect column only codes 0,1,4,5 exist."""
    rules = []
    for i, o in enumerate(outs):
        if o == BADSIZE:
            # any length other than len(p_tokens) (5 with effect column, 4 without); content is irrelevant
            if rng is not None and rng.random() < 0.5:
                rules.append(["alice", "data1", "read", "allow", "x", "y", f"t{i}"])
            else:
                rules.append(["alice", "data1", f"t{i}"])
            continue
        vs = VARIANTS[o]
        if not allow_fn:
            vs = [v for v in vs if not needs_fn(v)] or vs
        v = vs[0] if rng is None else vs[rng.randrange(len(vs))]
        sub, obj, act, eft = v
        if has_eft:
            rules.append([sub, obj, act, eft, f"t{i}"])
        else:
            rules.append([sub, obj, act, f"t{i}"])
    return rules


_CACHE = {}


NESTED_REQ = ("carol", "data9", "read")
# rules that only the nested request matches (for the outer request REQ they are plain non-matches)
NESTED_RULES = [("carol", "data9", "read", "allow"), ("carol", "data9", "read", "deny")]


def make_nesting_probe(e):
    """user function that itself asks the enforcer (a delegation lookup): the nested decision must not leak into
    the decision that is being computed"""
    state = {"depth": 0}

    def f(pact, ract):
        if state["depth"] == 0:
            state["depth"] = 1
            try:
                e.enforce(*NESTED_REQ)
            except Exception:  # noqa
                pass
            finally:
                state["depth"] = 0
        return probe(pact, ract)
    return f


def get_enforcer(effect, has_eft, use_fn, cls=None, default_effect=None):
    """default_effect: the model's `e` is default_effect and the effect under test is defined as `e2`
    (selected through an EnforceContext whose other definitions stay r/p/m)"""
    key = (effect, has_eft, use_fn, cls, default_effect)
    e = _CACHE.get(key)
    if e is None:
        m = Model()
        m.load_model_from_text(MODEL.format(pdef="sub, obj, act, eft, tag" if has_eft else "sub, obj, act, tag",
                                            effect=default_effect or effect,
                                            e2=("\ne2 = " + effect) if default_effect else "",
                                            matcher=(FN_FIRST_MATCHER if use_fn == "nest1" else FN_MATCHER) if use_fn else PLAIN_MATCHER))
        e = (cls or casbin.Enforcer)(m)
        if use_fn in ("nest", "nest1"):
            e.add_function("probe", make_nesting_probe(e))
        elif use_fn:
            e.add_function("probe", probe)
        _CACHE[key] = e
    return e


def observe(effect, has_eft, rules, req=REQ, enabled=True, use_fn=False, default_effect=None):
    """returns canonical observation in the oracle's result shape:
       [0, [decision, [idx]|[]]]  or [999, code];  plus side observations dict"""
    e = get_enforcer(effect, has_eft, use_fn, default_effect=default_effect)
    e.clear_policy()
    e.enable_enforce(True)
    for r in rules:
        e.add_policy(*r)
    stored = e.get_policy()
    e.enable_enforce(enabled)
    if default_effect:
        ctx = e.new_enforce_context("2")
        ctx.rtype, ctx.ptype, ctx.mtype = "r", "p", "m"       # only the effect definition is the second one
        req = (ctx,) + tuple(req)
    side = {}
    try:
        d, ex = e.enforce_ex(*req)
        if ex:
            idx = [i for i, r in enumerate(stored) if r is ex or r == ex]
            obs = [0, [int(bool(d)), [idx[0]] if idx else [99999]]]
            side["explain_rule"] = list(ex)
        else:
            obs = [0, [int(bool(d)), []]]
        side["decision_type_is_bool"] = isinstance(d, bool)
    except Exception as exc:  # noqa
        obs = [999, classify_exception(exc)]
    # enforce and batch_enforce must agree with enforce_ex
    try:
        d2 = e.enforce(*req)
        o2 = [0, int(bool(d2))]
    except Exception as exc:  # noqa
        o2 = [999, classify_exception(exc)]
    try:
        d3 = e.batch_enforce([list(req), list(req)])
        o3 = [0, [int(bool(x)) for x in d3]]
    except Exception as exc:  # noqa
        o3 = [999, classify_exception(exc)]
    side["enforce"] = o2
    side["batch"] = o3
    side["stored_len"] = len(stored)
    return obs, side


def all_sequences(alphabet, maxlen):
    for n in range(1, maxlen + 1):
        for seq in itertools.product(alphabet, repeat=n):
            yield list(seq)


# ======================================================================================================================
# Histories on ONE enforcer (C01/C08 strata "history-*" and "context-p2").
#
# The property quantifies over "every model, policy and request": what enforce / enforce_ex / batch_enforce answer is a
# function of the CURRENT model, policy, role links, enabled flag and request - not of which requests were asked
# before, which of them raised, which entry point was used, which enforcer class of the library holds the policy, or
# which role-manager object currently holds the links.  A history is a list of steps on one freshly built enforcer;
# every "ask" step is judged against the spec evaluated on the state the management calls have produced so far.
#
# model descriptor md = dict(kind, effect, effect2, has_eft, fn)
#   kind "acl"  : the C01 model (r.sub == p.sub && r.obj == p.obj && <act>)
#   kind "rbac" : the same with a role definition g = _, _ and g(r.sub, p.sub) for the subject
#   kind "two"  : second definitions r2 / p2 / e2 / m2 beside r / p / e / m (selected through an EnforceContext)
#   <act> is r.act == p.act, or probe(p.act, r.act) when md["fn"]
# steps: ["add", ptype, rule] ["remove", ptype, rule] ["clear"] ["enable", bool] ["add_g", [user, role]]
#        ["remove_g", [user, role]] ["swap_rm"] (set_role_manager(fresh manager) + build_role_links) ["build_links"]
#        ["ask", entry, ctx, [request, ...]]  entry in enforce_ex / enforce / batch_enforce; ctx None or
#        dict(r=, p=, e=, m=) naming the definitions of an EnforceContext
TWO_MODEL = """
[request_definition]
r = sub, obj, act
r2 = sub, obj, act

[policy_definition]
p = {pdef}
p2 = {pdef}

[policy_effect]
e = {effect}
e2 = {effect2}

[matchers]
m = r.sub == p.sub && r.obj == p.obj && {act}
m2 = r2.sub == p2.sub && r2.obj == p2.obj && {act2}
"""

RBAC_MODEL = """
[request_definition]
r = sub, obj, act

[policy_definition]
p = {pdef}

[role_definition]
g = _, _

[policy_effect]
e = {effect}

[matchers]
m = g(r.sub, p.sub) && r.obj == p.obj && {act}
"""


def model_text(md):
    pdef = "sub, obj, act, eft, tag" if md["has_eft"] else "sub, obj, act, tag"
    if md["kind"] == "acl":
        return MODEL.format(pdef=pdef, effect=md["effect"], e2="", matcher=FN_MATCHER if md["fn"] else PLAIN_MATCHER)
    if md["kind"] == "rbac":
        return RBAC_MODEL.format(pdef=pdef, effect=md["effect"], act="probe(p.act, r.act)" if md["fn"] else "r.act == p.act")
    return TWO_MODEL.format(pdef=pdef, effect=md["effect"], effect2=md["effect2"],
                            act="probe(p.act, r.act)" if md["fn"] else "r.act == p.act",
                            act2="probe(p2.act, r2.act)" if md["fn"] else "r2.act == p2.act")


def build_enforcer(flavour, order, md):
    """a FRESH enforcer of one of the library's enforcer classes on the model md (no adapter)"""
    from casbin.model.model_fast import FastModel
    m = FastModel(list(order)) if (flavour == "FastEnforcer" and order) else Model()
    m.load_model_from_text(model_text(md))
    if flavour == "FastEnforcer":
        e = casbin.FastEnforcer(m, cache_key_order=list(order) if order else None)
    elif flavour == "SyncedEnforcer":
        e = casbin.SyncedEnforcer(m)
    else:
        e = casbin.Enforcer(m)
    if md["fn"]:
        e.add_function("probe", probe)
    return e


def reachable(grouping, a, b):
    """g(a, b) for g = _, _ : equal names, or b reachable from a over the current assignments (the harness keeps
    every graph below the role manager's depth bound of 10)"""
    if a == b:
        return True
    seen, todo = {a}, [a]
    while todo:
        x = todo.pop()
        for r in grouping:
            if len(r) >= 2 and r[0] == x and r[1] not in seen:
                if r[1] == b:
                    return True
                seen.add(r[1])
                todo.append(r[1])
    return False


def rule_outcome(rule, req, md, grouping=()):
    """outcome code of ONE stored rule for ONE request (of the right arity), by evaluating the harness's own matcher
    directly: this is the 'rules whose matcher is true for the request' of the property for these fixed matchers"""
    if len(rule) != (5 if md["has_eft"] else 4):
        return BADSIZE
    sub_ok = reachable(grouping, req[0], rule[0]) if md["kind"] == "rbac" else req[0] == rule[0]
    if not (sub_ok and req[1] == rule[1]):
        return NOMATCH                                  # && short-circuits: the act conjunct is not evaluated
    if md["fn"]:
        v = probe(rule[2], req[2])
        if isinstance(v, bool):
            hit = v
        elif isinstance(v, float):
            hit = v != 0
        else:
            return BADTYPE
    else:
        hit = req[2] == rule[2]
    if not hit:
        return NOMATCH
    if not md["has_eft"]:
        return MALLOW
    return MALLOW if rule[3] == "allow" else MDENY if rule[3] == "deny" else MOTHER


def empty_match(req, md):
    """the matcher judged against empty rule fields"""
    if len(req) != 3 or req[0] != "" or req[1] != "":
        return False
    if md["fn"]:
        v = probe("", req[2])
        return bool(v)
    return req[2] == ""


def _perm_of(a, b):
    return sorted(map(repr, a)) == sorted(map(repr, b))


def run_history(flavour, order, md, steps):
    """run the steps on a fresh enforcer; returns the list of ask records
       dict(i, entry, ctx, reqs, enabled, ptype, effect, stored, grouping, obs, explain_rules, premise)"""
    from casbin.rbac.default_role_manager import RoleManager
    e = build_enforcer(flavour, order, md)
    expected = {"p": [], "p2": [], "g": []}
    stored = {"p": [], "p2": [], "g": []}
    enabled = True
    premise = None
    asks = []

    def snap(pt):
        nonlocal premise
        if pt == "g":
            stored["g"] = [list(r) for r in e.get_grouping_policy()]
        else:
            stored[pt] = [list(r) for r in e.get_named_policy(pt)]
        ok = _perm_of(stored[pt], expected[pt]) if (flavour == "FastEnforcer" and order and pt == "p") else stored[pt] == expected[pt]
        if not ok and premise is None:
            premise = f"after step {i} the stored {pt} rules {stored[pt]} are not the rules put there {expected[pt]}"
            stored[pt] = [list(r) for r in expected[pt]]

    for i, st in enumerate(steps):
        op = st[0]
        if op == "add":
            e.add_named_policy(st[1], *st[2])
            if list(st[2]) not in expected[st[1]]:
                expected[st[1]].append(list(st[2]))
            snap(st[1])
        elif op == "remove":
            e.remove_named_policy(st[1], *st[2])
            if list(st[2]) in expected[st[1]]:
                expected[st[1]].remove(list(st[2]))
            snap(st[1])
        elif op == "clear":
            e.clear_policy()
            expected = {"p": [], "p2": [], "g": []}
            snap("p")
            if md["kind"] == "two":
                snap("p2")
            if md["kind"] == "rbac":
                snap("g")
        elif op == "enable":
            e.enable_enforce(bool(st[1]))
            enabled = bool(st[1])
        elif op == "add_g":
            e.add_grouping_policy(*st[1])
            if list(st[1]) not in expected["g"]:
                expected["g"].append(list(st[1]))
            snap("g")
        elif op == "remove_g":
            e.remove_grouping_policy(*st[1])
            if list(st[1]) in expected["g"]:
                expected["g"].remove(list(st[1]))
            snap("g")
        elif op == "swap_rm":
            e.set_role_manager(RoleManager(10))
            e.build_role_links()
        elif op == "build_links":
            e.build_role_links()
        elif op == "ask":
            entry, ctx, reqs = st[1], st[2], [tuple(r) for r in st[3]]
            ptype = ctx["p"] if ctx else "p"
            effect = md["effect2"] if (ctx and ctx["e"] == "e2") else md["effect"]

            def args(r):
                if not ctx:
                    return r
                c = e.new_enforce_context("2") if hasattr(e, "new_enforce_context") else casbin.EnforceContext("r2", "p2", "e2", "m2")
                c.rtype, c.ptype, c.etype, c.mtype = ctx["r"], ctx["p"], ctx["e"], ctx["m"]
                return (c,) + r
            expl = None
            try:
                if entry == "enforce_ex":
                    d, ex = e.enforce_ex(*args(reqs[0]))
                    if ex:
                        idx = [k for k, r in enumerate(stored[ptype]) if r == list(ex)]
                        obs = [0, [int(bool(d)), [idx[0]] if idx else [99999]]]
                        expl = list(ex)
                    else:
                        obs = [0, [int(bool(d)), []]]
                elif entry == "enforce":
                    obs = [0, int(bool(e.enforce(*args(reqs[0]))))]
                else:
                    obs = [0, [int(bool(x)) for x in e.batch_enforce([list(args(r)) for r in reqs])]]
            except Exception as exc:  # noqa
                obs = [999, classify_exception(exc)]
            asks.append(dict(i=i, entry=entry, ctx=ctx, reqs=[list(r) for r in reqs], enabled=enabled, ptype=ptype,
                             effect=effect, stored=[list(r) for r in stored[ptype]], grouping=[list(r) for r in stored["g"]],
                             obs=obs, explain_rule=expl))
        else:
            raise ValueError(f"unknown step {st!r}")
    return asks, premise


def ask_queries(md, a):
    """oracle requests (model tag 1, spec tag 2) for every request of one ask record, plus the side data the spec
    clauses stated in Python need: list of (model_req, spec_req, eidx, outs, arity_ok, em)"""
    eidx = dict(EFFECTS)[a["effect"]]
    out = []
    for r in a["reqs"]:
        arity_ok = len(r) == 3
        outs = [rule_outcome(rule, r, md, a["grouping"]) if arity_ok else NOMATCH for rule in a["stored"]]
        em = empty_match(r, md) if not a["stored"] else False
        out.append(((1, [a["effect"], a["enabled"], arity_ok, outs, em]), (2, [eidx, outs]), eidx, outs, arity_ok, em))
    return out


# ======================================================================================================================
# Role function asked MORE THAN ONCE per rule / with a rule-side third argument (C01/C08 stratum "role-calls", reused by
# C02 under its own spec).  The names are digit strings that are prefixes / concatenations of each other ("1", "12",
# "123", "2", "23", "3"): what g(a, b[, d]) answers is a function of the triple (a, b, d) and of the current role
# assignments only.  "Which rules match" is evaluated here in Python, straight from the matcher's meaning:
# reachability over the stored grouping rules (graphs stay far below the role manager's depth bound of 10).
ROLE_CALL_TEMPLATE = """
[request_definition]
r = {rdef}

[policy_definition]
p = {pdef}

[role_definition]
g = {gdef}

[policy_effect]
e = {effect}

[matchers]
m = {matcher}
"""
RC_NAMES = ["1", "12", "123", "2", "23", "3"]
RC_OBJS = ["data1", "data2"]
RC_ACTS = ["read", "write"]


def _reach_dom(grouping, a, b, dom):
    return reachable([r[:2] for r in grouping if len(r) == 3 and r[2] == dom], a, b)


ROLE_CALL_KINDS = {
    # g asked about two different request fields against the rule's subject
    "two-request-fields": dict(
        rdef="uid, gid, obj, act", pdef="sub, obj, act, eft, tag", gdef="_, _",
        matcher="(g(r.uid, p.sub) || g(r.gid, p.sub)) && r.obj == p.obj && r.act == p.act",
        match=lambda g, q, r: (reachable(g, q[0], r[0]) or reachable(g, q[1], r[0])) and q[2] == r[1] and q[3] == r[2],
        requests=lambda: [[u, gr, o, a] for u in RC_NAMES for gr in RC_NAMES for o in RC_OBJS for a in RC_ACTS],
        rule=lambda rng: [rng.choice(RC_NAMES), rng.choice(RC_OBJS), rng.choices(RC_ACTS, weights=[4, 1])[0]],
        link=lambda rng: [rng.choice(RC_NAMES), rng.choice(RC_NAMES)]),
    # the domain handed to g comes from the RULE: one request meets (role, domain) pairs whose texts concatenate alike
    "rule-side-domain": dict(
        rdef="sub, obj, act", pdef="sub, dom, obj, act, eft, tag", gdef="_, _, _",
        matcher="g(r.sub, p.sub, p.dom) && r.obj == p.obj && r.act == p.act",
        match=lambda g, q, r: _reach_dom(g, q[0], r[0], r[1]) and q[1] == r[2] and q[2] == r[3],
        requests=lambda: [[s_, o, a] for s_ in RC_NAMES for o in RC_OBJS for a in RC_ACTS],
        rule=lambda rng: [rng.choice(RC_NAMES), rng.choice(RC_NAMES), rng.choice(RC_OBJS), rng.choices(RC_ACTS, weights=[4, 1])[0]],
        link=lambda rng: [rng.choice(RC_NAMES), rng.choice(RC_NAMES), rng.choice(RC_NAMES)]),
    # users and resources live in ONE role graph: g is asked about the subject and about the object
    "subject-and-object": dict(
        rdef="sub, obj, act", pdef="sub, obj, act, eft, tag", gdef="_, _",
        matcher="g(r.sub, p.sub) && g(r.obj, p.obj) && r.act == p.act",
        match=lambda g, q, r: reachable(g, q[0], r[0]) and reachable(g, q[1], r[1]) and q[2] == r[2],
        requests=lambda: [[s_, o, a] for s_ in RC_NAMES for o in RC_NAMES for a in RC_ACTS],
        rule=lambda rng: [rng.choice(RC_NAMES), rng.choice(RC_NAMES), rng.choices(RC_ACTS, weights=[4, 1])[0]],
        link=lambda rng: [rng.choice(RC_NAMES), rng.choice(RC_NAMES)]),
}

# hand-made scenarios: the role of one name and the rule of another whose texts concatenate alike
ROLE_CALL_FIXED = [
    dict(kind="two-request-fields", grouping=[["12", "3"]],
         rules=[["3", "data1", "read", "allow", "t0"], ["23", "data2", "read", "allow", "t1"], ["23", "data1", "read", "deny", "t2"]]),
    dict(kind="two-request-fields", grouping=[["1", "23"], ["123", "2"], ["2", "3"]],
         rules=[["3", "data2", "read", "deny", "t0"], ["23", "data2", "read", "allow", "t1"], ["3", "data1", "write", "allow", "t2"]]),
    dict(kind="rule-side-domain", grouping=[["1", "2", "3"], ["12", "2", "3"], ["1", "23", "1"]],
         rules=[["2", "3", "data1", "read", "allow", "t0"], ["12", "3", "data2", "read", "allow", "t1"], ["2", "31", "data2", "read", "allow", "t2"],
                ["23", "1", "data2", "write", "deny", "t3"]]),
    dict(kind="rule-side-domain", grouping=[["1", "23", "12"], ["12", "3", "1"]],
         rules=[["23", "12", "data1", "read", "allow", "t0"], ["231", "2", "data1", "read", "deny", "t1"], ["2", "312", "data2", "read", "allow", "t2"]]),
    dict(kind="subject-and-object", grouping=[["12", "3"], ["2", "23"]],
         rules=[["3", "23", "read", "allow", "t0"], ["23", "3", "read", "allow", "t1"], ["3", "3", "write", "deny", "t2"]]),
    dict(kind="subject-and-object", grouping=[["1", "2"], ["12", "123"], ["3", "12"]],
         rules=[["2", "123", "read", "allow", "t0"], ["12", "12", "read", "deny", "t1"], ["123", "2", "read", "allow", "t2"]]),
]


def role_call_scenarios(rng, n_random):
    out = [dict(s) for s in ROLE_CALL_FIXED]
    for kind, k in ROLE_CALL_KINDS.items():
        for _ in range(n_random):
            grouping = []
            for _ in range(rng.randint(1, 4)):
                l_ = k["link"](rng)
                if l_[0] != l_[1] and l_ not in grouping:
                    grouping.append(l_)
            rules = []
            for i in range(rng.randint(2, 5)):
                rules.append(k["rule"](rng) + [rng.choices(["allow", "deny", "maybe"], weights=[6, 3, 1])[0], f"t{i}"])
            out.append(dict(kind=kind, grouping=grouping, rules=rules))
    return out


def role_call_spec(eidx, outs):
    """decision and position of the deciding rule (None: decided by default) for the per-rule outcomes 'allow' / 'deny' /
    other of the MATCHING rules in policy order: the four documented effect expressions as properties C01/C08 word them.
    Under allow-and-deny an allow is reached by default (no single rule decides it)."""
    first = lambda efts: next((i for i, o in enumerate(outs) if o in efts), None)
    if eidx == 0:
        i = first(("allow",))
        return i is not None, i
    if eidx == 1:
        i = first(("deny",))
        return i is None, i
    if eidx == 2:
        i = first(("deny",))
        return (i is None and first(("allow",)) is not None), i
    i = first(("allow", "deny"))
    return (i is not None and outs[i] == "allow"), i


def role_call_model_text(kind, effect):
    k = ROLE_CALL_KINDS[kind]
    return ROLE_CALL_TEMPLATE.format(rdef=k["rdef"], pdef=k["pdef"], gdef=k["gdef"], effect=effect, matcher=k["matcher"])


def judge_role_call_scenario(sc, effect, eidx, cls_name="Enforcer", requests=None):
    """run one scenario (kind, grouping, rules) under one effect on a fresh enforcer and judge every request of the kind's
    universe (or the given ones): yields (request, observed, expected) for each request whose decision - through enforce and
    enforce_ex - or explaining rule is not that of the rules the matcher is true of"""
    k = ROLE_CALL_KINDS[sc["kind"]]
    e = getattr(casbin, cls_name)(casbin.Enforcer.new_model(text=role_call_model_text(sc["kind"], effect)))
    for r in sc["rules"]:
        e.add_policy(*r)
    for l_ in sc["grouping"]:
        e.add_grouping_policy(*l_)
    stored = [list(r) for r in e.get_policy()]
    n = 0
    bad = []
    for q in (requests if requests is not None else k["requests"]()):
        n += 1
        hits = [i for i, r in enumerate(sc["rules"]) if k["match"](sc["grouping"], q, r)]
        dec, pos = role_call_spec(eidx, [sc["rules"][i][-2] for i in hits])
        want = dict(decision=dec, explanation=(sc["rules"][hits[pos]] if pos is not None else []))
        try:
            d1 = bool(e.enforce(*q))
            gx = e.enforce_ex(*q)
            got = dict(decision=bool(gx[0]), explanation=list(gx[1]), enforce=d1)
        except Exception as exc:  # noqa
            got = dict(raised=type(exc).__name__, message=str(exc)[:120])
        if got != dict(want, enforce=dec):
            bad.append((q, got, want))
    return n, bad, stored


def role_calls_stratum(chk, prop_words, effects=None, n_random=None, classes=("Enforcer",)):
    """every scenario x effect x request of the universe; one failing request per run is reported (the first of the first
    failing scenario: scenarios are small by construction).  Returns the number of judged requests."""
    import random as _random
    rng = _random.Random(chk.seed * 31 + 20261002)
    if n_random is None:
        n_random = 5 if chk.tier == "quick" else 40
    effects = effects or [(ef, ix) for ef, ix in EFFECTS if not ef.startswith("subjectPriority")]
    n = 0
    for sc in role_call_scenarios(rng, n_random):
        for effect, eidx in effects:
            for cls_name in classes:
                k, bad, stored = judge_role_call_scenario(sc, effect, eidx, cls_name)
                n += k
                chk.count(("role-calls", sc["kind"], effect, cls_name, repr(sc["grouping"]), repr(sc["rules"])), n=k)
                if stored != sc["rules"]:
                    chk.disagree(dict(sc, stratum="role-calls"), stored, sc["rules"], where="harness premise: rules not stored as given")
                if bad:
                    q, got, want = bad[0]
                    chk.spec_fail(dict(stratum="role-calls", kind=sc["kind"], matcher=ROLE_CALL_KINDS[sc["kind"]]["matcher"], effect=effect,
                                       enforcer=cls_name, grouping=sc["grouping"], rules=sc["rules"], request=q), got, want, prop_words)
                    return n
    return n


def replay_role_call(c):
    """re-run the one recorded request of a role-calls case; returns (observed, expected) when it still fails, else None"""
    eidx = dict(EFFECTS)[c["effect"]]
    _, bad, _ = judge_role_call_scenario(dict(kind=c["kind"], grouping=c["grouping"], rules=c["rules"]), c["effect"], eidx,
                                         c.get("enforcer", "Enforcer"), requests=[c["request"]])
    return (bad[0][1], bad[0][2]) if bad else None
