"""Case generators and the arithmetic spec for the ip_match part of C13 (used by harness/props/c13.py).

Every documented-form case is generated FROM INTEGERS: the address x, the network integer net, the
family and the prefix length n are chosen first and only then written as text (in one of several
spellings).  The expected verdict is plain integer arithmetic on those numbers,

    same family  and  x >> (W - n) == net >> (W - n)        (W = 32 / 128)

so neither `ipaddress` nor the Coq model takes part in computing it.  Malformed cases carry the
expectation "the address does not parse -> ValueError" / "the network does not parse -> False".

A case is (ip1, ip2, exp) with exp = None (no expectation: model comparison only) or an Exp."""
import itertools


class Exp:
    """val: 0/1 expected answer, or 1011 (ValueError) ; doc: both arguments are in the documented form ;
    addr = (family, int) and net = (family, int, prefixlen) when known (compared with the model's parse)"""
    __slots__ = ("val", "doc", "addr", "net")

    def __init__(self, val, doc=True, addr=None, net=None):
        self.val, self.doc, self.addr, self.net = val, doc, addr, net

    def as_list(self):
        return [self.val, self.doc, list(self.addr) if self.addr else None, list(self.net) if self.net else None]

    @staticmethod
    def from_list(l):
        return Exp(l[0], l[1], tuple(l[2]) if l[2] else None, tuple(l[3]) if l[3] else None)


def member(fa, x, fn, net, n):
    """THE SPEC: membership of address (fa, x) in the block (fn, net, n), as arithmetic"""
    if fa != fn:
        return 0
    w = 32 if fn == 4 else 128
    return int((x >> (w - n)) == (net >> (w - n)))


def pair(fa, x, sa, fn, net, n, sn):
    """documented-form case from integers and their chosen spellings"""
    return (sa, sn, Exp(member(fa, x, fn, net, n), True, (fa, x), (fn, net, n)))


# ------------------------------------------------------------------ spellings
def dotted(x):
    return ".".join(str((x >> s) & 255) for s in (24, 16, 8, 0))


def groups(n):
    return [(n >> (16 * (7 - i))) & 0xFFFF for i in range(8)]


def from_groups(g):
    n = 0
    for v in g:
        n = (n << 16) | v
    return n


def dc_text(pre, post):
    """hextet texts pre, '::', hextet texts post"""
    return ":".join(pre) + "::" + ":".join(post)


def zero_runs(g):
    """(start, length) of every maximal run of zero groups"""
    out, i = [], 0
    while i < 8:
        if g[i] == 0:
            j = i
            while j < 8 and g[j] == 0:
                j += 1
            out.append((i, j - i))
            i = j
        else:
            i += 1
    return out


def canonical6(n):
    """RFC 5952, written without ipaddress"""
    g = groups(n)
    runs = [r for r in zero_runs(g) if r[1] >= 2]
    if not runs:
        return ":".join("%x" % v for v in g)
    best = max(runs, key=lambda r: (r[1], -r[0]))
    s, l = best
    return dc_text(["%x" % v for v in g[:s]], ["%x" % v for v in g[s + l:]])


def full6(n):
    return ":".join("%04x" % v for v in groups(n))


def hextet_style(v, rng):
    k = rng.randrange(6)
    if k == 0:
        return "%x" % v
    if k == 1:
        return "%X" % v
    if k == 2:
        return "%04x" % v
    if k == 3:
        return "%04X" % v
    if k == 4:
        return "%03x" % v if v < 0x1000 else "%x" % v
    return "".join(c.upper() if rng.random() < 0.5 else c for c in "%x" % v)


def spell6(n, rng, allow_tail=True):
    """one of the admissible spellings of the 128-bit integer n"""
    g = groups(n)
    tail = allow_tail and rng.random() < 0.2
    body = g[:6] if tail else g
    texts = [hextet_style(v, rng) for v in body]
    quad = [dotted((g[6] << 16) | g[7])] if tail else []
    # every sub-run (length >= 1) of a zero run of the body may be written as '::'
    subruns = []
    for s, l in zero_runs(body + [1] * (8 - len(body))):
        for a in range(s, s + l):
            for b in range(a + 1, s + l + 1):
                if b <= len(body):
                    subruns.append((a, b))
    k = rng.random()
    if subruns and k < 0.7:
        a, b = rng.choice(subruns) if k < 0.35 else max(subruns, key=lambda r: r[1] - r[0])
        return dc_text(texts[:a], texts[b:] + quad)
    return ":".join(texts + quad)


# ------------------------------------------------------------------ strata
TOKENS = ["0", "1", "db8", "FFFF", "00a"]


def structured6():
    """every placement of '::' (36 shapes pre/post with pre+post <= 7) and the '::'-less shape; the explicit
    groups run over TOKENS exhaustively when there are at most 4 of them, over the 5 rotations of the token
    list otherwise; each text also in swapped case.  Yields (text, integer)."""
    out = []

    def emit(pre, post, plain=False):
        for flip in (False, True):
            tp = [t.swapcase() if flip else t for t in pre]
            tq = [t.swapcase() if flip else t for t in post]
            vals = [int(t, 16) for t in pre], [int(t, 16) for t in post]
            if plain:
                out.append((":".join(tp), from_groups(vals[0])))
            else:
                g = vals[0] + [0] * (8 - len(pre) - len(post)) + vals[1]
                out.append((dc_text(tp, tq), from_groups(g)))

    for a in range(8):
        for b in range(8 - a):
            k = a + b
            if k <= 4:
                for toks in itertools.product(TOKENS, repeat=k):
                    emit(list(toks[:a]), list(toks[a:]))
            else:
                for r in range(5):
                    toks = [TOKENS[(r + i) % 5] for i in range(k)]
                    emit(toks[:a], toks[a:])
    for r in range(5):
        emit([TOKENS[(r + i) % 5] for i in range(8)], [], plain=True)
        emit([TOKENS[(r + 2 * i) % 5] for i in range(8)], [], plain=True)
    return out


def structured6_cases(rng):
    """each structured text as the address against its canonical block, as the block against the canonical
    address, against a neighbour, and with a prefix"""
    out = []
    for t, n in structured6():
        can = canonical6(n)
        out.append(pair(6, n, t, 6, n, 128, can))
        out.append(pair(6, n, can, 6, n, 128, t))
        other = n ^ (1 << rng.randrange(128))
        out.append(pair(6, other, canonical6(other), 6, n, 128, t))
        k = rng.randrange(129)
        x = n ^ (1 << rng.randrange(128))
        out.append(pair(6, x, full6(x), 6, n, k, f"{t}/{k}"))
    return out


SPECIAL6 = [0, 1, (1 << 128) - 1, 0x20010DB8 << 96, (0x20010DB8 << 96) | 1, 0xFE80 << 112, (0xFE80 << 112) | 1,
            0xFFFF << 32 | 0x01020304, 1 << 127, 0x0001000000000000_0001000000000000, 0xFF02 << 112 | 0xFB,
            0x0064FF9B << 96 | 0xC0000221]


def grid6(rng, nbase, prefixes):
    """networks x prefix lengths x addresses at the block boundaries, one bit off around the boundary, random"""
    out = []
    bases = SPECIAL6 + [rng.getrandbits(128) for _ in range(nbase)] + \
        [rng.getrandbits(128) & ~(((1 << 64) - 1) << rng.randrange(0, 65)) for _ in range(nbase // 2)]
    for net in bases:
        net &= (1 << 128) - 1
        ks = range(129) if prefixes is None else sorted(set([0, 1, 63, 64, 127, 128] + rng.sample(range(129), prefixes)))
        for n in ks:
            sh = 128 - n
            lo = (net >> sh) << sh
            addrs = {net, lo, lo | ((1 << sh) - 1), rng.getrandbits(128)}
            for bit in (sh - 1, sh, sh + 1):
                if 0 <= bit < 128:
                    addrs.add(net ^ (1 << bit))
            sn = spell6(net, rng)
            for a in addrs:
                out.append(pair(6, a, spell6(a, rng), 6, net, n, f"{sn}/{n}"))
        out.append(pair(6, net, spell6(net, rng), 6, net, 128, spell6(net, rng)))
        out.append(pair(6, net ^ 1, spell6(net ^ 1, rng), 6, net, 128, spell6(net, rng)))
        out.append(pair(6, net, canonical6(net), 6, net, 128, full6(net).upper()))
    return out


def embedded4(rng, n):
    """dotted-quad tails: the same integer written with the tail and in hex, both ways, with and without '::'"""
    out = []
    heads = [[0, 0, 0, 0, 0, 0xFFFF], [0, 0, 0, 0, 0, 0], [0x64, 0xFF9B, 0, 0, 0, 0], [1, 2, 3, 4, 5, 6],
             [0x2001, 0xDB8, 0, 0, 0, 1]]
    quads = [0, 0xFFFFFFFF, 0x01020304, 0xC0A8027B, 0x0A000001, 0x00000001, 0x00010000] + \
            [rng.getrandbits(32) for _ in range(n)]
    for h in heads:
        for q in quads:
            v = from_groups(h + [q >> 16, q & 0xFFFF])
            plain = ":".join("%x" % x for x in h) + ":" + dotted(q)
            forms = [plain]
            for s, l in zero_runs(h + [1, 1]):
                forms.append(dc_text(["%x" % x for x in h[:s]], ["%x" % x for x in h[s + l:]] + [dotted(q)]))
                if l > 1:
                    forms.append(dc_text(["%x" % x for x in h[:s + 1]], ["%x" % x for x in h[s + l:]] + [dotted(q)]))
            for f in forms:
                out.append(pair(6, v, f, 6, v, 128, canonical6(v)))
                out.append(pair(6, v, canonical6(v), 6, v, 128, f))
                out.append(pair(6, v ^ 1, canonical6(v ^ 1), 6, v, 128, f))
                k = rng.randrange(96, 129)
                x = v ^ (1 << rng.randrange(32))
                out.append(pair(6, x, full6(x), 6, v, k, f"{f}/{k}"))
    return out


def masks4(rng, nbase):
    """IPv4 networks written with a netmask / a hostmask for every prefix length (incl. the two ambiguous
    masks), and non-contiguous masks (not networks: the answer is False)"""
    out = []
    special = [0, 0xFFFFFFFF, 0x0A000000, 0xC0A8027B, 0x7F000001, 0x80000000]
    bases = special + [rng.getrandbits(32) for _ in range(nbase)]
    for net in bases:
        for n in range(33):
            sh = 32 - n
            nm = (0xFFFFFFFF >> sh) << sh if sh < 32 else 0
            hm = 0xFFFFFFFF ^ nm
            lo = net & nm
            addrs = {net, lo, lo | hm, rng.getrandbits(32)}
            for bit in (sh - 1, sh, sh + 1):
                if 0 <= bit < 32:
                    addrs.add(net ^ (1 << bit))
            for a in addrs:
                out.append(pair(4, a, dotted(a), 4, net, n, f"{dotted(net)}/{dotted(nm)}"))
                # a hostmask text denotes /n, except that 0.0.0.0 and 255.255.255.255 are read as NETmasks
                n_h = n if 0 < n < 32 else 32 - n
                out.append(pair(4, a, dotted(a), 4, net, n_h, f"{dotted(net)}/{dotted(hm)}"))
        # non-contiguous masks
        for _ in range(6):
            m = rng.getrandbits(32)
            if contiguous(m):
                continue
            a = net ^ (rng.getrandbits(32) & ~m)
            out.append((dotted(a & 0xFFFFFFFF), f"{dotted(net)}/{dotted(m)}", Exp(0, False)))
            out.append((dotted(net), f"{dotted(net)}/{dotted(m)}", Exp(0, False)))
    for m in ("255.0.255.0", "0.255.0.0", "255.255.255.1", "1.0.0.0", "0.0.1.254", "127.255.255.254", "254.255.255.255",
              "255.255.0.255", "0.0.255.0"):
        out.append(("10.1.2.3", "10.1.2.3/" + m, Exp(0, False)))
    out.append(("10.1.2.3", "10.1.2.3/0.255.255.255", Exp(1, True, (4, 0x0A010203), (4, 0x0A010203, 8))))
    return out


def contiguous(m):
    inv = m ^ 0xFFFFFFFF
    return any(m == ((0xFFFFFFFF >> s) << s) & 0xFFFFFFFF for s in range(33)) or \
        any(inv == ((0xFFFFFFFF >> s) << s) & 0xFFFFFFFF for s in range(33))


def mixed(rng, n):
    """an IPv4 address is never in an IPv6 block and vice versa (IPv4-mapped addresses are IPv6 addresses)"""
    out = []
    quads = [0, 0x01020304, 0xC0A8027B, 0xFFFFFFFF] + [rng.getrandbits(32) for _ in range(n)]
    for q in quads:
        mapped = (0xFFFF << 32) | q
        for v6, k6 in ((mapped, 128), (mapped, 96), (q, 128), (0, 0), (q << 96, 32)):
            out.append(pair(4, q, dotted(q), 6, v6, k6, f"{spell6(v6, rng)}/{k6}"))
            out.append(pair(4, q, dotted(q), 6, v6, 128, spell6(v6, rng)))
        for v6 in (mapped, q, q << 96):
            for k4 in (32, 0, 8):
                out.append(pair(6, v6, spell6(v6, rng), 4, q, k4, f"{dotted(q)}/{k4}"))
            out.append(pair(6, v6, spell6(v6, rng), 4, q, 32, dotted(q)))
            out.append(pair(6, v6, spell6(v6, rng), 4, q, 0, f"{dotted(q)}/0.0.0.0"))
    return out


MALFORMED_ADDR6 = [
    ":", ":::", "::::", "1:2:3:4:5:6:7", "1:2:3:4:5:6:7:8:9", "1:2:3:4:5:6:7:8:9:a", "1::2::3", "::1::", "1:::2", "12345::",
    "::12345", "::0001f", "1:2:3:4:5:6:7:", ":1:2:3:4:5:6:7", ":1::2", "1::2:", "1:2:3:4:5:6:7:8::", "::1:2:3:4:5:6:7:8",
    "1::2:3:4:5:6:7:8", "1:2:3:4::5:6:7:8", "::g", "::-1", "::+1", "::0x1", ":: 1", "::1 ", " ::1", "::1\n", "::１", "1:2:3:4:5:6:7:8/128",
    "::1/128", "1:2:3:4:5:6:7:1.2.3.4", "::1.2.3", "::1.2.3.4.5", "::1.2.3.256", "::01.2.3.4", "::1.2.3.4:5", "1.2.3.4::",
    "::1.2.3.4:", "1:2:3:4:5:6:7:8:1.2.3.4", "::2:3:4:5:6:7:1.2.3.4", "::1.2.3.4/", "::.", "::1.", "1.2.3.4:1.2.3.4", ":1.2.3.4",
    "1:1.2.3.4", "::%", "::1%", "::1%a%b", "%eth0", "::1%a/b", "1:2:3:4:5:6:7:8%", "fe80::1%%", "::1:", ":1", "1:", "1:2", "::ffff:1.2.3.4.",
    "0:0:0:0:0:0:0:0:0", "0:0:0:0:0:0:0::0", "::0:0:0:0:0:0:0:0", "0::0:0:0:0:0:0:0", "abcd:ef01:2345:6789:abcd:ef01:2345:678g",
]
WELLFORMED_EDGE6 = [
    # accepted although they look odd: '::' standing for ONE group, at the start, at the end
    ("1:2:3:4:5:6:7::", [1, 2, 3, 4, 5, 6, 7, 0]), ("::2:3:4:5:6:7:8", [0, 2, 3, 4, 5, 6, 7, 8]),
    ("1::3:4:5:6:7:8", [1, 0, 3, 4, 5, 6, 7, 8]), ("1:2:3:4:5:6::8", [1, 2, 3, 4, 5, 6, 0, 8]),
    ("0::0", [0] * 8), ("::0:0:0:0:0:0:0", [0] * 8), ("0:0:0:0:0:0:0::", [0] * 8), ("::", [0] * 8),
    ("::0.0.0.0", [0] * 8), ("0:0:0:0:0:0:0.0.0.0", [0] * 8), ("::2:3:4:5:6:1.2.3.4", [0, 2, 3, 4, 5, 6, 0x102, 0x304]),
    ("1:2:3:4:5::1.2.3.4", [1, 2, 3, 4, 5, 0, 0x102, 0x304]), ("0000:0000:0000:0000:0000:0000:0000:0001", [0] * 7 + [1]),
    ("FFFF:ffff:FfFf:fFfF:ffff:FFFF:255.255.255.255", [0xFFFF] * 8),
    ("aBcD:Ef01:2345:6789:AbCd:eF01:2345:6789", [0xABCD, 0xEF01, 0x2345, 0x6789, 0xABCD, 0xEF01, 0x2345, 0x6789]),
]
MALFORMED_PREFIX = ["", "129", "999", "-1", "+8", " 8", "8 ", "0x8", "8.0", "1e1", "٨", "８", "a", "1/2", "/", "::", "ffff::",
                    "255.255.255.0", "0.0.0.255", "128.0.0.0", "4294967296", "0" * 4301]
ODD_BUT_VALID_PREFIX = [("08", 8), ("000", 0), ("0128", 128), ("00000000064", 64), ("0" * 4298 + "64", 64)]
MALFORMED_ADDR4 = ["", "1.2.3", "1.2.3.4.5", "01.2.3.4", "1.2.3.256", "1.2.3.4 ", " 1.2.3.4", "1..2.3", "1.2.3.0004", "a.b.c.d",
                   "1.2.3.-4", "1.2.3.4/32", "1,2,3,4", "1.2.3.+4", "999.1.1.1", "0.0.0.00", "1.2.3.٤", "1.2.3.4\n", "1.2.3.4%eth0",
                   "1.2.3.4.", ".1.2.3.4", "1.2.3.1000", "1.2.3.0x4", "0x1.2.3.4", "1.2.3.４"]
MALFORMED_NET4 = ["", "1.2.3.4/", "1.2.3.4/33", "1.2.3.4/a", "1.2.3.4/1/2", "1.2.3.4/ 8", "1.2.3.4/+8", "/8", "1.2.3/8",
                  "1.2.3.4/-1", "01.2.3.4/8", "1.2.3.256/8", "1.2.3.4//8", "1.2.3.4/8 ", "1.2.3.4/3٢", "1.2.3.4/255.255.0",
                  "1.2.3.4/255.255.255.256", "1.2.3.4/255.255.255.00", "1.2.3.4/255.255.255.0.0", "1.2.3.4/0255.255.255.0",
                  "1.2.3.4/ffff::", "1.2.3.4/::", "1.2.3.4/255.255.255.0/24", "1.2.3.4/" + "0" * 4301, "1.2.3.4/8\n", "1.2.3.4 /8"]
ODD_BUT_VALID_NET4 = [("1.2.3.4/032", 32), ("1.2.3.4/0", 0), ("1.2.3.4/00", 0), ("1.2.3.4/08", 8), ("1.2.3.4/" + "0" * 4298 + "24", 24)]


def malformed(rng):
    out = []
    good6 = ["::1", "2001:db8::/32", "::/0", "fe80::1"]
    good4 = ["1.2.3.4", "1.2.3.0/24", "0.0.0.0/0"]
    # malformed ADDRESS: ValueError whatever the pattern
    for a in MALFORMED_ADDR6 + MALFORMED_ADDR4:
        for b in good6[:2] + good4[:2] + [a]:
            out.append((a, b, Exp(1011, False)))
    # malformed NETWORK: False whatever the (valid) address
    for b in MALFORMED_ADDR6:
        if b in ("1:2:3:4:5:6:7:8/128", "::1/128"):
            continue
        for a in ("::1", "1.2.3.4", "1:2:3:4:5:6:7:8"):
            out.append((a, b, Exp(0, False)))
    for p in MALFORMED_PREFIX:
        for base in ("::1", "2001:db8::", "1:2:3:4:5:6:7:8", "::ffff:1.2.3.4"):
            out.append((base, f"{base}/{p}", Exp(0, False)))
            out.append(("::1", f"{base}/{p}", Exp(0, False)))
    for b in MALFORMED_NET4:
        for a in ("1.2.3.4", "10.1.2.3", "::1"):
            out.append((a, b, Exp(0, False)))
    for b in MALFORMED_ADDR4:
        if b == "1.2.3.4/32":
            continue
        out.append(("1.2.3.4", b, Exp(0, False)))
        out.append(("1.2.3.4", b + "/24", Exp(0, False)))
    # odd but valid
    for p, n in ODD_BUT_VALID_PREFIX:
        net = 0x20010DB8 << 96
        for x in (net | 5, net ^ (1 << 127), net ^ (1 << 64), net ^ (1 << 63)):
            out.append(pair(6, x, canonical6(x), 6, net, n, f"2001:db8::/{p}"))
    for t, n in ODD_BUT_VALID_NET4:
        for x in (0x01020304, 0x01020404, 0x02020304, 0x81020304):
            out.append(pair(4, x, dotted(x), 4, 0x01020304, n, t))
    for t, g in WELLFORMED_EDGE6:
        v = from_groups(g)
        out.append(pair(6, v, t, 6, v, 128, canonical6(v)))
        out.append(pair(6, v, canonical6(v), 6, v, 128, t))
        out.append(pair(6, v ^ 1, canonical6(v ^ 1), 6, v, 128, t))
        out.append(pair(6, v ^ 1, canonical6(v ^ 1), 6, v, 127, t + "/127"))
    # random corruption of valid texts: no expectation, model comparison (and the model's own spec when it
    # declares the result documented)
    alphabet = ":.%/0123456789abcdefABCDEFg -+"
    for _ in range(400):
        t = spell6(rng.getrandbits(128) & ~(((1 << 48) - 1) << rng.randrange(80)), rng) if rng.random() < 0.7 \
            else dotted(rng.getrandbits(32))
        if rng.random() < 0.4:
            t += "/" + rng.choice(["0", "7", "32", "33", "64", "128", "129", "255.255.0.0", "0.0.0.255", "08"])
        for _ in range(rng.choice((1, 1, 2))):
            i = rng.randrange(len(t) + 1)
            k = rng.random()
            if k < 0.4:
                t = t[:i] + rng.choice(alphabet) + t[i:]
            elif k < 0.7 and t:
                t = t[:i] + t[i + 1:]
            else:
                t = t[:i] + rng.choice(alphabet) + t[i + 1:]
        out.append(("2001:db8::1", t, None))
        out.append((t, "2001:db8::/32", None))
        out.append(("10.1.2.3", t, None))
        out.append((t, "10.0.0.0/8", None))
    return out


def zones(rng):
    """'%zone' suffixes: accepted by ipaddress, the zone is ignored by network membership.  Outside the
    documented form (no spec verdict); implementation vs model only."""
    out = []
    for a, b in [("fe80::1%eth0", "fe80::1%eth1"), ("fe80::1%eth0", "fe80::/64"), ("fe80::1", "fe80::1%eth1/64"),
                 ("fe80::1%eth0", "fe80::1"), ("fe80::1%a:b", "fe80::1"), ("::1.2.3.4%x", "::102:304"), ("::1%x.y", "::1"),
                 ("::1.2.3.4%1.2.3.4", "::102:304"), ("fe80::2%eth0", "fe80::1%eth0"), ("fe80::1%1", "fe80::1%2/128"),
                 ("fe80::1", "fe80::1%/64"), ("fe80::1", "fe80::%eth0/10"), ("fe81::1%e", "fe80::%eth0/16"),
                 ("1.2.3.4", "1.2.3.4%eth0"), ("1.2.3.4", "1.2.3.4%eth0/24"), ("::1%25", "::1"), ("::1% ", "::1")]:
        out.append((a, b, None))
    for _ in range(40):
        n = rng.getrandbits(128)
        z = "".join(rng.choice("eth0:.-_ x") for _ in range(rng.randrange(1, 5)))
        out.append((spell6(n, rng) + "%" + z, spell6(n, rng), None))
        out.append((spell6(n, rng), spell6(n, rng) + "%" + z + "/100", None))
    return out


def grid4(rng, nbase):
    """the IPv4 address x prefix-length grid"""
    special = [0, 0xFFFFFFFF, 0x0A000000, 0xC0A8027B, 0xC0A80200, 0x7F000001, 0x80000000, 0x00000001, 0xFFFFFF00]
    bases = special + [rng.getrandbits(32) for _ in range(nbase)]
    out = []
    for net in bases:
        for n in range(33):
            sh = 32 - n
            lo = (net >> sh << sh) if sh < 32 else 0
            addrs = {net, lo, lo | ((1 << sh) - 1)}
            for bit in (sh - 1, sh, sh + 1):
                if 0 <= bit < 32:
                    addrs.add(net ^ (1 << bit))
            addrs.add(rng.getrandbits(32))
            for a in addrs:
                a &= 0xFFFFFFFF
                out.append(pair(4, a, dotted(a), 4, net, n, f"{dotted(net)}/{n}"))
        out.append(pair(4, net, dotted(net), 4, net, 32, dotted(net)))
        out.append(pair(4, net ^ 1, dotted(net ^ 1), 4, net, 32, dotted(net)))
    return out
