"""Management-history harness shared by C04 C05 C06 C07 C09 C11 C15 C19 C20.

A *history* is a list of ops (python tuples, first element = opcode of MgmtWire.as_op).  The same
history is run on a real casbin Enforcer (with a recording adapter / watcher) and on the extracted
model (oracle tag 1 of oracle_mgmt); after every op both sides yield the observation
    [result, adapter calls, watcher calls, p rules, g rules, g2 rules, adapter rows]
which are compared after canonicalisation.  Property modules add SPEC checkers that look only at
the implementation's observations.
"""
import itertools

import casbin
from casbin import persist
from casbin.model import Model
from casbin.persist.adapters.update_adapter import UpdateAdapter  # noqa: F401  (interface only)

from .core import classify_exception

# ----------------------------------------------------------------------------- atoms
ALLOW, DENY = 1001, 1002


class Atoms:
    """"" <-> 0, decimal strings "1".."999" <-> their value, "allow"/"deny" fixed, the rest interned"""

    def __init__(self):
        self.s2a = {"": 0, "allow": ALLOW, "deny": DENY}
        self.a2s = {0: "", ALLOW: "allow", DENY: "deny"}
        self.next = 1003

    def a(self, s):
        if s in self.s2a:
            return self.s2a[s]
        if s.isdigit() and 0 < int(s) < 1000 and str(int(s)) == s:
            return int(s)
        n = self.next
        self.next += 1
        self.s2a[s] = n
        self.a2s[n] = s
        return n

    def s(self, a):
        if a in self.a2s:
            return self.a2s[a]
        if 0 < a < 1000:
            return str(a)
        raise KeyError(a)

    def rule(self, r):
        return [self.a(x) for x in r]

    def rules(self, rs):
        return [self.rule(r) for r in rs]


ATOMS = Atoms()
for _s in ["alice", "bob", "carol", "admin", "editor", "data1", "data2", "grp", "read", "write", "d1", "d2", "maybe",
           "x", "y", "z", "root"]:
    ATOMS.a(_s)

PT = {0: ("p", "p"), 1: ("g", "g"), 2: ("g", "g2")}
PT_OF = {"p": 0, "g": 1, "g2": 2}

# ----------------------------------------------------------------------------- model kinds
EFFECT_TEXT = ["some(where (p_eft == allow))", "!some(where (p_eft == deny))",
               "some(where (p_eft == allow)) && !some(where (p_eft == deny))", "priority(p_eft) || deny"]


class Kind:
    def __init__(self, name, dom=False, g=False, g2=False, eft=False, prio=False, eff=0, adapter=True, watcher=0):
        self.name, self.dom, self.g, self.g2, self.eft, self.prio, self.eff = name, dom, g, g2, eft, prio, eff
        self.adapter, self.watcher = adapter, watcher

    def wire(self):
        return [self.dom, self.g, self.g2, self.eft, self.prio, self.eff, self.adapter, self.watcher]

    def with_(self, **kw):
        k = Kind(self.name, self.dom, self.g, self.g2, self.eft, self.prio, self.eff, self.adapter, self.watcher)
        for a, b in kw.items():
            setattr(k, a, b)
        return k

    # layout helpers (mirror Mgmt.v)
    @property
    def i_sub(self):
        return 1 if self.prio else 0

    @property
    def i_dom(self):
        return self.i_sub + 1

    @property
    def i_obj(self):
        return self.i_sub + (2 if self.dom else 1)

    @property
    def i_act(self):
        return self.i_obj + 1

    @property
    def p_arity(self):
        return self.i_act + 1 + (1 if self.eft else 0)

    @property
    def r_arity(self):
        return 4 if self.dom else 3

    def model_text(self):
        p = (["priority"] if self.prio else []) + ["sub"] + (["dom"] if self.dom else []) + ["obj", "act"] + \
            (["eft"] if self.eft else [])
        r = ["sub"] + (["dom"] if self.dom else []) + ["obj", "act"]
        parts = []
        if self.g:
            parts.append("g(r.sub, p.sub, r.dom)" if self.dom else "g(r.sub, p.sub)")
        else:
            parts.append("r.sub == p.sub")
        if self.dom:
            parts.append("r.dom == p.dom")
        parts.append("g2(r.obj, p.obj)" if self.g2 else "r.obj == p.obj")
        parts.append("r.act == p.act")
        t = "[request_definition]\nr = %s\n\n[policy_definition]\np = %s\n\n" % (", ".join(r), ", ".join(p))
        if self.g or self.g2:
            t += "[role_definition]\n"
            if self.g:
                t += "g = _, _, _\n" if self.dom else "g = _, _\n"
            if self.g2:
                t += "g2 = _, _\n"
            t += "\n"
        t += "[policy_effect]\ne = %s\n\n[matchers]\nm = %s\n" % (EFFECT_TEXT[self.eff], " && ".join(parts))
        return t


KINDS = {
    "acl": Kind("acl"),
    "acl_deny": Kind("acl_deny", eft=True, eff=1),
    "rbac": Kind("rbac", g=True),
    "rbac_deny": Kind("rbac_deny", g=True, eft=True, eff=2),
    "rbac_res": Kind("rbac_res", g=True, g2=True),
    "dom": Kind("dom", dom=True, g=True),
    "dom_deny": Kind("dom_deny", dom=True, g=True, eft=True, eff=1),
    "prio": Kind("prio", eft=True, prio=True, eff=3),
    "prio_rbac": Kind("prio_rbac", g=True, eft=True, prio=True, eff=3),
}


# ----------------------------------------------------------------------------- recording adapter / watcher
class AdapterFail(Exception):
    pass


def _fmatch(rule, i, vs):
    """policy.py filter predicate; None = IndexError"""
    for j, v in enumerate(vs):
        if v == "":
            continue
        if i + j >= len(rule):
            return None
        if rule[i + j] != v:
            return False
    return True


class RecAdapter(persist.Adapter):
    """A faithful in-memory adapter implementing Adapter + BatchAdapter + UpdateAdapter, recording every
    call.  `rows` is what it has been told to hold: list of (ptype, rule).  Mirrors Mgmt.apply_acall."""

    def __init__(self, rows=()):
        self.rows = [(pt, list(r)) for pt, r in rows]
        self.calls = []
        self.fail_at = None

    # -- Adapter
    def load_policy(self, model):
        n = 0
        for pt, r in self.rows:
            if self.fail_at is not None and n >= self.fail_at:
                raise AdapterFail("injected failure after %d rows" % n)
            persist.load_policy_line(", ".join([pt] + r), model)
            n += 1
        if self.fail_at is not None:
            raise AdapterFail("injected failure after %d rows" % n)

    def save_policy(self, model):
        rows = []
        for sec in ("p", "g"):
            if sec in model.model:
                for pt, ast in model.model[sec].items():
                    rows.extend((pt, list(r)) for r in ast.policy)
        self.rows = rows
        self.calls.append(("save", [(pt, list(r)) for pt, r in rows]))
        return True

    def add_policy(self, sec, ptype, rule):
        self.calls.append(("add", ptype, list(rule)))
        self.rows.append((ptype, list(rule)))

    def remove_policy(self, sec, ptype, rule):
        self.calls.append(("remove", ptype, list(rule)))
        self.rows = [(pt, r) for pt, r in self.rows if not (pt == ptype and r == list(rule))]

    def remove_filtered_policy(self, sec, ptype, field_index, *field_values):
        self.calls.append(("remove_filtered", ptype, field_index, list(field_values)))
        self.rows = [(pt, r) for pt, r in self.rows
                     if not (pt == ptype and _fmatch(r, field_index, field_values) is True)]

    # -- BatchAdapter
    def add_policies(self, sec, ptype, rules):
        self.calls.append(("add_many", ptype, [list(r) for r in rules]))
        self.rows.extend((ptype, list(r)) for r in rules)

    def remove_policies(self, sec, ptype, rules):
        self.calls.append(("remove_many", ptype, [list(r) for r in rules]))
        for rule in rules:
            self.rows = [(pt, r) for pt, r in self.rows if not (pt == ptype and r == list(rule))]

    # -- UpdateAdapter
    def update_policy(self, sec, ptype, old_rule, new_rule):
        self.calls.append(("update", ptype, list(old_rule), list(new_rule)))
        self.rows = [(pt, list(new_rule)) if (pt == ptype and r == list(old_rule)) else (pt, r) for pt, r in self.rows]

    def update_policies(self, sec, ptype, old_rules, new_rules):
        self.calls.append(("update_many", ptype, [list(r) for r in old_rules], [list(r) for r in new_rules]))
        for o, n in zip(old_rules, new_rules):
            self.rows = [(pt, list(n)) if (pt == ptype and r == list(o)) else (pt, r) for pt, r in self.rows]

    def update_filtered_policies(self, sec, ptype, new_rules, field_index, *field_values):
        self.calls.append(("update_filtered", ptype, [list(r) for r in new_rules], field_index, list(field_values)))
        old = [r for pt, r in self.rows if pt == ptype and _fmatch(r, field_index, field_values) is True]
        self.rows = [(pt, r) for pt, r in self.rows
                     if not (pt == ptype and _fmatch(r, field_index, field_values) is True)]
        self.rows.extend((ptype, list(r)) for r in new_rules)
        return old


class RecWatcher:
    """kind 1: update() only"""

    def __init__(self):
        self.calls = []

    def set_update_callback(self, cb):
        pass

    def update(self):
        self.calls.append(("update",))


class RecWatcherEx(RecWatcher):
    """kind 2: the WatcherEx callbacks"""

    def update_for_add_policy(self, sec, ptype, *params):
        self.calls.append(("add", ptype, [list(params[0])] if len(params) == 1 and isinstance(params[0], list) else list(params)))

    def update_for_remove_policy(self, sec, ptype, *params):
        self.calls.append(("remove", ptype, [list(params[0])] if len(params) == 1 and isinstance(params[0], list) else list(params)))

    def update_for_remove_filtered_policy(self, sec, ptype, field_index, *field_values):
        self.calls.append(("remove_filtered", ptype, field_index, list(field_values)))

    def update_for_save_policy(self, model):
        self.calls.append(("save",))

    def update_for_add_policies(self, sec, ptype, *rules):
        self.calls.append(("add_many", ptype, [list(rules[0])] if len(rules) == 1 else list(rules)))

    def update_for_remove_policies(self, sec, ptype, *rules):
        self.calls.append(("remove_many", ptype, [list(rules[0])] if len(rules) == 1 else list(rules)))


class RecWatcherExUpd(RecWatcherEx):
    """kind 3: WatcherEx + WatcherUpdatable"""

    def update_for_update_policy(self, old_rule, new_rule):
        self.calls.append(("update_policy", list(old_rule), list(new_rule)))

    def update_for_update_policies(self, old_rules, new_rules):
        self.calls.append(("update_policies", [list(r) for r in old_rules], [list(r) for r in new_rules]))


WATCHERS = {0: None, 1: RecWatcher, 2: RecWatcherEx, 3: RecWatcherExUpd}


# domain matching functions of op 43, called as fn(domain of the request, domain a record is filed under)
def _dm_exact(a, b):
    return a == b


def _dm_prefix(a, b):
    return a.startswith(b)


DOMAIN_MATCHERS = {0: None, 1: casbin.util.key_match_func, 2: _dm_exact, 3: _dm_prefix}
DOMAIN_MATCHER_NAMES = {0: "None", 1: "key_match", 2: "exact (a == b)", 3: "prefix (a.startswith(b))"}

# ops whose result comes from a Python set / dict of unspecified order -> compared sorted
SORTED_RESULT = {55, 56, 57, 58, 60, 61, 63, 64}


def S(rule):
    return [ATOMS.s(a) for a in rule]


def SS(rules):
    return [S(r) for r in rules]


# ----------------------------------------------------------------------------- implementation driver
class Impl:
    def __init__(self, kind, rows=(), load_first=True, enforcer_cls=None, enforcer_kwargs=None, model_text=None,
                 model_factory=None, sort_p=False):
        self.kind = kind
        self.sort_p = sort_p
        m = model_factory() if model_factory else Model()
        m.load_model_from_text(model_text or kind.model_text())
        self.adapter = RecAdapter([(PT[pt][1], S(r)) for pt, r in rows]) if kind.adapter else None
        cls = enforcer_cls or casbin.Enforcer
        # construct without triggering load (an adapter given to the constructor loads immediately)
        self.e = cls(m, **(enforcer_kwargs or {}))
        if self.adapter is not None:
            self.e.set_adapter(self.adapter)
        w = WATCHERS[kind.watcher]
        self.watcher = w() if w else None
        if self.watcher is not None:
            self.e.set_watcher(self.watcher)
        if load_first and self.adapter is not None:
            self.e.load_policy()
        elif load_first:
            pass

    # -- canonical views
    def policy(self, pt):
        sec, key = PT[pt]
        if sec in self.e.model.model and key in self.e.model.model[sec]:
            rs = ATOMS.rules(list(self.e.model.model[sec][key].policy))
            return sorted(rs) if (self.sort_p and pt == 0) else rs
        return []

    def rows(self):
        if self.adapter is None:
            return []
        return [[PT_OF[pt], ATOMS.rule(r)] for pt, r in self.adapter.rows]

    def _acalls(self):
        out = []
        if self.adapter is None:
            return out
        for c in self.adapter.calls:
            n = c[0]
            if n == "add":
                out.append([1, PT_OF[c[1]], ATOMS.rule(c[2])])
            elif n == "add_many":
                out.append([2, PT_OF[c[1]], ATOMS.rules(c[2])])
            elif n == "remove":
                out.append([3, PT_OF[c[1]], ATOMS.rule(c[2])])
            elif n == "remove_many":
                out.append([4, PT_OF[c[1]], ATOMS.rules(c[2])])
            elif n == "remove_filtered":
                out.append([5, PT_OF[c[1]], c[2], ATOMS.rule(c[3])])
            elif n == "update":
                out.append([6, PT_OF[c[1]], ATOMS.rule(c[2]), ATOMS.rule(c[3])])
            elif n == "update_many":
                out.append([7, PT_OF[c[1]], ATOMS.rules(c[2]), ATOMS.rules(c[3])])
            elif n == "update_filtered":
                out.append([8, PT_OF[c[1]], ATOMS.rules(c[2]), c[3], ATOMS.rule(c[4])])
            elif n == "save":
                out.append([9, [[PT_OF[pt], ATOMS.rule(r)] for pt, r in c[1]]])
        self.adapter.calls = []
        return out

    def _wcalls(self):
        out = []
        if self.watcher is None:
            return out
        for c in self.watcher.calls:
            n = c[0]
            if n == "update":
                out.append([0])
            elif n == "add":
                out.append([1, PT_OF[c[1]], ATOMS.rule(c[2][0]) if len(c[2]) == 1 and isinstance(c[2][0], list) else ["BAD", c[2]]])
            elif n == "add_many":
                out.append([2, PT_OF[c[1]], ATOMS.rules(c[2][0]) if len(c[2]) == 1 else ["BAD", c[2]]])
            elif n == "remove":
                out.append([3, PT_OF[c[1]], ATOMS.rule(c[2][0]) if len(c[2]) == 1 and isinstance(c[2][0], list) else ["BAD", c[2]]])
            elif n == "remove_many":
                out.append([4, PT_OF[c[1]], ATOMS.rules(c[2][0]) if len(c[2]) == 1 else ["BAD", c[2]]])
            elif n == "remove_filtered":
                out.append([5, PT_OF[c[1]], c[2], ATOMS.rule(c[3])])
            elif n == "update_policy":
                out.append([6, ATOMS.rule(c[1]), ATOMS.rule(c[2])])
            elif n == "update_policies":
                out.append([7, ATOMS.rules(c[1]), ATOMS.rules(c[2])])
            elif n == "save":
                out.append([9])
        self.watcher.calls = []
        return out

    # -- results
    @staticmethod
    def _b(x):
        return [0, 1 if x else 0]

    def _res(self, code, v):
        if code in (5,) or code in (10, 11, 18, 20):
            # list of removed rules, or bool (res1 or res2)
            if isinstance(v, list):
                return [0, ATOMS.rules(v)]
            return self._b(v)
        return self._b(v)

    def call(self, op):
        """run one op on the real enforcer, return canonical result value"""
        e = self.e
        c = op[0]
        if c == 1:
            pt, r = op[1], S(op[2])
            return self._b(e.add_named_policy("p", r) if pt == 0 else e.add_named_grouping_policy(PT[pt][1], r))
        if c == 2:
            pt, rs = op[1], SS(op[2])
            return self._b(e.add_named_policies("p", rs) if pt == 0 else e.add_named_grouping_policies(PT[pt][1], rs))
        if c == 3:
            pt, r = op[1], S(op[2])
            return self._b(e.remove_named_policy("p", r) if pt == 0 else e.remove_named_grouping_policy(PT[pt][1], r))
        if c == 4:
            pt, rs = op[1], SS(op[2])
            return self._b(e.remove_named_policies("p", rs) if pt == 0 else e.remove_named_grouping_policies(PT[pt][1], rs))
        if c == 39:
            # the role manager of g is REPLACED by a fresh one of the same kind and the links are rebuilt from the policy
            # (for the model this is just build_role_links)
            from casbin.rbac import default_role_manager as drm
            old = e.get_role_manager()
            e.set_role_manager(type(old)(10))
            e.build_role_links()
            return [0, []]
        if c == 9:
            # "remove everything", written the obvious way: the batch call is handed the very list the getter returned
            pt = op[1]
            if pt == 0:
                return self._b(e.remove_named_policies("p", e.get_named_policy("p")))
            return self._b(e.remove_named_grouping_policies(PT[pt][1], e.get_named_grouping_policy(PT[pt][1])))
        if c == 5:
            pt, i, vs = op[1], op[2], S(op[3])
            if pt == 0:
                return self._b(e.remove_filtered_named_policy("p", i, *vs))
            v = e.remove_filtered_named_grouping_policy(PT[pt][1], i, *vs)
            return [0, ATOMS.rules(v)] if isinstance(v, list) else self._b(v)
        if c == 6:
            return self._b(e.update_policy(S(op[1]), S(op[2])))
        if c == 7:
            return self._b(e.update_policies(SS(op[1]), SS(op[2])))
        if c == 8:
            return self._b(e.update_filtered_policies(SS(op[1]), op[2], *S(op[3])))
        if c in (10, 11):
            v = e.delete_user(ATOMS.s(op[1])) if c == 10 else e.delete_role(ATOMS.s(op[1]))
            return [0, ATOMS.rules(v)] if isinstance(v, list) else self._b(v)
        if c == 12:
            return self._b(e.delete_permission(*S(op[1])))
        if c == 13:
            return self._b(e.add_permission_for_user(ATOMS.s(op[1]), *S(op[2])))
        if c == 14:
            return self._b(e.delete_permission_for_user(ATOMS.s(op[1]), *S(op[2])))
        if c == 15:
            return self._b(e.delete_permissions_for_user(ATOMS.s(op[1])))
        if c == 16:
            return self._b(e.add_role_for_user(ATOMS.s(op[1]), ATOMS.s(op[2])))
        if c == 17:
            return self._b(e.delete_role_for_user(ATOMS.s(op[1]), ATOMS.s(op[2])))
        if c == 18:
            v = e.delete_roles_for_user(ATOMS.s(op[1]))
            return [0, ATOMS.rules(v)] if isinstance(v, list) else self._b(v)
        if c == 19:
            return self._b(e.add_role_for_user_in_domain(ATOMS.s(op[1]), ATOMS.s(op[2]), ATOMS.s(op[3])))
        if c == 20:
            v = e.delete_roles_for_user_in_domain(ATOMS.s(op[1]), ATOMS.s(op[2]), ATOMS.s(op[3]))
            return [0, ATOMS.rules(v)] if isinstance(v, list) else self._b(v)
        if c == 30:
            e.clear_policy()
            return [0, []]
        if c == 31:
            if self.adapter is not None:
                self.adapter.fail_at = None
            e.load_policy()
            return [0, []]
        if c == 32:
            if self.adapter is not None:
                self.adapter.fail_at = op[1]
            try:
                e.load_policy()
            finally:
                if self.adapter is not None:
                    self.adapter.fail_at = None
            return [0, []]
        if c == 33:
            e.save_policy()
            return [0, []]
        if c == 34:
            e.build_role_links()
            return [0, []]
        if c == 35:
            e.enable_auto_save(bool(op[1]))
            return [0, []]
        if c == 36:
            e.enable_auto_build_role_links(bool(op[1]))
            return [0, []]
        if c == 37:
            e.enable_auto_notify_watcher(bool(op[1]))
            return [0, []]
        if c == 38:
            e.enable_enforce(bool(op[1]))
            return [0, []]
        if c in (40, 41, 42):
            # the STORE is edited behind the enforcer's back (another process writing to the shared database):
            # 40 = a row is inserted at a position (unless an identical row is stored already), 41 = every copy of a
            # row is deleted, 42 = every row of one policy type is deleted.  Memory is untouched until the next reload.
            # Not part of the Mgmt model: histories containing these ops are run with compare_model=False.
            if self.adapter is not None:
                name = PT[op[1]][1]
                if c == 40:
                    row = (name, S(op[2]))
                    if row not in self.adapter.rows:
                        self.adapter.rows.insert(min(op[3], len(self.adapter.rows)), row)
                elif c == 41:
                    row = (name, S(op[2]))
                    self.adapter.rows = [x for x in self.adapter.rows if x != row]
                else:
                    self.adapter.rows = [x for x in self.adapter.rows if x[0] != name]
            return [0, []]
        if c == 43:
            # a domain matching function is registered for g / replaced / taken away again (None) in the middle of a
            # history.  Not part of the Mgmt model: histories containing it are run with compare_model=False.
            return self._b(e.add_named_domain_matching_func("g", DOMAIN_MATCHERS[op[1]]))
        if c == 50:
            return self._b(e.enforce(*S(op[1])))
        if c == 51:
            d, ex = e.enforce_ex(*S(op[1]))
            return [0, [1 if d else 0, ATOMS.rule(ex)]]
        if c == 52:
            pt = op[1]
            return [0, ATOMS.rules(e.get_named_policy("p") if pt == 0 else e.get_named_grouping_policy(PT[pt][1]))]
        if c == 53:
            pt, i, vs = op[1], op[2], S(op[3])
            v = e.get_filtered_named_policy("p", i, *vs) if pt == 0 else e.get_filtered_named_grouping_policy(PT[pt][1], i, *vs)
            return [0, ATOMS.rules(v)]
        if c == 54:
            pt, r = op[1], S(op[2])
            return self._b(e.has_named_policy("p", r) if pt == 0 else e.has_named_grouping_policy(PT[pt][1], r))
        if c == 55:
            return [0, sorted(ATOMS.rule(e.get_roles_for_user(ATOMS.s(op[1]))))]
        if c == 56:
            return [0, sorted(ATOMS.rule(e.get_users_for_role(ATOMS.s(op[1]))))]
        if c == 57:
            return [0, sorted(ATOMS.rule(e.get_roles_for_user_in_domain(ATOMS.s(op[1]), ATOMS.s(op[2]))))]
        if c == 58:
            return [0, sorted(ATOMS.rule(e.get_users_for_role_in_domain(ATOMS.s(op[1]), ATOMS.s(op[2]))))]
        if c == 59:
            rm = e.get_named_role_manager(PT[op[1]][1])
            return self._b(rm.has_link(ATOMS.s(op[2]), ATOMS.s(op[3]), *S(op[4])))
        if c == 60:
            return [0, sorted(ATOMS.rule(e.get_implicit_roles_for_user(ATOMS.s(op[1]), ATOMS.s(op[2]))))]
        if c == 61:
            return [0, sorted(ATOMS.rules(e.get_implicit_permissions_for_user(ATOMS.s(op[1]), ATOMS.s(op[2]))))]
        if c == 62:
            return [0, ATOMS.rule(e.get_implicit_users_for_permission(*S(op[1])))]
        if c == 63:
            return [0, sorted(ATOMS.rules(e.get_implicit_users_for_resource(ATOMS.s(op[1]))))]
        if c == 64:
            return [0, sorted(ATOMS.rules(e.get_implicit_users_for_resource_by_domain(ATOMS.s(op[1]), ATOMS.s(op[2]))))]
        if c == 65:
            return [0, ATOMS.rule(e.get_all_subjects())]
        if c == 66:
            return [0, ATOMS.rule(e.get_all_objects())]
        if c == 67:
            return [0, ATOMS.rule(e.get_all_actions())]
        if c == 68:
            return [0, ATOMS.rule(e.get_all_roles())]
        if c == 69:
            return [0, ATOMS.rules(e.get_permissions_for_user(ATOMS.s(op[1])))]
        if c == 70:
            return [0, ATOMS.rules(e.get_permissions_for_user_in_domain(ATOMS.s(op[1]), ATOMS.s(op[2])))]
        if c == 71:
            # batch_enforce(list of requests) -> one decision per position.  Not part of the Mgmt model: histories
            # containing it are run with compare_model=False (see batch_block for the observational spec)
            v = e.batch_enforce([S(r) for r in op[1]])
            return [0, [(1 if x else 0) if isinstance(x, bool) else ["BAD", repr(x)] for x in v]]
        if c == 72:
            # get_all_roles_by_domain(domain) (comes from a set).  Not part of the Mgmt model.
            return [0, sorted(ATOMS.rule(e.get_all_roles_by_domain(ATOMS.s(op[1]))))]
        raise ValueError(f"unknown op {op}")

    def step(self, op):
        try:
            res = self.call(op)
        except Exception as exc:  # noqa
            res = [999, classify_exception(exc)]
        return [res, self._acalls(), self._wcalls(), self.policy(0), self.policy(1), self.policy(2), self.rows()]


def canon_model_obs(op, obs):
    """sort the model's result for ops whose implementation order is unspecified"""
    res = obs[0]
    if op[0] in SORTED_RESULT and res and res[0] == 0 and isinstance(res[1], list):
        res = [0, sorted(res[1])]
    return [res] + obs[1:]


def concretise(rows, load_first, ops, obs):
    """ops as the MODEL and the specs see them: op 9 (a batch removal handed the getter's own list) becomes the batch
    removal of the rules that were stored just before it, as observed on the implementation"""
    if not any(o[0] in (9, 39) for o in ops):
        return ops
    out = []
    for i, op in enumerate(ops):
        if op[0] == 39:
            out.append((34,))
        elif op[0] == 9:
            pt = op[1]
            if i > 0 and i - 1 < len(obs):
                cur = [list(r) for r in obs[i - 1][3 + pt]]
            else:
                cur = [list(r) for p_, r in rows if p_ == pt] if load_first else []
            out.append((4, pt, cur))
        else:
            out.append(op)
    return out


def run_impl(kind, rows, load_first, ops, **kw):
    impl = Impl(kind, rows, load_first, **kw)
    return impl, [impl.step(op) for op in ops]


def run_model(oracle, kind, rows, load_first, histories):
    """histories: list of op lists -> list of lists of observations"""
    reqs = [(1, [kind.wire(), [[pt, r] for pt, r in rows], load_first, [list(op) for op in ops]]) for ops in histories]
    reps = oracle.query(reqs)
    out = []
    for ops, rep in zip(histories, reps):
        if not isinstance(rep, list) or rep == [998] or (rep and rep[0] == "ORACLE-ERROR"):
            out.append(None)
        else:
            out.append([canon_model_obs(op, o) for op, o in zip(ops, rep)])
    return out


def first_diff(impl_obs, model_obs):
    """index and component of the first differing observation"""
    names = ["result", "adapter_calls", "watcher_calls", "p", "g", "g2", "adapter_rows"]
    if model_obs is None:
        return (0, "model rejected the request")
    for i, (a, b) in enumerate(zip(impl_obs, model_obs)):
        if a != b:
            for j, n in enumerate(names):
                if a[j] != b[j]:
                    return (i, n)
    if len(impl_obs) != len(model_obs):
        return (min(len(impl_obs), len(model_obs)), "length")
    return None


# ----------------------------------------------------------------------------- universe / generators
class Universe:
    def __init__(self, kind):
        A = ATOMS.a
        self.kind = kind
        self.subs = [A("alice"), A("bob"), A("admin"), A("editor")]
        self.objs = [A("data1"), A("data2")] + ([A("grp")] if kind.g2 else [])
        self.acts = [A("read"), A("write")]
        self.doms = [A("d1"), A("d2")] if kind.dom else []
        self.efts = [ALLOW, DENY, A("maybe")] if kind.eft else []
        self.prios = [1, 2, 2, 5, 10] if kind.prio else []

    def requests(self):
        if self.kind.dom:
            return [list(t) for t in itertools.product(self.subs, self.doms, self.objs, self.acts)]
        return [list(t) for t in itertools.product(self.subs, self.objs, self.acts)]

    def p_rule(self, rng):
        k = self.kind
        r = ([rng.choice(self.prios)] if k.prio else []) + [rng.choice(self.subs)] + \
            ([rng.choice(self.doms)] if k.dom else []) + [rng.choice(self.objs), rng.choice(self.acts)] + \
            ([rng.choice(self.efts)] if k.eft else [])
        return r

    def g_rule(self, rng, pt=1):
        k = self.kind
        if pt == 2:
            return [rng.choice(self.objs), rng.choice(self.objs)]
        r = [rng.choice(self.subs), rng.choice(self.subs)]
        if k.dom:
            r.append(rng.choice(self.doms))
        return r


def probe_ops(kind, uni, roles=True):
    """query ops over the whole request universe + role queries (they are part of the history, so the
    model sees the cache-building side effects too)"""
    ops = [(50, req) for req in uni.requests()]
    if roles and kind.g:
        for u in uni.subs:
            if kind.dom:
                for d in uni.doms:
                    ops.append((57, u, d))
                    ops.append((58, u, d))
            else:
                ops.append((55, u))
                ops.append((56, u))
    return ops


def batch_block(rng, requests, n=None):
    """a batch_enforce call (op 71) over `requests` drawn WITH repetition (so the same request occurs at several
    positions), preceded by one enforce (op 50) of every distinct request of the batch: batch_enforce must answer,
    position by position, what enforce answered for that request (see batch_spec)"""
    n = n if n is not None else rng.randint(2, 7)
    pool = [list(r) for r in rng.sample(requests, min(len(requests), rng.randint(1, 4)))]
    batch = [list(rng.choice(pool)) for _ in range(n)]
    distinct = []
    for r in batch:
        if r not in distinct:
            distinct.append(r)
    return [(50, r) for r in distinct] + [(71, batch)]


def batch_spec(ops, obs):
    """observational spec of batch_enforce: the answer at every position equals the answer of the latest enforce of the
    same request, provided no call other than a query lies in between -> list of (step, message)"""
    last = {}
    for i, (op, o) in enumerate(zip(ops, obs)):
        c = op[0]
        if c < 50:
            last = {}
        elif c == 50:
            last[tuple(op[1])] = o[0]
        elif c == 71:
            res = o[0]
            known = [last.get(tuple(r)) for r in op[1]]
            if any(k is None for k in known):
                continue
            if any(k[0] != 0 for k in known):
                if res[0] == 0:
                    return [(i, "batch_enforce answered although enforce raises for one of its requests")]
                continue
            if res[0] != 0 or len(res[1]) != len(op[1]):
                return [(i, "batch_enforce does not answer once per position")]
            if res[1] != [k[1] for k in known]:
                return [(i, "batch_enforce differs at some position from enforce of the same request")]
    return []


def g_arity(kind, pt):
    return 3 if (kind.dom and pt == 1) else 2


def g_rules_mentioned(kind, rows, ops):
    """every grouping rule that the initial rows or an adding call mention: (pt, rule)"""
    out = [(pt, list(r)) for pt, r in rows if pt in (1, 2)]
    for op in ops:
        if op[0] == 1 and op[1] in (1, 2):
            out.append((op[1], list(op[2])))
        elif op[0] == 2 and op[1] in (1, 2):
            out.extend((op[1], list(r)) for r in op[2])
        elif op[0] == 16:                                   # add_role_for_user(u, r)
            out.append((1, [op[1], op[2]]))
        elif op[0] == 19:                                   # add_role_for_user_in_domain(u, r, d)
            out.append((1, [op[1], op[2], op[3]]))
    return out


def prefix_aliases(kind, rows, ops):
    """two DIFFERENT grouping rules whose declared-arity prefixes coincide (one of them has more fields than the role
    definition declares): both map to the same role link.  Known finding C04/overlong-rules-share-a-link."""
    seen = {}
    for pt, r in g_rules_mentioned(kind, rows, ops):
        k = (pt, tuple(r[:g_arity(kind, pt)]))
        if k in seen and seen[k] != tuple(r):
            return True
        seen.setdefault(k, tuple(r))
    return False


def drop_prefix_aliases(kind, rows, ops):
    """remove adding calls that would introduce a prefix alias (see prefix_aliases)"""
    out = []
    for op in ops:
        if ((op[0] in (1, 2) and op[1] in (1, 2)) or op[0] in (16, 19)) and prefix_aliases(kind, rows, out + [op]):
            continue
        out.append(op)
    return out


def shrink(ops, fails, max_rounds=400):
    """greedy delta debugging: drop ops while `fails(ops)` stays true"""
    ops = list(ops)
    rounds = 0
    changed = True
    while changed and rounds < max_rounds:
        changed = False
        i = len(ops) - 1
        while i >= 0 and rounds < max_rounds:
            cand = ops[:i] + ops[i + 1:]
            rounds += 1
            try:
                if cand and fails(cand):
                    ops = cand
                    changed = True
            except Exception:  # noqa
                pass
            i -= 1
    return ops


def pretty_op(op):
    names = {1: "add", 2: "add_many", 3: "remove", 4: "remove_many", 5: "remove_filtered", 6: "update_policy",
             7: "update_policies", 8: "update_filtered_policies", 9: "remove_policies(<the list get_policy() returned>)", 10: "delete_user", 11: "delete_role",
             12: "delete_permission", 13: "add_permission_for_user", 14: "delete_permission_for_user",
             15: "delete_permissions_for_user", 16: "add_role_for_user", 17: "delete_role_for_user",
             18: "delete_roles_for_user", 19: "add_role_for_user_in_domain", 20: "delete_roles_for_user_in_domain",
             30: "clear_policy", 31: "load_policy", 32: "load_policy[adapter fails after n rows]", 33: "save_policy",
             34: "build_role_links", 35: "enable_auto_save", 36: "enable_auto_build_role_links",
             37: "enable_auto_notify_watcher", 38: "enable_enforce", 39: "set_role_manager(fresh)+build_role_links",
             40: "STORE(out of band): insert row at position", 41: "STORE(out of band): delete row",
             42: "STORE(out of band): delete every row of the policy type",
             43: "add_named_domain_matching_func(g, fn)", 72: "get_all_roles_by_domain", 50: "enforce", 51: "enforce_ex", 52: "get_policy",
             53: "get_filtered_policy", 54: "has_policy", 55: "get_roles_for_user", 56: "get_users_for_role",
             57: "get_roles_for_user_in_domain", 58: "get_users_for_role_in_domain", 59: "rm.has_link",
             60: "get_implicit_roles_for_user", 61: "get_implicit_permissions_for_user",
             62: "get_implicit_users_for_permission", 63: "get_implicit_users_for_resource",
             64: "get_implicit_users_for_resource_by_domain", 65: "get_all_subjects", 66: "get_all_objects",
             67: "get_all_actions", 68: "get_all_roles", 69: "get_permissions_for_user",
             70: "get_permissions_for_user_in_domain", 71: "batch_enforce"}

    def p(x):
        if isinstance(x, list):
            return [p(y) for y in x]
        if isinstance(x, bool):
            return x
        if isinstance(x, int):
            try:
                return ATOMS.s(x)
            except KeyError:
                return x
        return x

    c = op[0]
    args = list(op[1:])
    if c in (1, 2, 3, 4, 5, 40, 41, 42, 52, 53, 54, 59) and args:
        args[0] = {0: "p", 1: "g", 2: "g2"}.get(args[0], args[0])
        if c in (5, 53):
            return [names[c], args[0], args[1]] + [p(a) for a in args[2:]]
        if c == 40:
            return [names[c], args[0], p(args[1])] + args[2:]
        return [names[c], args[0]] + [p(a) for a in args[1:]]
    if c == 8:
        return [names[c], p(args[0]), args[1], p(args[2])]
    if c in (32, 35, 36, 37, 38):
        return [names[c]] + args
    if c == 43:
        return [names[c], DOMAIN_MATCHER_NAMES.get(args[0], args[0])]
    return [names.get(c, c)] + [p(a) for a in args]


# ----------------------------------------------------------------------------- history generator
DEFAULT_WEIGHTS = dict(p_add=6, p_add_many=4, p_remove=4, p_remove_many=3, p_remove_filtered=2, p_update=3,
                       p_update_many=2, p_update_filtered=0, g_add=6, g_add_many=4, g_remove=4, g_remove_many=3,
                       g_remove_filtered=2, rbac=5, clear=0.5, load=1, save=1, build=0.5, flags=0, query=6, probe=1.5,
                       short_g=0, long_g=0, alias_remove=0, rm_swap=0)


class Gen:
    """random histories; argument bias: repeats of rules used before (50%), neighbours differing in one
    field (30%), fresh (20%); batches contain an internal duplicate w.p. 0.2 and a partly present set w.p. 0.2"""

    def __init__(self, rng, kind, weights=None):
        self.rng, self.kind, self.uni = rng, kind, Universe(kind)
        self.w = dict(DEFAULT_WEIGHTS)
        if weights:
            self.w.update(weights)
        if not kind.g:
            for k in list(self.w):
                if k.startswith("g_"):
                    self.w[k] = 0
        if not kind.adapter:
            self.w["load"] = 0
            self.w["save"] = 0
        self.seen = {0: [], 1: [], 2: []}
        self.present = []            # optimistic guess of the p rules in memory (bias for update / remove targets)
        # clear_policy empties memory only; until the next save_policy the adapter still holds the old rows and
        # a reload would bring them back (and auto-saved adds would be stored twice).  That is documented casbin
        # behaviour, not a property violation, so no reload is generated while the adapter is stale.
        self.db_stale = False

    def fresh(self, pt):
        return self.uni.p_rule(self.rng) if pt == 0 else self.uni.g_rule(self.rng, pt)

    def rule(self, pt):
        rng = self.rng
        x = rng.random()
        pool = self.seen[pt]
        if pool and x < 0.5:
            r = list(rng.choice(pool))
        elif pool and x < 0.8:
            r = list(rng.choice(pool))
            f = self.fresh(pt)
            i = rng.randrange(len(r))
            if i < len(f):
                r[i] = f[i]
        else:
            r = self.fresh(pt)
        self.seen[pt].append(r)
        if len(self.seen[pt]) > 12:
            self.seen[pt].pop(0)
        return r

    def batch(self, pt):
        rng = self.rng
        n = rng.randint(0, 3) if rng.random() < 0.15 else rng.randint(1, 3)
        rs = [self.rule(pt) for _ in range(n)]
        if rs and rng.random() < 0.2:
            rs.insert(rng.randrange(len(rs) + 1), list(rng.choice(rs)))
        return rs

    def filt(self, pt):
        rng = self.rng
        base = self.rule(pt)
        i = rng.randrange(len(base))
        n = rng.randint(0 if rng.random() < 0.1 else 1, len(base) - i)
        vs = [base[i + j] if rng.random() < 0.7 else 0 for j in range(n)]
        if rng.random() < 0.05:
            vs = vs + [base[0]] * 3       # reaches past the end of the rule: IndexError path
        return i, vs

    def gpt(self):
        return 2 if (self.kind.g2 and self.rng.random() < 0.35) else 1

    def query(self):
        rng, k, u = self.rng, self.kind, self.uni
        choices = [50, 50, 51, 52, 53, 54, 65, 66, 67, 69]
        if k.g:
            choices += [60, 61, 62, 63, 68, 52, 54] + ([57, 58, 64, 70, 59] if k.dom else [55, 56, 59])
        c = rng.choice(choices)
        req = rng.choice(u.requests())
        if c in (50, 51):
            if rng.random() < 0.05:
                req = req[:-1]
            return (c, req)
        pt = 0 if (not k.g or rng.random() < 0.5) else self.gpt()
        if c == 52:
            return (52, pt)
        if c == 53:
            i, vs = self.filt(pt)
            return (53, pt, i, vs)
        if c == 54:
            return (54, pt, self.rule(pt))
        sub = rng.choice(u.subs)
        d = rng.choice(u.doms) if k.dom else 0
        if c in (55, 56):
            return (c, sub)
        if c in (57, 58, 70):
            return (c, sub, d)
        if c == 59:
            pt = self.gpt()
            if pt == 2:
                return (59, 2, rng.choice(u.objs), rng.choice(u.objs), [])
            return (59, 1, sub, rng.choice(u.subs), [d] if k.dom else [])
        if c in (60, 61):
            return (c, sub, d if (k.dom and rng.random() < 0.9) else 0)
        if c == 62:
            perm = ([d] if k.dom else []) + [rng.choice(u.objs), rng.choice(u.acts)]
            return (62, perm)
        if c == 63:
            return (63, rng.choice(u.objs))
        if c == 64:
            return (64, rng.choice(u.objs), d)
        if c == 69:
            return (69, sub)
        return (c,)

    def rbac(self):
        rng, k, u = self.rng, self.kind, self.uni
        sub = rng.choice(u.subs)
        opts = [12, 13, 14, 15]
        if k.g:
            opts += [10, 11] + ([19, 20] if k.dom else [16, 17, 18])
        c = rng.choice(opts)
        if c in (10, 11, 15, 18):
            return (c, sub)
        if c == 12:
            r = self.rule(0)
            return (12, r[1:rng.randint(2, len(r))])
        if c in (13, 14):
            r = self.rule(0)
            return (c, r[0], r[1:])
        if c in (16, 17):
            r = self.rule(1)
            return (c, r[0], r[1])
        if c in (19, 20):
            r = self.rule(1)
            return (c, r[0], r[1], r[2])
        return (c, sub)

    def op(self):
        rng = self.rng
        names = [n for n, w in self.w.items() if w > 0 and n not in ("short_g", "long_g")]
        n = rng.choices(names, weights=[self.w[x] for x in names])[0]
        if n == "p_add":
            r = self.rule(0)
            if r not in self.present:
                self.present.append(r)
            return [(1, 0, r)]
        if n == "p_add_many":
            b = self.batch(0)
            if all(r not in self.present for r in b) and len({tuple(r) for r in b}) == len(b):
                self.present.extend(b)
            return [(2, 0, b)]
        if n == "p_remove":
            r = list(rng.choice(self.present)) if (self.present and rng.random() < 0.4) else self.rule(0)
            if r in self.present:
                self.present.remove(r)
            return [(3, 0, r)]
        if n == "p_remove_many":
            b = self.batch(0)
            if all(r in self.present for r in b) and len({tuple(r) for r in b}) == len(b):
                for r in b:
                    self.present.remove(r)
            return [(4, 0, b)]
        if n == "rm_swap":
            return [(39,)]
        if n == "alias_remove":
            pt = 0 if (not self.kind.g or rng.random() < 0.5) else self.gpt()
            if pt == 0:
                self.present = []
            return [(9, pt)]
        if n == "p_remove_filtered":
            i, vs = self.filt(0)
            self.present = []            # unknown afterwards
            return [(5, 0, i, vs)]
        if n == "p_update":
            # an update is only interesting on a rule that is (probably) present: half of the time the target is one
            # added through the API earlier in this history (its position may have moved since)
            o = list(rng.choice(self.present)) if (self.present and rng.random() < 0.5) else self.rule(0)
            nw = self.rule(0)
            if self.kind.prio and rng.random() < 0.6:
                nw = [o[0]] + nw[1:]          # same priority: the update is admissible on a priority model
            if o in self.present and nw not in self.present:
                self.present[self.present.index(o)] = nw
            return [(6, o, nw)]
        if n == "p_update_many":
            a = self.batch(0)
            b = [self.rule(0) for _ in a] if rng.random() < 0.9 else self.batch(0)
            if self.kind.prio:
                # mostly priority-preserving pairs, so that a batch with a valid prefix and ONE mismatching
                # pair (refused as a whole) is common
                b = [([x[0]] + y[1:]) if rng.random() < 0.75 else y for x, y in zip(a, b)] + b[len(a):]
            return [(7, a, b)]
        if n == "p_update_filtered":
            i, vs = self.filt(0)
            return [(8, self.batch(0), i, vs)]
        if n == "g_add":
            pt = self.gpt()
            r = self.rule(pt)
            if self.w.get("short_g") and rng.random() < self.w["short_g"]:
                r = r[:1]
            elif self.w.get("long_g") and rng.random() < self.w["long_g"]:
                r = r + [rng.choice(self.uni.objs)]       # more fields than the role definition declares
            return [(1, pt, r)]
        if n == "g_add_many":
            pt = self.gpt()
            b = self.batch(pt)
            if self.w.get("long_g") and rng.random() < self.w["long_g"]:
                b = [r + [rng.choice(self.uni.objs)] if rng.random() < 0.5 else r for r in b]
            return [(2, pt, b)]
        if n == "g_remove":
            pt = self.gpt()
            return [(3, pt, self.rule(pt))]
        if n == "g_remove_many":
            pt = self.gpt()
            return [(4, pt, self.batch(pt))]
        if n == "g_remove_filtered":
            pt = self.gpt()
            i, vs = self.filt(pt)
            return [(5, pt, i, vs)]
        if n == "rbac":
            return [self.rbac()]
        if n == "clear":
            if self.kind.adapter and rng.random() < 0.6:
                return [(30,), (33,)]
            self.db_stale = True
            return [(30,)]
        if n == "load":
            if self.db_stale:
                return [self.query()]
            return [(31,)]
        if n == "save":
            self.db_stale = False
            return [(33,)]
        if n == "build":
            return [(34,)]
        if n == "flags":
            return [(rng.choice([35, 36, 37, 38]), rng.random() < 0.5)]
        if n == "query":
            return [self.query()]
        if n == "probe":
            return probe_ops(self.kind, self.uni)
        raise ValueError(n)

    def history(self, n, final_probe=True):
        ops = []
        for _ in range(n):
            ops.extend(self.op())
        if final_probe:
            ops.extend(probe_ops(self.kind, self.uni))
        return ops

    def rows(self, n):
        """initial adapter content: duplicate-free rows"""
        rows, seen = [], set()
        if not self.kind.adapter:
            return rows
        for _ in range(n):
            pt = 0 if (not self.kind.g or self.rng.random() < 0.55) else self.gpt()
            r = self.fresh(pt)
            key = (pt, tuple(r))
            if key not in seen:
                seen.add(key)
                rows.append((pt, r))
                self.seen[pt].append(r)
                if pt == 0:
                    self.present.append(r)
        return rows


def store_step(rng, kind, gen, n_rows, probe):
    """one step in which the STORE is edited behind the enforcer's back (ops 40-42, 1..3 edits: rows gained, rows lost,
    a whole policy type lost) and then reloaded.  W.p. 0.35 a malformed grouping row (one column missing) is among the
    edits: the reload is refused while the role links are rebuilt, `probe` follows, the row is deleted again and the
    reload repeated; w.p. 0.1 the adapter fails part-way instead.  Every step ends with memory = store (provided it
    started so: auto-save on, no clear without save), so no duplicate row can arise.  `probe` follows every reload,
    accepted or refused.  Histories containing these steps are outside the Mgmt model (compare_model=False)."""
    ops = []
    pts = [0, 1, 1, 1] + ([2, 2] if kind.g2 else []) if kind.g else [0]
    for _ in range(rng.randint(1, 3)):
        pt = rng.choice(pts)
        x = rng.random()
        if x < 0.55:
            ops.append((40, pt, gen.rule(pt), rng.randint(0, n_rows + 6)))
        elif x < 0.85:
            ops.append((41, pt, gen.rule(pt)))
        else:
            ops.append((42, (rng.choice([1, 1, 2]) if kind.g2 else 1) if kind.g else 0))
    x = rng.random()
    if x < 0.35 and kind.g:
        pt = 2 if (kind.g2 and rng.random() < 0.3) else 1
        full = gen.rule(pt)
        k = rng.randrange(len(full))
        bad = full[:k] + full[k + 1:] if len(full) > 2 else full[:1]
        ops.append((40, pt, bad, rng.randint(0, n_rows + 6)))
        ops += [(31,)] + list(probe) + [(41, pt, bad), (31,)] + list(probe)
    elif x < 0.45:
        ops += [(32, rng.randint(0, n_rows + 3))] + list(probe) + [(31,)] + list(probe)
    else:
        ops += [(31,)] + list(probe)
    return ops


# ----------------------------------------------------------------------------- generic history runner
def run_cases(chk, kind, cases, spec_check=None, label="", impl_kwargs=None, compare_model=True, max_report=3,
              key_fn=None):
    """cases: list of (rows, load_first, ops).  Runs each on the real enforcer and (batched) on the model.
    spec_check(kind, rows, load_first, ops, impl_obs, impl) -> list of (step, message[, finding_id])."""
    impl_kwargs = impl_kwargs or {}
    impl_obs = []
    def _conc(sc):
        if sc is None:
            return None

        def wrapped(kind, rows, lf, ops, obs, impl):
            return sc(kind, rows, lf, concretise(rows, lf, ops, obs), obs, impl)
        for a in ("case_extra",):
            if hasattr(sc, a):
                setattr(wrapped, a, getattr(sc, a))
        return wrapped
    specs = [_conc(c[3] if len(c) > 3 else spec_check) for c in cases]
    cases = [c[:3] for c in cases]
    for rows, lf, ops in cases:
        impl, obs = run_impl(kind, rows, lf, ops, **impl_kwargs)
        impl_obs.append((impl, obs))
    model_obs = [None] * len(cases)
    if compare_model and chk.oracle is not None:
        # batch per load_first/rows (each request carries its own rows)
        reqs = [(1, [kind.wire(), [[pt, r] for pt, r in rows], lf, [list(op) for op in concretise(rows, lf, ops, impl_obs[n][1])]])
                for n, (rows, lf, ops) in enumerate(cases)]
        reps = chk.oracle.query(reqs)
        for n, ((rows, lf, ops), rep) in enumerate(zip(cases, reps)):
            if isinstance(rep, list) and rep != [998] and not (rep and rep[0] == "ORACLE-ERROR"):
                model_obs[n] = [canon_model_obs(op, o) for op, o in zip(ops, rep)]
    reported_spec = reported_dis = 0
    for n, (rows, lf, ops) in enumerate(cases):
        impl, obs = impl_obs[n]
        mut = [op for op in ops if op[0] < 50]
        chk.count(key_fn(kind, rows, ops) if key_fn else ((kind.name, tuple(map(repr, mut))) if mut else None))
        if n % max(1, len(cases) // 3) == 0:
            chk.sample(dict(kind=kind.name, watcher=kind.watcher, adapter=kind.adapter, stratum=label,
                            initial_rows=[[pt, S(r)] for pt, r in rows],
                            history=[pretty_op(o) for o in ops if o[0] < 50][:12],
                            n_ops=len(ops), last_observation=str(obs[-1][0]) if obs else None), cap=8)
        spec_check = specs[n]
        viol = spec_check(kind, rows, lf, ops, obs, impl) if spec_check else []
        if viol:
            step, msg = viol[0][0], viol[0][1]
            finding = viol[0][2] if len(viol[0]) > 2 else None
            small = ops[:step + 1]
            if reported_spec < max_report:
                def fails(cand, _msg=msg, spec_check=spec_check):
                    im, ob = run_impl(kind, rows, lf, cand, **impl_kwargs)
                    v = spec_check(kind, rows, lf, cand, ob, im)
                    return any(x[1] == _msg for x in v)
                try:
                    small = shrink(small, fails)
                    im, ob = run_impl(kind, rows, lf, small, **impl_kwargs)
                    v2 = [x for x in spec_check(kind, rows, lf, small, ob, im) if x[1] == msg]
                    if v2 and len(v2[0]) > 2:
                        finding = v2[0][2]
                    last_obs = ob[v2[0][0]] if v2 else ob[-1]
                except Exception:  # noqa
                    last_obs = obs[step]
            else:
                last_obs = obs[step]
            reported_spec += 1
            chk.spec_fail(dict(getattr(spec_check, "case_extra", {}), kind=kind.name, kind_wire=kind.wire(), stratum=label, load_first=lf,
                               initial_rows=[[pt, r] for pt, r in rows], ops=[list(o) for o in small],
                               readable=dict(initial_rows=[[pt, S(r)] for pt, r in rows],
                                             history=[pretty_op(o) for o in small])),
                          dict(observation_at_failing_step=last_obs), "see 'what'", msg, finding)
            continue
        if compare_model and chk.oracle is not None:
            d = first_diff(obs, model_obs[n])
            if d:
                i, comp = d
                reported_dis += 1
                chk.disagree(dict(kind=kind.name, kind_wire=kind.wire(), stratum=label, load_first=lf,
                                  initial_rows=[[pt, r] for pt, r in rows], ops=[list(o) for o in ops[:i + 1]],
                                  readable=dict(initial_rows=[[pt, S(r)] for pt, r in rows],
                                                history=[pretty_op(o) for o in ops[:i + 1] if o[0] < 50] +
                                                        [pretty_op(ops[i])] if i < len(ops) else [])),
                             obs[i] if i < len(obs) else None,
                             model_obs[n][i] if model_obs[n] and i < len(model_obs[n]) else model_obs[n],
                             where=f"{label}: step {i} component {comp}")
    chk.traces += len(cases)
    return impl_obs


def replay_case(chk, spec_check, impl_kwargs=None):
    """generic --replay for history properties: re-run the recorded history on the implementation,
    evaluate the spec and compare with the model"""
    import json
    import sys
    rec = json.load(open(chk.replay_file))
    c = rec.get("case") or {}
    if "ops" not in c:
        print("replay file names a broken theorem/correspondence, not a history:", json.dumps(rec.get("broken"))[:800])
        sys.exit(1)
    w = c["kind_wire"]
    kind = Kind(c["kind"], *[bool(x) for x in w[:5]], eff=w[5], adapter=bool(w[6]), watcher=w[7])
    rows = [(pt, r) for pt, r in c["initial_rows"]]
    ops = [tuple(o) for o in c["ops"]]
    lf = c.get("load_first", True)
    impl, obs = run_impl(kind, rows, lf, ops, **(impl_kwargs or {}))
    cops = concretise(rows, lf, ops, obs)
    viol = spec_check(kind, rows, lf, cops, obs, impl) if spec_check else []
    mo = run_model(chk.oracle, kind, rows, lf, [cops])[0] if chk.oracle else None
    d = first_diff(obs, mo) if mo is not None else None
    print("replay history:", [pretty_op(o) for o in ops])
    print("  spec violations on the implementation:", viol[:3])
    print("  implementation vs model:", d)
    if viol:
        print(f"VIOLATION property={chk.prop} replay={chk.replay_file}")
        sys.exit(1)
    if d:
        print(f"VIOLATION property={chk.prop} replay={chk.replay_file} no-failing-input-found")
        sys.exit(1)
    print("replay passes: the implementation satisfies the spec on this history and agrees with the model")
    sys.exit(0)
