"""C01 — decision = declared effect combination of exactly the matching rules.
Proof: Props/C01.v (effectors regenerated from casbin/effect/*.py).  Correspondence: outcome
sequences realised as real policies and run through Enforcer.enforce/enforce_ex/batch_enforce."""
import sys

from ..core import Check, ERR
from ..enforce_cases import (EFFECTS, NOMATCH, MALLOW, MDENY, MOTHER, BADSIZE, BADTYPE, REQ, realise, observe,
                             all_sequences, NESTED_RULES, run_history, ask_queries)

PROP = "C01"


def spec_python(eidx, outs_model, enabled, arity_ok, empty_match, spec_reply):
    """expected observation according to the SPEC (Effect.v spec_decision/spec_explain evaluated by the
    oracle for non-empty policies; the three side clauses of the property stated here directly)."""
    if not enabled:
        return [0, [1, []]]
    if not arity_ok:
        return [999, ERR["EArity"]]
    if not outs_model:
        d = True if eidx == 1 else empty_match
        return [0, [int(d), []]]
    dec_, expl, err = spec_reply
    if err:
        return [999, err[0]]
    return [0, [dec_, expl]]


def run(chk, maxlen, nrandom, explain=False):
    rng = chk.rng
    cases = []   # (effect, eidx, has_eft, outs_model, rules, req, enabled, use_fn, empty_match, label)

    # A: exhaustive small sequences
    for effect, eidx in EFFECTS:
        for has_eft in (True, False):
            alphabet = [NOMATCH, MALLOW, MDENY, MOTHER] if has_eft else [NOMATCH, MALLOW]
            for outs in all_sequences(alphabet, maxlen if has_eft else min(maxlen + 2, 8)):
                cases.append((effect, eidx, has_eft, outs, realise(outs, has_eft, None, allow_fn=False), REQ, True, False,
                              False, "exhaustive"))
    n_exh = len(cases)
    # B: random longer sequences, all six outcomes, random variants, fn matcher
    for _ in range(nrandom):
        effect, eidx = EFFECTS[rng.randrange(len(EFFECTS))]
        has_eft = rng.random() < 0.75
        n = rng.randint(1, 12)
        weights = [4, 3, 3, 3, 1, 1] if has_eft else [4, 4, 0, 0, 1, 1]
        outs = rng.choices(range(6), weights=weights, k=n)
        cases.append((effect, eidx, has_eft, outs, realise(outs, has_eft, rng), REQ, True, True, False, "random"))
    # C: empty policy, D: disabled, E: arity
    for effect, eidx in EFFECTS:
        for has_eft in (True, False):
            for use_fn in (False, True):
                cases.append((effect, eidx, has_eft, [], [], ("", "", ""), True, use_fn, True, "empty-match"))
                cases.append((effect, eidx, has_eft, [], [], REQ, True, use_fn, False, "empty-nomatch"))
                cases.append((effect, eidx, has_eft, [], [], ("", "", "x"), True, use_fn, False, "empty-nomatch"))
            for _ in range(6):
                n = rng.randint(0, 6)
                outs = rng.choices(range(6), weights=[3, 3, 3 if has_eft else 0, 3 if has_eft else 0, 1, 1], k=n)
                rules = realise(outs, has_eft, rng)
                cases.append((effect, eidx, has_eft, outs, rules, REQ, False, True, False, "disabled"))
                bad_req = REQ[:2] if rng.random() < 0.5 else REQ + ("extra",)
                cases.append((effect, eidx, has_eft, outs, rules, bad_req, True, True, False, "arity"))
                cases.append((effect, eidx, has_eft, outs, rules, (), True, True, False, "arity"))

    n_plain = len(cases)
    # F: the effect expression under test is the model's SECOND effect definition (e2), selected through an
    #    EnforceContext, while the default definition e is a different one: every clause of the property (early
    #    exit, final verdict, explanation) must follow e2
    for effect, eidx in EFFECTS:
        for deff, didx in EFFECTS:
            if didx == eidx:
                continue
            for outs in all_sequences([NOMATCH, MALLOW, MDENY, MOTHER], max(2, maxlen - 2)):
                cases.append((effect, eidx, True, outs, realise(outs, True, None, allow_fn=False), REQ, True, False, False,
                              "context-e2", deff))
            for _ in range(max(10, nrandom // 100)):
                outs = rng.choices(range(6), weights=[4, 3, 3, 3, 1, 1], k=rng.randint(1, 10))
                cases.append((effect, eidx, True, outs, realise(outs, True, rng), REQ, True, True, False, "context-e2", deff))
            # ... also on an EMPTY policy (the matcher judged once against empty rule fields, combined by e2)
            cases.append((effect, eidx, True, [], [], ("", "", ""), True, False, True, "context-e2", deff))
            cases.append((effect, eidx, True, [], [], REQ, True, False, False, "context-e2", deff))
    # G: a user-registered function in the matcher that itself calls enforce() (nested request matching its own
    #    allow and deny rules): the nested call must not disturb the outer decision
    for _ in range(max(200, nrandom // 4)):
        effect, eidx = EFFECTS[rng.randrange(len(EFFECTS))]
        outs = rng.choices(range(4), weights=[3, 3, 3, 2], k=rng.randint(1, 8))
        rules = realise(outs, True, rng, allow_fn=True)
        outs, rules = list(outs), list(rules)
        for j, nr in enumerate(NESTED_RULES):
            k = rng.randrange(len(rules) + 1)
            rules.insert(k, list(nr) + [f"n{j}"])
            outs.insert(k, NOMATCH)
        cases.append((effect, eidx, True, outs, rules, REQ, True, rng.choice(["nest", "nest1"]), False, "reentrant-function"))

    reload_stratum(chk)
    history_strata(chk, nrandom, explain)

    # run implementation
    reqs_model, reqs_spec, obs_impl, sides = [], [], [], []
    for c in cases:
        (effect, eidx, has_eft, outs, rules, req, enabled, use_fn, em, label) = c[:10]
        obs, side = observe(effect, has_eft, rules, req, enabled, use_fn, default_effect=(c[10] if len(c) > 10 else None))
        obs_impl.append(obs)
        sides.append(side)
        arity_ok = len(req) == 3
        # without an effect column every match is Match Allow
        outs_m = outs
        reqs_model.append((1, [effect, enabled, arity_ok, outs_m, em]))
        reqs_spec.append((2, [eidx, outs_m]))
    if chk.oracle is None:
        chk.notes.append("oracle unavailable; correspondence not run")
        return
    rep_model = chk.oracle.query(reqs_model)
    rep_spec = chk.oracle.query(reqs_spec)

    for i, c in enumerate(cases):
        (effect, eidx, has_eft, outs, rules, req, enabled, use_fn, em, label) = c[:10]
        obs, side = obs_impl[i], sides[i]
        mod = rep_model[i]
        exp = spec_python(eidx, outs, enabled, len(req) == 3, em, rep_spec[i])
        case = dict(effect=effect, has_effect_column=has_eft, outcomes=outs, rules=rules, request=list(req),
                    enabled=enabled, fn_matcher=use_fn, stratum=label, default_effect=(c[10] if len(c) > 10 else None))
        if not explain:
            # C01 looks at the decision / exception only
            def strip(o):
                return [0, o[1][0]] if o[0] == 0 else o
            obs_c, mod_c, exp_c = strip(obs), strip(mod), strip(exp)
        else:
            obs_c, mod_c, exp_c = obs, mod, exp
        key = (eidx, has_eft, tuple(outs), enabled, len(req), em)
        nontrivial = enabled and len(req) == 3 and any(o != NOMATCH for o in outs)
        chk.count(key if nontrivial else None)
        if i % max(1, len(cases) // 6) == 0:
            chk.sample(dict(case=case, impl=obs, model=mod, spec=exp))
        if obs_c != exp_c:
            chk.spec_fail(case, obs, exp, "implementation decision differs from the spec of the effect expression")
        elif obs_c != mod_c:
            chk.disagree(case, obs, mod, where=f"enforce_ex on stratum {label}")
        # enforce / batch_enforce agree with enforce_ex (C08's last sentence; also guards C01's observation points)
        want = [0, obs[1][0]] if obs[0] == 0 else obs
        if side["enforce"] != want:
            chk.spec_fail(case, side["enforce"], want, "enforce() differs from enforce_ex()[0]")
        wantb = [0, [obs[1][0]] * 2] if obs[0] == 0 else obs
        if side["batch"] != wantb:
            chk.spec_fail(case, side["batch"], wantb, "batch_enforce() differs from enforce()")
        if side["stored_len"] != len(rules):
            chk.disagree(case, side["stored_len"], len(rules), where="harness: rule not stored (duplicate?)")
    chk.traces += len(cases)
    chk.extra["strata"] = dict(exhaustive=n_exh, random=nrandom, other=n_plain - n_exh - nrandom,
                               context_e2=sum(1 for c in cases if c[9] == "context-e2"),
                               reentrant_function=sum(1 for c in cases if c[9] == "reentrant-function"),
                               role_calls_requests=chk.extra.get("strata_extra", {}).get("role_calls_requests", 0))
    chk.extra["exhaustive_maxlen"] = maxlen
    chk.exhaustive = True
    # cross-check extraction against the kernel on a sample
    k = 150 if chk.tier == "quick" else 1500
    idx = sorted(rng.sample(range(len(cases)), min(k, len(cases))))
    ok, n, log = __import__("harness.core", fromlist=["vm_crosscheck"]).vm_crosscheck(
        chk.prop, "From PyCasbin Require Import Base EnforceInst.", "oracle_C01",
        [reqs_model[i] for i in idx] + [reqs_spec[i] for i in idx],
        [rep_model[i] for i in idx] + [rep_spec[i] for i in idx])
    chk.vm_checked = n
    if not ok:
        chk.disagree(dict(kind="extraction-vs-vm_compute"), "extracted oracle", log, where="vm_compute cross-check")


def reload_stratum(chk):
    """'a disabled enforcer allows everything' - also after the model and/or the policy are reloaded or replaced while
    it is disabled (the switch is the user's, not part of the model).  Implementation-level SPEC on an enforcer built
    from files."""
    import os
    import tempfile
    import casbin
    from ..enforce_cases import MODEL, PLAIN_MATCHER
    n = 0
    with tempfile.TemporaryDirectory(prefix="c01_") as d:
        pol = os.path.join(d, "policy.csv")
        with open(pol, "w") as f:
            f.write("p, alice, data1, read, deny, t0\np, bob, data2, write, allow, t1\n")
        for effect, eidx in EFFECTS:
            if effect.startswith("subjectPriority"):
                continue                      # needs a role definition to be loadable from an adapter (C07's models)
            mp = os.path.join(d, f"model{eidx}_{n}.conf")
            with open(mp, "w") as f:
                f.write(MODEL.format(pdef="sub, obj, act, eft, tag", effect=effect, e2="", matcher=PLAIN_MATCHER))
            for steps in (["load_model"], ["load_policy"], ["load_model", "load_policy"], ["clear_policy"],
                          ["load_policy", "load_model", "load_policy"], ["set_model"], ["build_role_links"]):
                e = casbin.Enforcer(mp, pol)
                e.enable_enforce(False)
                for st in steps:
                    if st == "set_model":
                        m2 = e.new_model(mp)
                        e.set_model(m2)
                    else:
                        getattr(e, st)()
                n += 1
                chk.count(("disabled-reload", eidx, tuple(steps)))
                for req in (("alice", "data1", "read"), ("nobody", "x", "y"), ("bob", "data2", "write")):
                    try:
                        got = e.enforce_ex(*req)
                        got = [bool(got[0]), list(got[1])]
                    except Exception as exc:  # noqa
                        got = ["raise", type(exc).__name__]
                    if got != [True, []]:
                        chk.spec_fail(dict(stratum="disabled-survives-reload", effect=effect, steps_while_disabled=steps,
                                           policy=open(pol).read(), request=list(req)), got, [True, []],
                                      "a disabled enforcer did not allow a request after the model/policy was reloaded")
                        break
    chk.extra.setdefault("strata_extra", {})["disabled_reload_cases"] = n
    model_replaced_stratum(chk)
    text_values_stratum(chk)
    eval_conditions_stratum(chk)
    role_calls(chk)


def role_calls(chk):
    """matchers that ask the role function more than once per rule (two request fields against the rule's subject; subject
    and object in one role graph) or hand it a domain taken from the RULE, over names that are digit strings and prefixes /
    concatenations of each other: every request of the universe under every documented effect, decision through enforce and
    enforce_ex AND the explaining rule, against the rules the matcher is true of (enforce_cases.role_calls_stratum)"""
    from ..enforce_cases import role_calls_stratum
    n = role_calls_stratum(chk, "a matcher that calls the role function several times (or with a rule-side domain) over names whose "
                                "texts concatenate alike: the decision / the explaining rule is not that of the rules whose matcher is "
                                "true of the request (g evaluated as reachability over the stored role assignments)",
                           classes=("Enforcer", "SyncedEnforcer") if chk.tier == "thorough" else ("Enforcer",))
    chk.extra.setdefault("strata_extra", {})["role_calls_requests"] = n


def text_values_stratum(chk):
    """request and rule values are arbitrary TEXT: a value may contain ', ' (so that two different requests render to the same
    line), '%', braces, quotes or blanks.  Each request - alone, through enforce_ex, and inside one batch_enforce with the
    others - is decided by the rules whose fields EQUAL its values (plain equality matcher), under every documented effect."""
    import casbin
    from ..enforce_cases import MODEL, PLAIN_MATCHER
    rules = [["alice", "data1, read", "read", "allow", "t0"], ["bob", "100%", "read", "deny", "t1"], ["carol", "%s", "write", "allow", "t2"],
             ["a%20b", "data1", "read", "allow", "t3"], ["alice", "data1", "read, read", "deny", "t4"], ["d{0}", "x'y", 'q"r', "allow", "t5"]]
    reqs = [["alice", "data1, read", "read"], ["alice", "data1", "read, read"], ["alice, data1", "read", "read"], ["bob", "100%", "read"],
            ["carol", "%s", "write"], ["carol", "%d", "write"], ["a%20b", "data1", "read"], ["d{0}", "x'y", 'q"r'], ["alice", "data1, read"],
            ["alice", "data1", "read"]]
    n = 0
    for effect, eidx in EFFECTS:
        if effect.startswith("subjectPriority"):
            continue
        m_text = MODEL.format(pdef="sub, obj, act, eft, tag", effect=effect, e2="", matcher=PLAIN_MATCHER)
        for cls in (casbin.Enforcer, casbin.SyncedEnforcer, casbin.FastEnforcer):
            e = cls(casbin.Enforcer.new_model(text=m_text))
            for r in rules:
                e.add_policy(*r)

            def want(req):
                if len(req) != 3:
                    return "raise"
                outs = [r[3] for r in rules if r[:3] == req]
                if eidx == 0:
                    return "allow" in outs
                if eidx == 1:
                    return "deny" not in outs
                if eidx == 2:
                    return "allow" in outs and "deny" not in outs
                for x in outs:
                    if x in ("allow", "deny"):
                        return x == "allow"
                return False

            def ask(f):
                try:
                    return f()
                except Exception:  # noqa
                    return "raise"

            exp = [want(r) for r in reqs]
            for i, req in enumerate(reqs):
                n += 1
                chk.count(("text-values", eidx, cls.__name__, i))
                got = ask(lambda: bool(e.enforce(*req)))
                got2 = ask(lambda: bool(e.enforce_ex(*req)[0]))
                if got != exp[i] or got2 != exp[i]:
                    chk.spec_fail(dict(stratum="text-values", effect=effect, enforcer=cls.__name__, rules=rules, request=req),
                                  dict(enforce=got, enforce_ex=got2), exp[i],
                                  "the decision is not the effect combination of the rules whose fields equal the request values")
                    chk.extra.setdefault("strata_extra", {})["text_values_cases"] = n
                    return
            ok = [r for r in reqs if len(r) == 3]
            gotb = ask(lambda: [bool(x) for x in e.batch_enforce(ok)])
            wantb = [want(r) for r in ok]
            n += 1
            if gotb != wantb:
                chk.spec_fail(dict(stratum="text-values", effect=effect, enforcer=cls.__name__, rules=rules, batch=ok), gotb, wantb,
                              "batch_enforce does not decide each request of the batch like enforce does")
                chk.extra.setdefault("strata_extra", {})["text_values_cases"] = n
                return
    chk.extra.setdefault("strata_extra", {})["text_values_cases"] = n


def eval_conditions_stratum(chk):
    """rules that carry their own conditions: a matcher with TWO eval() columns (and a plain conjunct).  Several rules share
    the text of their first condition and differ in the second, and the other way round; a rule matches exactly when BOTH of
    its own conditions hold of the request.  Every request of a small universe, through enforce and enforce_ex, under every
    documented effect; with the allow-override effect enforce_ex must name the first matching allow rule."""
    import casbin
    from types import SimpleNamespace
    from ..enforce_cases import MODEL
    rules = [["r.sub == 'alice'", "r.obj == 'data1'", "read", "allow", "t0"], ["r.sub == 'alice'", "r.obj == 'data2'", "read", "deny", "t1"],
             ["r.sub != 'alice'", "r.obj == 'data1'", "read", "allow", "t2"], ["r.sub == 'alice'", "r.obj != 'data1'", "write", "allow", "t3"],
             ["r.sub == 'bob'", "r.obj == 'data2'", "read", "allow", "t4"], ["r.sub != 'alice'", "r.obj == 'data2'", "read", "deny", "t5"],
             ["r.sub == 'bob'", "r.obj == 'data2'", "write", "deny", "t6"]]
    reqs = [[s_, o, a] for s_ in ("alice", "bob", "carol") for o in ("data1", "data2", "data3") for a in ("read", "write")]
    n = 0
    for effect, eidx in EFFECTS:
        if effect.startswith("subjectPriority"):
            continue
        m_text = MODEL.format(pdef="c1, c2, act, eft, tag", effect=effect, e2="", matcher="eval(p.c1) && eval(p.c2) && r.act == p.act")
        for cls in (casbin.Enforcer, casbin.SyncedEnforcer):
            for order in (rules, rules[::-1]):
                e = cls(casbin.Enforcer.new_model(text=m_text))
                for r in order:
                    e.add_policy(*r)
                for req in reqs:
                    env = {"r": SimpleNamespace(sub=req[0], obj=req[1], act=req[2])}
                    hits = [r for r in order if eval(r[0], {}, env) and eval(r[1], {}, env) and r[2] == req[2]]
                    outs = [r[3] for r in hits]
                    if eidx == 0:
                        want = "allow" in outs
                    elif eidx == 1:
                        want = "deny" not in outs
                    elif eidx == 2:
                        want = "allow" in outs and "deny" not in outs
                    else:
                        want = bool(outs) and outs[0] == "allow"
                    n += 1
                    chk.count(("eval-conditions", eidx, cls.__name__, order is rules, tuple(req)))
                    try:
                        got = bool(e.enforce(*req))
                        gx = e.enforce_ex(*req)
                        got2, why = bool(gx[0]), list(gx[1])
                    except Exception as exc:  # noqa
                        got, got2, why = "raise", repr(exc)[:80], None
                    bad = got != want or got2 != want
                    want_why = None
                    if not bad and eidx == 0:
                        want_why = next((r for r in hits if r[3] == "allow"), [])
                        bad = why != want_why
                    if bad:
                        chk.spec_fail(dict(stratum="eval-conditions", effect=effect, enforcer=cls.__name__, rules=order, request=req),
                                      dict(enforce=got, enforce_ex=got2, explanation=why), dict(decision=want, explanation=want_why),
                                      "a rule with two eval() conditions matches exactly when both of ITS OWN conditions hold: the decision "
                                      "(or the explaining rule) is not that of the matching rules")
                        chk.extra.setdefault("strata_extra", {})["eval_conditions_cases"] = n
                        return
    chk.extra.setdefault("strata_extra", {})["eval_conditions_cases"] = n


def model_replaced_stratum(chk):
    """'the MODEL's policy-effect expression' is that of the model the enforcer holds NOW: after set_model(m2), or after the
    model file was rewritten and load_model() + load_policy() ran, every decision (and explanation) equals that of a fresh
    enforcer built on the new model with the same policy - for every ordered pair of the documented effect expressions."""
    import os
    import tempfile
    import casbin
    from ..enforce_cases import MODEL, PLAIN_MATCHER
    rows = "p, alice, data1, read, deny, t0\np, alice, data1, read, allow, t1\np, bob, data2, write, allow, t2\np, carol, data1, read, maybe, t3\n"
    reqs = [("alice", "data1", "read"), ("bob", "data2", "write"), ("carol", "data1", "read"), ("nobody", "x", "y")]
    effs = [(ef, ix) for ef, ix in EFFECTS if not ef.startswith("subjectPriority")]
    n = 0

    def ask(e):
        out = []
        for req in reqs:
            try:
                g = e.enforce_ex(*req)
                out.append([bool(g[0]), list(g[1]), bool(e.enforce(*req))])
            except Exception as exc:  # noqa
                out.append(["raise", type(exc).__name__])
        return out

    with tempfile.TemporaryDirectory(prefix="c01m_") as d:
        for policy_text in ("", rows):
            pol = os.path.join(d, "policy.csv")
            with open(pol, "w") as f:
                f.write(policy_text)
            for e1, i1 in effs:
                for e2, i2 in effs:
                    if i1 == i2:
                        continue
                    t1 = MODEL.format(pdef="sub, obj, act, eft, tag", effect=e1, e2="", matcher=PLAIN_MATCHER)
                    t2 = MODEL.format(pdef="sub, obj, act, eft, tag", effect=e2, e2="", matcher=PLAIN_MATCHER)
                    for how in ("set_model", "load_model", "set_effector"):
                        mp = os.path.join(d, "model.conf")
                        with open(mp, "w") as f:
                            f.write(t1)
                        e = casbin.Enforcer(mp, pol)
                        ask(e)                                    # the enforcer has decided under the first model
                        if how == "set_effector":
                            # the effect in force is the one the application installed (an effector for the second expression)
                            from casbin.effect import get_effector
                            e.set_effector(get_effector(e2))
                        elif how == "set_model":
                            e.set_model(casbin.Enforcer.new_model(text=t2))
                        else:
                            with open(mp, "w") as f:
                                f.write(t2)
                            e.load_model()
                        e.load_policy()
                        mp2 = os.path.join(d, "model2.conf")
                        with open(mp2, "w") as f:
                            f.write(t2)
                        want = ask(casbin.Enforcer(mp2, pol))
                        got = ask(e)
                        n += 1
                        chk.count(("model-replaced", how, i1, i2, bool(policy_text)))
                        if got != want:
                            k = next(i for i in range(len(reqs)) if got[i] != want[i])
                            chk.spec_fail(dict(stratum="model-replaced", how=how, first_effect=e1, new_effect=e2, policy=policy_text,
                                               request=list(reqs[k])), got[k], want[k],
                                          "after the model was replaced the decision is not the new model's effect combination "
                                          "(differs from a fresh enforcer on the new model and the same policy)")
                            chk.extra.setdefault("strata_extra", {})["model_replaced_cases"] = n
                            return
    chk.extra.setdefault("strata_extra", {})["model_replaced_cases"] = n


# ====================================================================================================================
# histories on one enforcer: request sequences / entry points / enforcer classes / role manager replaced / second
# policy definition (see enforce_cases.run_history)
FLAVOURS_PLAIN = [("Enforcer", None), ("SyncedEnforcer", None), ("FastEnforcer", None)]
SUBS, OBJS = ["alice", "bob"], ["data1", "data2"]
ROLES = ["admin", "staff"]
EFTS = ["allow", "deny", "maybe", ""]
CTX_P2 = dict(r="r2", p="p2", e="e2", m="m2")          # every definition is the second one
CTX_P2_E = dict(r="r2", p="p2", e="e", m="m2")         # second request/policy/matcher, DEFAULT effect
CTX_E2 = dict(r="r", p="p", e="e2", m="m")             # only the effect is the second one


def key_flavours(md):
    """FastEnforcer with a cache-key order: two distinct policy fields the matcher compares by equality with the same
    request position (what C19 calls admissible)"""
    import itertools
    fields = [0, 1] if md["fn"] else [0, 1, 2]
    if md["kind"] == "rbac":
        fields = [f for f in fields if f != 0]          # the subject goes through g()
    return [("FastEnforcer", list(t)) for t in itertools.permutations(fields, 2)]


def flavours_for(md):
    return FLAVOURS_PLAIN + (key_flavours(md) if md["kind"] != "two" else [])


class RuleMaker:
    def __init__(self, rng, md, keyed):
        self.rng, self.md, self.keyed, self.n = rng, md, keyed, 0

    def rule(self, sub=None, obj=None, act=None, eft=None):
        rng, md = self.rng, self.md
        self.n += 1
        tag = f"t{self.n}"
        subs = SUBS + (ROLES if md["kind"] == "rbac" else [])
        acts = ["read", "write"] + (["f1", "f0", "s", "i"] if md["fn"] else [])
        w = [5, 3] + ([1.2, 0.8, 0.5, 0.5] if md["fn"] else [])
        sub = sub or rng.choice(subs)
        obj = obj or rng.choice(OBJS)
        act = act or rng.choices(acts, weights=w)[0]
        if not self.keyed and rng.random() < 0.04:
            # a rule of the wrong size (a keyed FastEnforcer only meets it inside its bucket: left to C19)
            return [sub, obj, tag] if rng.random() < 0.5 else [sub, obj, act, "allow", "x", "y", tag]
        if md["has_eft"]:
            return [sub, obj, act, eft or rng.choices(EFTS, weights=[5, 4, 1, 0.5])[0], tag]
        return [sub, obj, act, tag]


def gen_request(rng, md, rules, keyed, policy_empty):
    """mostly a request aimed at a stored rule; sometimes of the wrong size; empty fields only where the keyed
    FastEnforcer's empty-bucket branch (C19's listed finding) cannot be reached"""
    x = rng.random()
    subs = SUBS + (ROLES if md["kind"] == "rbac" and rng.random() < 0.2 else [])
    if rules and x < 0.6:
        r = rng.choice(rules)
        req = [r[0] if (md["kind"] != "rbac" or rng.random() < 0.3) else rng.choice(subs), r[1],
               r[2] if (len(r) > 3 and r[2] in ("read", "write")) else rng.choice(["read", "write"])]
    else:
        req = [rng.choice(subs), rng.choice(OBJS), rng.choice(["read", "write"])]
    if x > 0.86:
        k = rng.choice([0, 1, 2, 4, 4, 5])
        req = (req + [rng.choice(OBJS), "x"])[:k]
    elif x > 0.82 and md["kind"] != "rbac" and (not keyed or policy_empty):
        req = rng.choice([["", "", ""], ["", "", "x"], ["", "data1", "read"]])
    return req


def gen_history(rng, md, flavour, order, ctxs=(None,)):
    keyed = bool(order)
    mk = RuleMaker(rng, md, keyed)
    steps, rules, g = [], {"p": [], "p2": []}, []
    ptypes = ["p", "p2"] if md["kind"] == "two" else ["p"]

    def add(pt):
        r = mk.rule()
        rules[pt].append(r)
        steps.append(["add", pt, r])
    for pt in ptypes:
        for _ in range(rng.randint(0, 4)):
            add(pt)
    if md["kind"] == "rbac":
        for _ in range(rng.randint(0, 3)):
            g.append([rng.choice(SUBS + ROLES), rng.choice(ROLES)])
            steps.append(["add_g", g[-1]])
    for _ in range(rng.randint(4, 12)):
        x = rng.random()
        if x < 0.50:
            ctx = rng.choice(list(ctxs))
            pt = ctx["p"] if ctx else "p"
            entry = rng.choices(["enforce_ex", "enforce", "batch_enforce"], weights=[5, 4, 2])[0]
            n = rng.randint(1, 3) if entry == "batch_enforce" else 1
            steps.append(["ask", entry, ctx, [gen_request(rng, md, rules[pt], keyed, not rules[pt]) for _ in range(n)]])
        elif x < 0.68:
            add(rng.choice(ptypes))
        elif x < 0.75:
            pt = rng.choice(ptypes)
            if rules[pt]:
                r = rules[pt].pop(rng.randrange(len(rules[pt])))
                steps.append(["remove", pt, r])
        elif x < 0.78:
            steps.append(["clear"])
            rules, g = {"p": [], "p2": []}, []
        elif x < 0.85:
            steps.append(["enable", rng.random() < 0.5])
        elif md["kind"] == "rbac":
            y = rng.random()
            if y < 0.35:
                g.append([rng.choice(SUBS + ROLES), rng.choice(ROLES)])
                steps.append(["add_g", g[-1]])
            elif y < 0.6 and g:
                steps.append(["remove_g", g.pop(rng.randrange(len(g)))])
            elif y < 0.9:
                steps.append(["swap_rm"])
            else:
                steps.append(["build_links"])
    # every history ends by asking, through each entry point, about a stored rule
    for ctx in ctxs:
        pt = ctx["p"] if ctx else "p"
        for entry in ("enforce_ex", "enforce"):
            steps.append(["ask", entry, ctx, [gen_request(rng, md, rules[pt], keyed, not rules[pt])]])
    return steps


def fault_histories(md, flavour, order):
    """a call that raises leaves nothing behind: every way of making an ask raise (request too long / too short, a
    rule whose matcher result is of the wrong type) through every entry point, followed through every entry point
    by a request that a DIFFERENT rule decides"""
    eft = ["allow"] if md["has_eft"] else []
    a = ["alice", "data1", "read"] + eft + ["t1"]
    b = ["bob", "data2", "write"] + eft + ["t2"]
    base = [["add", "p", a], ["add", "p", b]]
    faults = [("long", [], ["bob", "data2", "write", "extra"]), ("short", [], ["bob", "data2"])]
    if md["fn"]:
        faults.append(("badtype", [["add", "p", ["bob", "data2", "s"] + eft + ["t3"]]], ["bob", "data2", "zzz"]))
    out = []
    for _, extra, bad in faults:
        for e1 in ("enforce", "enforce_ex", "batch_enforce"):
            for e2 in ("enforce_ex", "enforce", "batch_enforce"):
                out.append(base + extra + [["ask", e1, None, [bad]], ["ask", e2, None, [["alice", "data1", "read"]]],
                                           ["ask", e2, None, [["bob", "data2", "write"]]]])
    return out


def rm_histories(md):
    """the role manager object is replaced (set_role_manager + build_role_links) before / after the first request,
    then the assignments change: matching follows the CURRENT links"""
    eft = (lambda x: [x]) if md["has_eft"] else (lambda x: [])
    rules = [["add", "p", ["admin", "data1", "read"] + eft("allow") + ["t1"]],
             ["add", "p", ["alice", "data1", "read"] + eft("deny") + ["t2"]],
             ["add", "p", ["bob", "data1", "read"] + eft("deny") + ["t3"]],
             ["add_g", ["alice", "admin"]]]
    asks = [["ask", "enforce_ex", None, [["alice", "data1", "read"]]], ["ask", "enforce", None, [["bob", "data1", "read"]]],
            ["ask", "enforce_ex", None, [["bob", "data1", "read"]]], ["ask", "enforce", None, [["alice", "data1", "read"]]]]
    out = []
    for warm in (True, False):
        for change in ([["remove_g", ["alice", "admin"]]], [["add_g", ["bob", "admin"]]],
                       [["remove_g", ["alice", "admin"]], ["add_g", ["bob", "staff"]], ["add_g", ["staff", "admin"]]]):
            for rebuild in (["swap_rm"], ["swap_rm", "build_links"], ["build_links"]):
                out.append(rules + (asks if warm else []) + [[r] for r in rebuild] + asks + change + asks)
    return out


def p2_histories(chk, eidx_pairs, maxlen):
    """second policy definition: p and p2 hold DIFFERENT numbers of rules with different outcomes; the request is made
    without a context (p decides), with every definition the second one, and with p2/m2 under the default effect"""
    alphabet = [NOMATCH, MALLOW, MDENY, MOTHER]
    seqs = [[]] + list(all_sequences(alphabet, maxlen))
    out = []
    for outs_p in seqs:
        for outs_p2 in seqs:
            if len(outs_p) == len(outs_p2) and outs_p != outs_p2 and len(outs_p) > 1:
                continue                                 # equal lengths: one representative pair per length is enough
            steps = [["add", "p", r[:-1] + ["a" + r[-1]]] for r in realise(outs_p, True, None, allow_fn=False)]
            steps += [["add", "p2", r[:-1] + ["b" + r[-1]]] for r in realise(outs_p2, True, None, allow_fn=False)]
            for ctx in (None, CTX_P2, CTX_P2_E):
                steps.append(["ask", "enforce_ex", ctx, [list(REQ)]])
            steps.append(["ask", "enforce", CTX_P2, [list(REQ)]])
            out.append(steps)
    return out


def judge_histories(chk, cases, explain, count=True):
    """run the histories on real enforcers and evaluate the spec on every ask (ONE oracle round for all of them);
    returns per case (failing asks, asks differing from the model only, broken harness premise or None, number of asks)
    where an ask is reported as (ask record, observed, expected, model)"""
    runs = [run_history(c["enforcer"], c["cache_key_order"], c["model"], c["steps"]) for c in cases]
    qs = [[ask_queries(c["model"], a) for a in asks] for c, (asks, _) in zip(cases, runs)]
    flat = [q for cq in qs for aq in cq for q in aq]
    rep_m = chk.oracle.query([q[0] for q in flat])
    rep_s = chk.oracle.query([q[1] for q in flat])
    results, k = [], 0
    for case, (asks, premise), cq in zip(cases, runs, qs):
        bad, differ = [], []
        for a, aq in zip(asks, cq):
            exps, mods = [], []
            for (mq, sq, eidx, outs, arity_ok, em) in aq:
                exps.append(spec_python(eidx, outs, a["enabled"], arity_ok, em, rep_s[k]))
                mods.append(rep_m[k])
                k += 1

            def shape(vals):
                if a["entry"] == "enforce_ex":
                    v = vals[0]
                    return v if (explain or v[0] != 0) else [0, [v[1][0], []]]
                if a["entry"] == "enforce":
                    v = vals[0]
                    return [0, v[1][0]] if v[0] == 0 else v
                ds = []
                for v in vals:                               # batch_enforce: the first request that raises, raises
                    if v[0] != 0:
                        return v
                    ds.append(v[1][0])
                return [0, ds]
            obs = a["obs"]
            if a["entry"] == "enforce_ex" and not explain and obs[0] == 0:
                obs = [0, [obs[1][0], []]]
            exp, mod = shape(exps), shape(mods)
            if count:
                (mq, sq, eidx, outs, arity_ok, em) = aq[0]
                nontrivial = a["enabled"] and arity_ok and any(o != NOMATCH for o in outs)
                chk.count((case["stratum"], case["enforcer"], eidx, tuple(outs), a["entry"], bool(a["ctx"])) if nontrivial else None)
            if obs != exp:
                bad.append((a, obs, exp, mod))
            elif obs != mod:
                differ.append((a, obs, exp, mod))
        results.append((bad, differ, premise, len(asks)))
    return results


def judge_history(chk, case, explain, count=True):
    return judge_histories(chk, [case], explain, count)[0]


def shrink_history(chk, case, explain):
    """drop steps while some ask of the history still fails"""
    steps = list(case["steps"])
    tries = 0
    i = len(steps) - 1
    while i >= 0 and tries < 80:
        cand = steps[:i] + steps[i + 1:]
        tries += 1
        try:
            bad, _, _, _ = judge_history(chk, dict(case, steps=cand), explain, count=False)
        except Exception:  # noqa
            bad = []
        if bad:
            steps = cand
        i -= 1
    return dict(case, steps=steps)


def report_history(chk, case, explain, result):
    bad, differ, premise, n = result
    if bad:
        small = shrink_history(chk, case, explain)
        bad2, _, _, _ = judge_history(chk, small, explain, count=False)
        if bad2:
            case, bad = small, bad2
        a, obs, exp, mod = bad[0]
        chk.spec_fail(dict(case, failing_step=a["i"], state_at_failing_step=dict(
            enabled=a["enabled"], policy=a["stored"], grouping=a["grouping"], explanation=a["explain_rule"])),
            obs, exp, f"{a['entry']}{' through an EnforceContext' if a['ctx'] else ''} differs from the spec of the effect "
                      f"expression on the current policy (step {a['i']} of the history)")
    elif differ:
        a, obs, exp, mod = differ[0]
        chk.disagree(dict(case, failing_step=a["i"]), obs, mod, where=f"{a['entry']} on stratum {case['stratum']}")
    if premise:
        chk.disagree(case, premise, "get_policy lists the rules that were added", where=f"harness premise, stratum {case['stratum']}")
    return n


def history_strata(chk, nrandom, explain):
    if chk.oracle is None:
        return
    rng = chk.rng
    strata = chk.extra.setdefault("strata_history", {})
    n_hist = dict(acl=max(150, nrandom // 8), rbac=max(150, nrandom // 8), two=max(60, nrandom // 25))
    cases = []
    # random histories: every enforcer class, every admissible key order
    for kind, n in n_hist.items():
        for _ in range(n):
            effect, _e = EFFECTS[rng.randrange(len(EFFECTS))]
            effect2 = EFFECTS[rng.randrange(len(EFFECTS))][0] if kind == "two" else None
            md = dict(kind=kind, effect=effect, effect2=effect2, has_eft=(True if kind == "two" else rng.random() < 0.75),
                      fn=rng.random() < 0.4)
            fl, order = rng.choice(flavours_for(md))
            ctxs = (None, CTX_P2, CTX_P2_E, CTX_E2) if kind == "two" else (None,)
            cases.append(dict(stratum=f"history-{kind}", enforcer=fl, cache_key_order=order, model=md,
                              steps=gen_history(rng, md, fl, order, ctxs)))
    n_random = len(cases)
    # a raising call leaves nothing behind: all classes x fault kinds x entry points
    for effect, _e in EFFECTS:
        for has_eft in (True, False):
            for fn in (False, True):
                md = dict(kind="acl", effect=effect, effect2=None, has_eft=has_eft, fn=fn)
                for fl, order in flavours_for(md):
                    for steps in fault_histories(md, fl, order):
                        cases.append(dict(stratum="history-after-fault", enforcer=fl, cache_key_order=order, model=md, steps=steps))
    n_fault = len(cases) - n_random
    # role manager replaced
    for effect, _e in EFFECTS:
        for has_eft in (True, False):
            md = dict(kind="rbac", effect=effect, effect2=None, has_eft=has_eft, fn=False)
            for fl, order in flavours_for(md):
                for steps in rm_histories(md):
                    cases.append(dict(stratum="history-role-manager-replaced", enforcer=fl, cache_key_order=order, model=md, steps=steps))
    n_rm = len(cases) - n_random - n_fault
    # second policy definition
    kinds = [EFFECTS[0], EFFECTS[1], EFFECTS[2], EFFECTS[3]]
    for effect, e1 in kinds:
        for effect2, e2 in kinds:
            md = dict(kind="two", effect=effect, effect2=effect2, has_eft=True, fn=False)
            for steps in p2_histories(chk, None, 2 if chk.tier == "quick" else 3):
                cases.append(dict(stratum="context-p2", enforcer="Enforcer", cache_key_order=None, model=md, steps=steps))
    n_p2 = len(cases) - n_random - n_fault - n_rm
    asks, reported = 0, set()
    for case, result in zip(cases, judge_histories(chk, cases, explain)):
        asks += result[3]
        if result[0] and (case["stratum"] in reported or len(chk.spec_failures) > 5):
            continue                                     # one shrunk failing history per stratum is enough
        if result[0]:
            reported.add(case["stratum"])
        report_history(chk, case, explain, result)
    chk.traces += len(cases)
    strata.update(random_histories=n_random, after_fault=n_fault, role_manager_replaced=n_rm, context_p2=n_p2, asks=asks)


def replay(chk, explain):
    """re-run one recorded case on the implementation, the oracle (model + spec) and print the verdict"""
    import json
    rec = json.load(open(chk.replay_file))
    c = rec.get("case") or {}
    if "steps" in c:
        bad, differ, premise, _ = judge_history(chk, c, explain, count=False)
        for a, obs, exp, mod in bad[:3]:
            print(f"replay: step {a['i']} {a['entry']} impl={obs} spec={exp} model={mod}")
        if bad:
            print(f"VIOLATION property={chk.prop} replay={chk.replay_file}")
            sys.exit(1)
        print("replay passes: implementation agrees with the spec on every ask of this history")
        sys.exit(0)
    if c.get("stratum") in ("model-replaced", "disabled-survives-reload", "text-values", "eval-conditions"):
        # these strata are cheap and deterministic: re-run them and report what they report
        chk.spec_failures = []
        dict([("model-replaced", model_replaced_stratum), ("disabled-survives-reload", reload_stratum), ("text-values", text_values_stratum), ("eval-conditions", eval_conditions_stratum)])[c["stratum"]](chk)
        hit = [f for f in chk.spec_failures if f["case"].get("stratum") == c["stratum"]]
        if hit:
            print("replay:", json.dumps(hit[0])[:700])
            print(f"VIOLATION property={chk.prop} replay={chk.replay_file}")
            sys.exit(1)
        print("replay passes: the stratum reports nothing on this tree")
        sys.exit(0)
    if c.get("stratum") == "role-calls":
        from ..enforce_cases import replay_role_call
        hit = replay_role_call(c)
        if hit:
            print(f"replay: impl={hit[0]} spec={hit[1]}")
            print(f"VIOLATION property={chk.prop} replay={chk.replay_file}")
            sys.exit(1)
        print("replay passes: decision and explanation are those of the matching rules on this input")
        sys.exit(0)
    if "outcomes" not in c:
        print("replay file names a broken theorem/correspondence, not an input:", json.dumps(rec.get("broken"))[:800])
        sys.exit(1)
    eidx = dict(EFFECTS)[c["effect"]]
    obs, side = observe(c["effect"], c["has_effect_column"], c["rules"], tuple(c["request"]), c["enabled"], c["fn_matcher"],
                        default_effect=c.get("default_effect"))
    em = all(x == "" for x in c["request"]) if not c["rules"] else False
    mod = chk.oracle.query([(1, [c["effect"], c["enabled"], len(c["request"]) == 3, c["outcomes"], em])])[0]
    sp = chk.oracle.query([(2, [eidx, c["outcomes"]])])[0]
    exp = spec_python(eidx, c["outcomes"], c["enabled"], len(c["request"]) == 3, em, sp)
    if not explain:
        f = lambda o: [0, o[1][0]] if o[0] == 0 else o
        obs, mod, exp = f(obs), f(mod), f(exp)
    print(f"replay: impl={obs} model={mod} spec={exp}")
    if obs != exp:
        print(f"VIOLATION property={chk.prop} replay={chk.replay_file}")
        sys.exit(1)
    print("replay passes: implementation agrees with the spec on this input")
    sys.exit(0)


def main(prop=PROP, explain=False):
    chk = Check(prop)
    chk.rule = ("outcome sequences over {nomatch, match+allow, match+deny, match+other, bad-size, bad-type} realised as "
                "real policies (unique tag per rule) x 5 effect expressions x with/without effect column; exhaustive up "
                "to the stated length + random up to length 12 + empty-policy / disabled / arity strata + the effect given as "
                "second definition e2 through an EnforceContext (all pairs default/e2) + a matcher function that re-enters "
                "enforce() + histories on one fresh enforcer of every enforcer class (request sequences over the three entry "
                "points, raising calls, enable toggles, role manager replaced, second policy definition p2 through a context), "
                "each ask judged on the state the management calls produced; a case is "
                "non-trivial when the enforcer is enabled, arity fits and at least one rule matches or errs; distinct "
                "by (effect, column, outcome sequence)")
    chk.assumptions = [
        "per-rule outcome abstraction: how a matcher text yields match/no-match is C02, not C01",
        "translator translators/effectors.py renders the accepted Python subset faithfully (fail-closed otherwise)",
        "custom effectors installed through set_effector are outside the property (five documented expressions)",
    ]
    chk.trusted = ["translator: translators/effectors.py (Python ast -> coq/gen/EffectorsGen.v, regenerated on this run)",
                   "translator: translators/enforce.py (decision kernel of CoreEnforcer.enforce_ex -> coq/gen/EnforceGen.v; matcher "
                   "construction/evaluation, effector selection and logging abstracted) + interpreter coq/theories/EnfLang.v; "
                   "EnforceSrcTie.v proves the regenerated kernel = Enforce.enforce_ex for every effector triple, configuration and rule list"]
    chk.build(translators=["effectors", "enforce"])
    if chk.replay_file:
        return replay(chk, explain)
    if chk.tier == "thorough":
        run(chk, 7, 20000, explain)
    else:
        run(chk, 5, 2500, explain)
        if (chk.broken() or chk.anchor_changed) and not chk.spec_failures:
            # escalate the search for a failing input before giving up
            chk.notes.append("escalated to thorough budget after a broken proof/correspondence")
            run(chk, 6, 10000, explain)
    chk.finish()


if __name__ == "__main__":
    main()
