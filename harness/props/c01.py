"""C01 — decision = declared effect combination of exactly the matching rules.
Proof: Props/C01.v (effectors regenerated from casbin/effect/*.py).  Correspondence: outcome
sequences realised as real policies and run through Enforcer.enforce/enforce_ex/batch_enforce."""
import sys

from ..core import Check, ERR
from ..enforce_cases import (EFFECTS, NOMATCH, MALLOW, MDENY, MOTHER, BADSIZE, BADTYPE, REQ, realise, observe,
                             all_sequences, NESTED_RULES)

PROP = "C01"


def spec_python(eidx, outs_model, enabled, arity_ok, empty_match, spec_reply):
    """expected observation according to the SPEC (Effect.v spec_decision/spec_explain evaluated by the
    oracle for non-empty policies; the three side clauses of the property stated here directly)."""
    if not enabled:
        return [0, [1, []]]
    if not arity_ok:
        return [999, ERR["EArity"]]
    if not outs_model:
        d = True if eidx == 1 else empty_match
        return [0, [int(d), []]]
    dec_, expl, err = spec_reply
    if err:
        return [999, err[0]]
    return [0, [dec_, expl]]


def run(chk, maxlen, nrandom, explain=False):
    rng = chk.rng
    cases = []   # (effect, eidx, has_eft, outs_model, rules, req, enabled, use_fn, empty_match, label)

    # A: exhaustive small sequences
    for effect, eidx in EFFECTS:
        for has_eft in (True, False):
            alphabet = [NOMATCH, MALLOW, MDENY, MOTHER] if has_eft else [NOMATCH, MALLOW]
            for outs in all_sequences(alphabet, maxlen if has_eft else min(maxlen + 2, 8)):
                cases.append((effect, eidx, has_eft, outs, realise(outs, has_eft, None, allow_fn=False), REQ, True, False,
                              False, "exhaustive"))
    n_exh = len(cases)
    # B: random longer sequences, all six outcomes, random variants, fn matcher
    for _ in range(nrandom):
        effect, eidx = EFFECTS[rng.randrange(len(EFFECTS))]
        has_eft = rng.random() < 0.75
        n = rng.randint(1, 12)
        weights = [4, 3, 3, 3, 1, 1] if has_eft else [4, 4, 0, 0, 1, 1]
        outs = rng.choices(range(6), weights=weights, k=n)
        cases.append((effect, eidx, has_eft, outs, realise(outs, has_eft, rng), REQ, True, True, False, "random"))
    # C: empty policy, D: disabled, E: arity
    for effect, eidx in EFFECTS:
        for has_eft in (True, False):
            for use_fn in (False, True):
                cases.append((effect, eidx, has_eft, [], [], ("", "", ""), True, use_fn, True, "empty-match"))
                cases.append((effect, eidx, has_eft, [], [], REQ, True, use_fn, False, "empty-nomatch"))
                cases.append((effect, eidx, has_eft, [], [], ("", "", "x"), True, use_fn, False, "empty-nomatch"))
            for _ in range(6):
                n = rng.randint(0, 6)
                outs = rng.choices(range(6), weights=[3, 3, 3 if has_eft else 0, 3 if has_eft else 0, 1, 1], k=n)
                rules = realise(outs, has_eft, rng)
                cases.append((effect, eidx, has_eft, outs, rules, REQ, False, True, False, "disabled"))
                bad_req = REQ[:2] if rng.random() < 0.5 else REQ + ("extra",)
                cases.append((effect, eidx, has_eft, outs, rules, bad_req, True, True, False, "arity"))
                cases.append((effect, eidx, has_eft, outs, rules, (), True, True, False, "arity"))

    n_plain = len(cases)
    # F: the effect expression under test is the model's SECOND effect definition (e2), selected through an
    #    EnforceContext, while the default definition e is a different one: every clause of the property (early
    #    exit, final verdict, explanation) must follow e2
    for effect, eidx in EFFECTS:
        for deff, didx in EFFECTS:
            if didx == eidx:
                continue
            for outs in all_sequences([NOMATCH, MALLOW, MDENY, MOTHER], max(2, maxlen - 2)):
                cases.append((effect, eidx, True, outs, realise(outs, True, None, allow_fn=False), REQ, True, False, False,
                              "context-e2", deff))
            for _ in range(max(10, nrandom // 100)):
                outs = rng.choices(range(6), weights=[4, 3, 3, 3, 1, 1], k=rng.randint(1, 10))
                cases.append((effect, eidx, True, outs, realise(outs, True, rng), REQ, True, True, False, "context-e2", deff))
            # ... also on an EMPTY policy (the matcher judged once against empty rule fields, combined by e2)
            cases.append((effect, eidx, True, [], [], ("", "", ""), True, False, True, "context-e2", deff))
            cases.append((effect, eidx, True, [], [], REQ, True, False, False, "context-e2", deff))
    # G: a user-registered function in the matcher that itself calls enforce() (nested request matching its own
    #    allow and deny rules): the nested call must not disturb the outer decision
    for _ in range(max(200, nrandom // 4)):
        effect, eidx = EFFECTS[rng.randrange(len(EFFECTS))]
        outs = rng.choices(range(4), weights=[3, 3, 3, 2], k=rng.randint(1, 8))
        rules = realise(outs, True, rng, allow_fn=True)
        outs, rules = list(outs), list(rules)
        for j, nr in enumerate(NESTED_RULES):
            k = rng.randrange(len(rules) + 1)
            rules.insert(k, list(nr) + [f"n{j}"])
            outs.insert(k, NOMATCH)
        cases.append((effect, eidx, True, outs, rules, REQ, True, rng.choice(["nest", "nest1"]), False, "reentrant-function"))

    reload_stratum(chk)

    # run implementation
    reqs_model, reqs_spec, obs_impl, sides = [], [], [], []
    for c in cases:
        (effect, eidx, has_eft, outs, rules, req, enabled, use_fn, em, label) = c[:10]
        obs, side = observe(effect, has_eft, rules, req, enabled, use_fn, default_effect=(c[10] if len(c) > 10 else None))
        obs_impl.append(obs)
        sides.append(side)
        arity_ok = len(req) == 3
        # without an effect column every match is Match Allow
        outs_m = outs
        reqs_model.append((1, [effect, enabled, arity_ok, outs_m, em]))
        reqs_spec.append((2, [eidx, outs_m]))
    if chk.oracle is None:
        chk.notes.append("oracle unavailable; correspondence not run")
        return
    rep_model = chk.oracle.query(reqs_model)
    rep_spec = chk.oracle.query(reqs_spec)

    for i, c in enumerate(cases):
        (effect, eidx, has_eft, outs, rules, req, enabled, use_fn, em, label) = c[:10]
        obs, side = obs_impl[i], sides[i]
        mod = rep_model[i]
        exp = spec_python(eidx, outs, enabled, len(req) == 3, em, rep_spec[i])
        case = dict(effect=effect, has_effect_column=has_eft, outcomes=outs, rules=rules, request=list(req),
                    enabled=enabled, fn_matcher=use_fn, stratum=label, default_effect=(c[10] if len(c) > 10 else None))
        if not explain:
            # C01 looks at the decision / exception only
            def strip(o):
                return [0, o[1][0]] if o[0] == 0 else o
            obs_c, mod_c, exp_c = strip(obs), strip(mod), strip(exp)
        else:
            obs_c, mod_c, exp_c = obs, mod, exp
        key = (eidx, has_eft, tuple(outs), enabled, len(req), em)
        nontrivial = enabled and len(req) == 3 and any(o != NOMATCH for o in outs)
        chk.count(key if nontrivial else None)
        if i % max(1, len(cases) // 6) == 0:
            chk.sample(dict(case=case, impl=obs, model=mod, spec=exp))
        if obs_c != exp_c:
            chk.spec_fail(case, obs, exp, "implementation decision differs from the spec of the effect expression")
        elif obs_c != mod_c:
            chk.disagree(case, obs, mod, where=f"enforce_ex on stratum {label}")
        # enforce / batch_enforce agree with enforce_ex (C08's last sentence; also guards C01's observation points)
        want = [0, obs[1][0]] if obs[0] == 0 else obs
        if side["enforce"] != want:
            chk.spec_fail(case, side["enforce"], want, "enforce() differs from enforce_ex()[0]")
        wantb = [0, [obs[1][0]] * 2] if obs[0] == 0 else obs
        if side["batch"] != wantb:
            chk.spec_fail(case, side["batch"], wantb, "batch_enforce() differs from enforce()")
        if side["stored_len"] != len(rules):
            chk.disagree(case, side["stored_len"], len(rules), where="harness: rule not stored (duplicate?)")
    chk.traces += len(cases)
    chk.extra["strata"] = dict(exhaustive=n_exh, random=nrandom, other=n_plain - n_exh - nrandom,
                               context_e2=sum(1 for c in cases if c[9] == "context-e2"),
                               reentrant_function=sum(1 for c in cases if c[9] == "reentrant-function"))
    chk.extra["exhaustive_maxlen"] = maxlen
    chk.exhaustive = True
    # cross-check extraction against the kernel on a sample
    k = 150 if chk.tier == "quick" else 1500
    idx = sorted(rng.sample(range(len(cases)), min(k, len(cases))))
    ok, n, log = __import__("harness.core", fromlist=["vm_crosscheck"]).vm_crosscheck(
        chk.prop, "From PyCasbin Require Import Base EnforceInst.", "oracle_C01",
        [reqs_model[i] for i in idx] + [reqs_spec[i] for i in idx],
        [rep_model[i] for i in idx] + [rep_spec[i] for i in idx])
    chk.vm_checked = n
    if not ok:
        chk.disagree(dict(kind="extraction-vs-vm_compute"), "extracted oracle", log, where="vm_compute cross-check")


def reload_stratum(chk):
    """'a disabled enforcer allows everything' - also after the model and/or the policy are reloaded or replaced while
    it is disabled (the switch is the user's, not part of the model).  Implementation-level SPEC on an enforcer built
    from files."""
    import os
    import tempfile
    import casbin
    from ..enforce_cases import MODEL, PLAIN_MATCHER
    n = 0
    with tempfile.TemporaryDirectory(prefix="c01_") as d:
        pol = os.path.join(d, "policy.csv")
        with open(pol, "w") as f:
            f.write("p, alice, data1, read, deny, t0\np, bob, data2, write, allow, t1\n")
        for effect, eidx in EFFECTS:
            if effect.startswith("subjectPriority"):
                continue                      # needs a role definition to be loadable from an adapter (C07's models)
            mp = os.path.join(d, f"model{eidx}_{n}.conf")
            with open(mp, "w") as f:
                f.write(MODEL.format(pdef="sub, obj, act, eft, tag", effect=effect, e2="", matcher=PLAIN_MATCHER))
            for steps in (["load_model"], ["load_policy"], ["load_model", "load_policy"], ["clear_policy"],
                          ["load_policy", "load_model", "load_policy"], ["set_model"], ["build_role_links"]):
                e = casbin.Enforcer(mp, pol)
                e.enable_enforce(False)
                for st in steps:
                    if st == "set_model":
                        m2 = e.new_model(mp)
                        e.set_model(m2)
                    else:
                        getattr(e, st)()
                n += 1
                chk.count(("disabled-reload", eidx, tuple(steps)))
                for req in (("alice", "data1", "read"), ("nobody", "x", "y"), ("bob", "data2", "write")):
                    try:
                        got = e.enforce_ex(*req)
                        got = [bool(got[0]), list(got[1])]
                    except Exception as exc:  # noqa
                        got = ["raise", type(exc).__name__]
                    if got != [True, []]:
                        chk.spec_fail(dict(stratum="disabled-survives-reload", effect=effect, steps_while_disabled=steps,
                                           policy=open(pol).read(), request=list(req)), got, [True, []],
                                      "a disabled enforcer did not allow a request after the model/policy was reloaded")
                        break
    chk.extra.setdefault("strata_extra", {})["disabled_reload_cases"] = n


def replay(chk, explain):
    """re-run one recorded case on the implementation, the oracle (model + spec) and print the verdict"""
    import json
    rec = json.load(open(chk.replay_file))
    c = rec.get("case") or {}
    if "outcomes" not in c:
        print("replay file names a broken theorem/correspondence, not an input:", json.dumps(rec.get("broken"))[:800])
        sys.exit(1)
    eidx = dict(EFFECTS)[c["effect"]]
    obs, side = observe(c["effect"], c["has_effect_column"], c["rules"], tuple(c["request"]), c["enabled"], c["fn_matcher"],
                        default_effect=c.get("default_effect"))
    em = all(x == "" for x in c["request"]) if not c["rules"] else False
    mod = chk.oracle.query([(1, [c["effect"], c["enabled"], len(c["request"]) == 3, c["outcomes"], em])])[0]
    sp = chk.oracle.query([(2, [eidx, c["outcomes"]])])[0]
    exp = spec_python(eidx, c["outcomes"], c["enabled"], len(c["request"]) == 3, em, sp)
    if not explain:
        f = lambda o: [0, o[1][0]] if o[0] == 0 else o
        obs, mod, exp = f(obs), f(mod), f(exp)
    print(f"replay: impl={obs} model={mod} spec={exp}")
    if obs != exp:
        print(f"VIOLATION property={chk.prop} replay={chk.replay_file}")
        sys.exit(1)
    print("replay passes: implementation agrees with the spec on this input")
    sys.exit(0)


def main(prop=PROP, explain=False):
    chk = Check(prop)
    chk.rule = ("outcome sequences over {nomatch, match+allow, match+deny, match+other, bad-size, bad-type} realised as "
                "real policies (unique tag per rule) x 5 effect expressions x with/without effect column; exhaustive up "
                "to the stated length + random up to length 12 + empty-policy / disabled / arity strata + the effect given as "
                "second definition e2 through an EnforceContext (all pairs default/e2) + a matcher function that re-enters "
                "enforce(); a case is "
                "non-trivial when the enforcer is enabled, arity fits and at least one rule matches or errs; distinct "
                "by (effect, column, outcome sequence)")
    chk.assumptions = [
        "per-rule outcome abstraction: how a matcher text yields match/no-match is C02, not C01",
        "translator translators/effectors.py renders the accepted Python subset faithfully (fail-closed otherwise)",
        "custom effectors installed through set_effector are outside the property (five documented expressions)",
    ]
    chk.trusted = ["translator: translators/effectors.py (Python ast -> coq/gen/EffectorsGen.v, regenerated on this run)"]
    chk.build(translators=["effectors"])
    if chk.replay_file:
        return replay(chk, explain)
    if chk.tier == "thorough":
        run(chk, 7, 20000, explain)
    else:
        run(chk, 5, 2500, explain)
        if (chk.broken() or chk.anchor_changed) and not chk.spec_failures:
            # escalate the search for a failing input before giving up
            chk.notes.append("escalated to thorough budget after a broken proof/correspondence")
            run(chk, 6, 10000, explain)
    chk.finish()


if __name__ == "__main__":
    main()
