"""C02 — a rule matches exactly when the matcher expression is true of request and rule.
Proof: Props/C02.v (the repository's textual pipeline maps every admissible spacing of a well-formed
Casbin token list to the corresponding Python token list; comment / continuation / eval-splice lemmas).
Correspondence: random ASTs of the grammar x layouts x model shapes x policies/requests through the
REAL Enforcer, against (a) the model (pipeline -> py_lex -> parser -> evaluator) and (b) the SPEC
(eval_expr on the AST + C01's spec_decision).  Also: the real Python tokenizer on the real pipeline
output against py_lex of the model, and the metamorphic statement (all layouts decide alike)."""
import io
import json
import sys
import tokenize

from .. import core
from ..core import Check, ERR
from ..c02_util import (LAYOUTS, SHAPES, SHAPE_BY_NAME, USER_FNS, EFFECT_TEXT, Gen, bracket_last_line, expr_from_json,
                        expr_to_json, gen_grouping, gen_request, gen_rule, has_eval, matcher_lines, model_req,
                        model_text, run_real, spec_req, sub_conditions, tokens_of, value_desc, value_from_desc,
                        wire_tok, depth_of, R, P, S, EQ, AND, CMP_TEXT, SUBS, OBJS, run_real_seq, world_oracle_reqs, world_text,
                        ts_cases, ts_judge)

PROP = "C02"
F_BRACKET = "C02-continuation-bracket-line"
F_CTX = "C02-context-effect"      # listed as "fixed"; the fingerprint below only matters if it is ever re-listed as "known"


def ctx_effect_fingerprint(chk, c1, impl_obs):
    """the failing single-request case is explained by 'the effect definition of the enforce context is ignored':
    context shape, e<sfx> differs from e, and the implementation answers what the spec says under the plain e"""
    sh = SHAPE_BY_NAME[c1["shape"]]
    if not sh.sfx or c1.get("etype") is not None or c1["effect"] == 0:
        return False
    d = dict(c1)
    d["effect"] = 0
    return chk.oracle.query(oracle_reqs(d)[1]) == impl_obs


# ------------------------------------------------------------------------------ cases
def mk_case(sh, ast, mode, lines, rules, subs, grouping, user, reqs, eff, etype=None, stratum="random", gaps=None):
    return dict(gaps=gaps, shape=sh.name, ast=expr_to_json(ast), layout=mode, lines=list(lines), rules=[list(r) for r in rules],
                subs=[{f: expr_to_json(x) for f, x in sb.items()} for sb in subs], grouping=grouping,
                user_fns=list(user), requests=[[value_desc(v) for v in r] for r in reqs], effect=eff,
                etype=etype, stratum=stratum)


def case_parts(c):
    sh = SHAPE_BY_NAME[c["shape"]]
    ast = expr_from_json(c["ast"])
    subs = [{f: expr_from_json(x) for f, x in sb.items()} for sb in c["subs"]]
    reqs = [[value_from_desc(v) for v in r] for r in c["requests"]]
    text = model_text(sh, "m" + sh.sfx, c["lines"], c["effect"])
    return sh, ast, subs, reqs, text


def fixed_cases(rng):
    """regression strata: the F20 witness, the enforce-context effect witness, the bracket-line witness,
    every shape's documented example matcher under every layout"""
    out = []
    acl = SHAPE_BY_NAME["acl"]
    ast = AND(EQ(R("sub"), P("sub")), EQ(R("obj"), P("obj")))
    rules = [["alice", "data1", "read"]]
    reqs = [["alice", "data1", "read"], ["bob", "data1", "read"]]
    out.append(mk_case(acl, ast, "none", ["m = r.sub==p.sub&&r.obj==p.obj"], rules, [{}], {}, [], reqs, 0,
                       stratum="fixed-F20"))
    out.append(mk_case(acl, (0, (2, (7, EQ(R("sub"), P("sub")))), EQ(R("obj"), S("x"))), "none",
                       ['m = !(r.sub==p.sub)||r.obj=="x"'], rules, [{}], {}, [], reqs, 0, stratum="fixed-F20"))
    ctx = SHAPE_BY_NAME["ctx2"]
    a2 = ctx.seeds[0]
    t2 = tokens_of(a2)
    l2, _ = matcher_lines("m2", t2, "wide", rng)
    r2 = [["alice", "data1", "read", "deny"], ["bob", "data1", "read", "allow"]]
    q2 = [["alice", "data1", "read"], ["carol", "data1", "read"], ["bob", "data1", "read"]]
    for eff in (1, 2, 3, 0):
        out.append(mk_case(ctx, a2, "wide", l2, r2, [{}, {}], {}, [], q2, eff, stratum="fixed-context-effect"))
    # context whose etype is set back to "e" (tests/test_enforcer.py does this): the plain effect applies
    out.append(mk_case(ctx, a2, "wide", l2, r2, [{}, {}], {}, [], q2, 0, etype="e", stratum="fixed-context-effect"))
    rb = SHAPE_BY_NAME["rbac"]
    a3 = (0, rb.seeds[0], (4, R("obj"), [S("data2", False), S("data3", False)], True))
    out.append(mk_case(rb, a3, "cont",
                       ["m = g(r.sub, p.sub) && r.obj == p.obj && r.act == p.act || r.obj in \\", "    ['data2', 'data3']"],
                       [["admin", "data1", "read"]], [{}], {"g": [["alice", "admin"]]}, [],
                       [["alice", "data1", "read"], ["bob", "data2", "read"]], 0, stratum="fixed-bracket-line"))
    for sh in SHAPES:
        for seed in sh.seeds:
            gs = Gen(rng, sh, False, [])
            for mode in LAYOUTS:
                rules, subs = [], []
                for _ in range(3):
                    r, sb = gen_rule(rng, sh, lambda: gs.expr(1))
                    if r not in rules:
                        rules.append(r)
                        subs.append(sb)
                lines, _ = matcher_lines("m" + sh.sfx, tokens_of(seed), mode, rng)
                reqs = [gen_request(rng, sh) for _ in range(3)]
                out.append(mk_case(sh, seed, mode, lines, rules, subs, gen_grouping(rng, sh), [], reqs,
                                   rng.choice(sh.effects), stratum="fixed-shape-example"))
    return out


def random_cases(rng, n_asts, maxdepth):
    out = []
    for _ in range(n_asts):
        sh = rng.choice(SHAPES)
        user = [f for f in USER_FNS if rng.random() < 0.7]
        g = Gen(rng, sh, True, user)
        gs = Gen(rng, sh, False, user)
        ast = g.expr(rng.randint(1, maxdepth))
        if sh.eval_fields and not has_eval(ast) and rng.random() < 0.7:
            ast = (1, (6, sh.sfx, rng.choice(sh.eval_fields)), (7, ast))
        rules, subs = [], []
        for _ in range(rng.choice([0, 1, 1, 2, 3])):
            r, sb = gen_rule(rng, sh, lambda: gs.expr(rng.choice([0, 1, 2])))
            if r not in rules:
                rules.append(r)
                subs.append(sb)
        grouping = gen_grouping(rng, sh)
        reqs = [gen_request(rng, sh) for _ in range(3)]
        eff = rng.choice(sh.effects)
        toks = tokens_of(ast)
        for mode in LAYOUTS:
            lines, info = matcher_lines("m" + sh.sfx, toks, mode, rng)
            out.append(mk_case(sh, ast, mode, lines, rules, subs, grouping, user, reqs, eff, gaps=info.get("gaps")))
    return out


# ------------------------------------------------------------------------------ real tokenizer
PY_OPS = {"(": [5], ")": [6], "[": [7], "]": [8], ",": [9], ".": [21]}
PY_KW = {"and": [18], "or": [19], "not": [20], "in": [4]}


def real_python_tokens(text):
    """tokens of Python's own tokenizer for `text`, in the shape of MatcherText.vtoks (decoded), or None"""
    out = []
    try:
        for t in tokenize.generate_tokens(io.StringIO(text).readline):
            if t.type in (tokenize.NEWLINE, tokenize.NL, tokenize.ENDMARKER):
                continue
            if t.type == tokenize.NAME:
                out.append(PY_KW.get(t.string) or [15, [ord(c) for c in t.string]])
            elif t.type == tokenize.NUMBER:
                if not t.string.isdigit():
                    return None
                out.append([14, [ord(c) for c in t.string]])
            elif t.type == tokenize.STRING:
                s = t.string
                if s[0] not in "\"'" or "\\" in s or len(s) < 2 or s[:3] in ('"""', "'''") and len(s) >= 6:
                    return None
                out.append([13, int(s[0] == '"'), [ord(c) for c in s[1:-1]]])
            elif t.type == tokenize.OP:
                if t.string in PY_OPS:
                    out.append(PY_OPS[t.string])
                elif t.string in CMP_TEXT:
                    out.append([3, CMP_TEXT.index(t.string)])
                else:
                    return None
            else:
                return None
    except (tokenize.TokenError, SyntaxError, IndentationError):
        return None
    return out


def tr_expected(toks):
    """flat_map tr on the Python twin tokens, wire shape"""
    out = []
    for t in toks:
        k = t[0]
        if k == "&&":
            out.append([18])
        elif k == "||":
            out.append([19])
        elif k == "!":
            out.append([20])
        elif k == "r":
            out.append([15, [ord(c) for c in "r" + t[1] + "_" + t[2]]])
            for a in t[3]:
                out.append([21])
                out.append([15, [ord(c) for c in a]])
        elif k == "p":
            out.append([15, [ord(c) for c in "p" + t[1] + "_" + t[2]]])
        else:
            out.append(wire_tok(t))
    return out


def real_final_text(text, key):
    """what the repository hands to ast.parse for an eval-free matcher: stored value -> _get_expression -> strip"""
    import casbin
    from casbin.model import Model
    m = Model()
    m.load_model_from_text(text)
    return casbin.Enforcer._get_expression(m["m"][key].value, {}).expr.strip()


# ------------------------------------------------------------------------------ mixed definition suffixes
def stratum_mixed_suffix(chk):
    """an EnforceContext may combine ANY request definition with ANY policy definition (r with p2, r2 with p, r3
    with p2 ...): the matcher then mentions two different suffixes.  For all 9 combinations over suffixes '', 2, 3
    and three layouts: (a) SPEC - the equality matcher allows exactly the stored triples; (b) Python's tokenizer on
    the repository's pipeline output = py_lex of the modelled pipeline = the translated tokens."""
    import casbin
    from casbin.model import Model
    sfx = ["", "2", "3"]
    combos = [(a, b) for a in sfx for b in sfx]
    layouts = ["{r}.sub == {p}.sub && {r}.obj == {p}.obj && {r}.act == {p}.act",
               "{r}.sub=={p}.sub&&{r}.obj=={p}.obj&&{r}.act=={p}.act",
               "( {r}.sub == {p}.sub )&&  {r}.obj=={p}.obj && ! ({r}.act != {p}.act)"]
    n = 0
    for li, lay in enumerate(layouts):
        keys = {}
        L = ["[request_definition]"] + [f"r{x} = sub, obj, act" for x in sfx]
        L += ["[policy_definition]"] + [f"p{x} = sub, obj, act" for x in sfx]
        L += ["[policy_effect]", "e = some(where (p.eft == allow))", "[matchers]"]
        for i, (a, b) in enumerate(combos):
            k = "m" + ("" if i == 0 else str(i + 1))
            keys[(a, b)] = k
            L.append(f"{k} = " + lay.format(r="r" + a, p="p" + b))
        text = "\n".join(L) + "\n"
        m = Model()
        m.load_model_from_text(text)
        e = casbin.Enforcer(m)
        for b in sfx:
            e.add_named_policy("p" + b, "alice", "data" + (b or "1"), "read")
        for (a, b), k in keys.items():
            n += 1
            chk.count(("mixed-suffix", li, a, b))
            ctx = e.new_enforce_context("2")
            ctx.rtype, ctx.ptype, ctx.etype, ctx.mtype = "r" + a, "p" + b, "e", k
            case = dict(stratum="mixed-suffix", model_text=text, context=dict(rtype="r" + a, ptype="p" + b, etype="e", mtype=k),
                        policy={"p" + x: [["alice", "data" + (x or "1"), "read"]] for x in sfx})
            for req, want in ((["alice", "data" + (b or "1"), "read"], True), (["alice", "data" + (b or "1"), "write"], False),
                              (["bob", "data" + (b or "1"), "read"], False)):
                try:
                    got = bool(e.enforce(ctx, *req))
                except Exception as exc:  # noqa
                    got = "raise:" + type(exc).__name__
                if got != want:
                    chk.spec_fail(dict(case, request=req), got, want,
                                  "a matcher combining request definition r%s with policy definition p%s does not decide by "
                                  "its expression" % (a, b))
                    break
            v = lay.format(r="r" + a, p="p" + b)
            try:
                real = real_python_tokens(casbin.Enforcer._get_expression(m["m"][k].value, {}).expr.strip())
            except Exception as exc:  # noqa
                real = ["EXC", type(exc).__name__]
            r3 = chk.oracle.query([(3, [v])])[0] if chk.oracle else None
            if r3 is not None and [real] != r3:
                chk.disagree(dict(case, matcher=v), real, r3,
                             where="mixed suffixes: py_lex (modelled pipeline) differs from Python's tokenizer on the real pipeline output")
    chk.extra["mixed_suffix_cases"] = n


# ------------------------------------------------------------------------------ one enforcer, several worlds
def _new_rules(rng, sh, gs, n):
    rules, subs = [], []
    for _ in range(n):
        r, sb = gen_rule(rng, sh, lambda: gs.expr(rng.choice([0, 1, 2])))
        if r not in rules:
            rules.append(r)
            subs.append(sb)
    return rules, subs


def _aimed_request(rng, sh, rules):
    """a request built from a stored rule's own fields (string-typed request fields only), else a random one"""
    if rules and all(sh.types.get(f, "str") == "str" for f in sh.rdef) and all(f in sh.pdef for f in sh.rdef):
        r = rng.choice(rules)
        return [r[sh.pdef.index(f)] for f in sh.rdef]
    return gen_request(rng, sh)


def sequence_cases(rng, n):
    """random sequences of worlds on ONE enforcer: between two worlds exactly one thing changes - the policy, the role
    assignments (optionally after the role manager objects were replaced), the registered functions, the matcher
    (set_model), the definitions asked (plain m, then m2 through a context), or the user functions start asking the
    enforcer a nested question"""
    out = []
    for _ in range(n):
        sh = rng.choice(SHAPES)
        allf = sorted(USER_FNS)
        g = Gen(rng, sh, True, allf)
        gs = Gen(rng, sh, False, allf)

        def fresh_matcher():
            ast = g.expr(rng.randint(1, 3))
            if sh.eval_fields and not has_eval(ast) and rng.random() < 0.7:
                ast = (1, (6, sh.sfx, rng.choice(sh.eval_fields)), (7, ast))
            mode = rng.choice(LAYOUTS)
            lines, _ = matcher_lines("m" + sh.sfx, tokens_of(ast), mode, rng)
            if bracket_last_line(lines):                 # the listed finding's layout is the layout strata's business
                mode = "wide"
                lines, _ = matcher_lines("m" + sh.sfx, tokens_of(ast), mode, rng)
            return ast, mode, lines
        ast, mode, lines = fresh_matcher() if rng.random() < 0.7 else (sh.seeds[0], "wide", matcher_lines("m" + sh.sfx, tokens_of(sh.seeds[0]), "wide", rng)[0])
        rules, subs = _new_rules(rng, sh, gs, rng.choice([1, 2, 3]))
        w = mk_case(sh, ast, mode, lines, rules, subs, gen_grouping(rng, sh), [f for f in allf if rng.random() < 0.4],
                    [_aimed_request(rng, sh, rules) if rng.random() < 0.5 else gen_request(rng, sh) for _ in range(3)],
                    rng.choice(sh.effects), stratum="one-enforcer-sequence")
        worlds = [w]
        for _ in range(rng.randint(2, 4)):
            w = dict(worlds[-1])
            for k in ("via", "swap_rm", "ask", "reenter"):
                w.pop(k, None)
            kinds = ["policy", "policy", "functions", "matcher", "reenter"]
            if sh.gdefs:
                kinds += ["grouping", "grouping", "swap_rm", "swap_rm"]
            if sh.sfx:
                kinds += ["plain", "plain"]
            kind = rng.choice(kinds)
            if kind == "policy":
                keep = [k for k in range(len(w["rules"])) if rng.random() < 0.6]
                nr, ns = _new_rules(rng, sh, gs, rng.choice([0, 1, 2]))
                rules = [w["rules"][k] for k in keep]
                subs = [w["subs"][k] for k in keep]
                for r, sb in zip(nr, ns):
                    if r not in rules:
                        rules.append(r)
                        subs.append({f: expr_to_json(x) for f, x in sb.items()})
                w["rules"], w["subs"] = rules, subs
            elif kind in ("grouping", "swap_rm"):
                w["swap_rm"] = kind == "swap_rm" or rng.random() < 0.3
                ng = gen_grouping(rng, sh)
                w["grouping"] = {k: [r for r in w["grouping"].get(k, []) if rng.random() < 0.5] +
                                 [r for r in ng[k] if r not in w["grouping"].get(k, [])][:2] for k in ng}
            elif kind == "functions":
                missing = [f for f in allf if f not in w["user_fns"]]
                if missing:
                    w["user_fns"] = sorted(w["user_fns"] + [rng.choice(missing)])
            elif kind == "matcher":
                ast, mode, lines = fresh_matcher()
                w["ast"], w["layout"], w["lines"], w["via"] = expr_to_json(ast), mode, list(lines), "set_model"
                # the effect expression stays: set_model does not rebuild the enforcer's effector, and no property says it should
                if rng.random() < 0.5:
                    w["user_fns"] = [f for f in allf if rng.random() < 0.5]
            elif kind == "reenter":
                w["reenter"] = [value_desc(v) for v in _aimed_request(rng, sh, w["rules"])]
                if not w["user_fns"]:
                    w["user_fns"] = list(allf)
                    w["via"] = None
            elif kind == "plain":
                w["ask"] = "plain"
                w["plain_rules"] = [[rng.choice(["alice", "bob"]), rng.choice(["data1", "data2"]), rng.choice(["read", "write"])]
                                    for _ in range(rng.randint(0, 3))]
                w["plain_rules"] = [r for k, r in enumerate(w["plain_rules"]) if r not in w["plain_rules"][:k]]
            if kind == "plain":
                w["requests"] = [list(rng.choice(w["plain_rules"])) if w["plain_rules"] and rng.random() < 0.6 else
                                 [rng.choice(["alice", "bob"]), rng.choice(["data1", "data2"]), rng.choice(["read", "write"])]
                                 for _ in range(3)]
            else:
                rs = [r for r in w["rules"]]
                w["requests"] = [[value_desc(v) for v in (_aimed_request(rng, sh, rs) if rng.random() < 0.5 else gen_request(rng, sh))]
                                 for _ in range(3)]
            worlds.append(w)
        out.append(dict(stratum="one-enforcer-sequence", worlds=worlds))
    return out


def reentrant_cases(rng):
    """every string-typed shape, its documented matcher with the subject comparison done by a user function (first,
    in the middle, last): the same world is asked twice - quietly, and with the user function asking the enforcer a
    nested question about a request that another rule decides"""
    out = []
    for sh in SHAPES:
        if not all(sh.types.get(f, "str") == "str" for f in sh.rdef) or sh.eval_fields:
            continue
        s = sh.sfx
        fn = (5, "eqf", [R("sub", sfx=s), P("sub", sfx=s)])
        rest = [EQ(R(f, sfx=s), P(f, sfx=s)) for f in sh.rdef if f != "sub"]
        for order in (0, 1, len(rest)):
            ast = AND(*(rest[:order] + [fn] + rest[order:]))
            for mode in ("none", "wide"):
                lines, _ = matcher_lines("m" + s, tokens_of(ast), mode, rng)
                gs = Gen(rng, sh, False, [])
                for _ in range(3):
                    rules, subs = _new_rules(rng, sh, gs, 3)
                    reqs = [[r[sh.pdef.index(f)] for f in sh.rdef] for r in rules]
                    # requests that differ from a stored rule in exactly one field
                    for r in list(reqs):
                        k = rng.randrange(len(r))
                        alt = [x[k] for x in reqs if x[k] != r[k]]
                        if alt:
                            reqs.append(r[:k] + [rng.choice(alt)] + r[k + 1:])
                    w1 = mk_case(sh, ast, mode, lines, rules, subs, {g: [] for g, _ in sh.gdefs}, ["eqf"], reqs,
                                 rng.choice(sh.effects), stratum="reentrant-user-function")
                    w2 = dict(w1)
                    w2["reenter"] = list(rng.choice(reqs[:len(rules)]))
                    out.append(dict(stratum="reentrant-user-function", worlds=[w1, w2]))
                    out.append(dict(stratum="reentrant-user-function", worlds=[w2]))
    return out


def role_manager_cases(rng):
    """every shape with role definitions, its documented matcher: asked, then the role manager objects are replaced
    (set_named_role_manager + build_role_links) and the assignments change; g()/g2() follow the CURRENT assignments"""
    out = []
    for sh in SHAPES:
        if not sh.gdefs:
            continue
        ast = sh.seeds[0]
        for mode in ("none", "wide"):
            lines, _ = matcher_lines("m" + sh.sfx, tokens_of(ast), mode, rng)
            gs = Gen(rng, sh, False, [])
            for _ in range(6):
                rules, subs = _new_rules(rng, sh, gs, 3)
                g1 = gen_grouping(rng, sh)
                for g, ar in sh.gdefs:                       # an assignment that makes some rule's subject/object a role
                    r = rng.choice(rules)
                    member = rng.choice(OBJS if g == "g2" else SUBS)
                    role = r[sh.pdef.index("obj" if g == "g2" else "sub")]
                    link = [member, role] + ([r[sh.pdef.index("dom")]] if ar == 3 else [])
                    if member != role and link not in g1[g]:
                        g1[g].append(link)
                reqs = [gen_request(rng, sh) for _ in range(2)]
                for g, ar in sh.gdefs:
                    for link in g1[g][-2:]:
                        r = rng.choice(rules)
                        q = [r[sh.pdef.index(f)] for f in sh.rdef]
                        q[sh.rdef.index("obj" if g == "g2" else "sub")] = link[0]
                        reqs.append(q)
                w1 = mk_case(sh, ast, mode, lines, rules, subs, g1, [], reqs, rng.choice(sh.effects), stratum="role-manager-replaced")
                ng = gen_grouping(rng, sh)
                w2 = dict(w1, swap_rm=True, grouping={g: [l for l in g1[g] if rng.random() < 0.5] + [l for l in ng[g] if l not in g1[g]][:1]
                                                      for g, _ in sh.gdefs})
                w3 = dict(w2, swap_rm=rng.random() < 0.5, grouping={g: list(g1[g]) for g, _ in sh.gdefs})
                out.append(dict(stratum="role-manager-replaced", worlds=[w1, w2, w3]))
                out.append(dict(stratum="role-manager-replaced", worlds=[dict(w1, swap_rm=True), w2]))
    return out


def seq_parts(sc):
    """per world: (ast, subs, request values) - built ONCE so that implementation and oracle see the same objects"""
    parts = []
    for c in sc["worlds"]:
        ast = expr_from_json(c["ast"])
        subs = [{f: expr_from_json(x) for f, x in sb.items()} for sb in c["subs"]]
        reqs = [[value_from_desc(v) for v in r] for r in c["requests"]]
        parts.append((ast, subs, reqs))
    return parts


def judge_sequences(chk, seqs):
    """returns per sequence the list of (world index, request index, impl, spec, model) that differ from the spec
    (first element) / from the model only (second), and the harness note"""
    runs, mq, sq = [], [], []
    for sc in seqs:
        parts = seq_parts(sc)
        obs, note = run_real_seq(sc["worlds"], lambda i: parts[i][2])
        runs.append((obs, note))
        for c, (ast, subs, reqs) in zip(sc["worlds"], parts):
            m_, s_ = world_oracle_reqs(c, reqs, subs, ast)
            mq += m_
            sq += s_
    mrep = chk.oracle.query(mq)
    srep = chk.oracle.query(sq)
    res, k = [], 0
    for sc, (obs, note) in zip(seqs, runs):
        bad, differ = [], []
        for wi, c in enumerate(sc["worlds"]):
            for ri in range(len(c["requests"])):
                o, m, s = obs[wi][ri], mrep[k], srep[k]
                k += 1
                if any(isinstance(x, list) and x[:1] == [999] and x[1] in (ERR["EFuel"], 40) for x in (m, s)):
                    continue
                if o != s:
                    bad.append((wi, ri, o, s, m))
                elif o != m:
                    differ.append((wi, ri, o, s, m))
        res.append((bad, differ, note))
    return res


def shrink_sequence(chk, sc, wi, ri):
    """cut the sequence after the failing world, keep only the failing request there, then drop earlier worlds and
    rules while it still fails at the last world"""
    worlds = [dict(w) for w in sc["worlds"][:wi + 1]]
    worlds[-1]["requests"] = [worlds[-1]["requests"][ri]]

    def fails(ws):
        try:
            bad, _, _ = judge_sequences(chk, [dict(sc, worlds=ws)])[0]
        except Exception:  # noqa
            return False
        return any(b[0] == len(ws) - 1 for b in bad)
    if not fails(worlds):
        return sc, wi, ri
    budget = 30
    j = len(worlds) - 2
    while j >= 0 and budget > 0:
        cand = worlds[:j] + worlds[j + 1:]
        budget -= 1
        if fails(cand):
            worlds = cand
        j -= 1
    for j in range(len(worlds) - 1):
        if budget <= 0:
            break
        cand = [dict(w) for w in worlds]
        cand[j]["requests"] = cand[j]["requests"][:1]
        budget -= 1
        if fails(cand):
            worlds = cand
    return dict(sc, worlds=worlds), len(worlds) - 1, 0


def stratum_sequences(chk, n):
    rng = chk.rng
    seqs = sequence_cases(rng, n) + reentrant_cases(rng) + role_manager_cases(rng)
    counts = {}
    reported = set()
    for sc, (bad, differ, note) in zip(seqs, judge_sequences(chk, seqs)):
        counts[sc["stratum"]] = counts.get(sc["stratum"], 0) + 1
        nreq = sum(len(w["requests"]) for w in sc["worlds"])
        chk.count((sc["stratum"], json.dumps([(w["lines"], w["rules"], w["grouping"], w.get("via"), w.get("swap_rm"),
                                                w.get("reenter"), w.get("ask")) for w in sc["worlds"]], default=str)), n=nreq)
        if bad and sc["stratum"] not in reported:
            reported.add(sc["stratum"])
            wi, ri = bad[0][0], bad[0][1]
            small, wi2, ri2 = shrink_sequence(chk, sc, wi, ri)
            b2 = [b for b in judge_sequences(chk, [small])[0][0]]
            if b2:
                sc, (wi, ri, o, s, m) = small, b2[-1]
            else:
                wi, ri, o, s, m = bad[0]
            w = sc["worlds"][wi]
            how = ("after " + ", ".join(x for x in (
                "set_model" if w.get("via") == "set_model" else "", "role managers replaced" if w.get("swap_rm") else "",
                "a nested question from a user function" if w.get("reenter") is not None else "",
                "a request without context" if w.get("ask") == "plain" else "") if x)) if any(
                (w.get("via"), w.get("swap_rm"), w.get("reenter") is not None, w.get("ask"))) else "after policy / function-table changes"
            chk.spec_fail(dict(sc, failing_world=wi, failing_request=ri), o, s,
                          "on an enforcer that has answered requests before, the decision differs from the value of the CURRENT "
                          f"matcher expression on the current request, rules, role assignments and functions ({how})")
        elif differ and not bad:
            wi, ri, o, s, m = differ[0]
            chk.disagree(dict(sc, failing_world=wi, failing_request=ri), o, m, where=f"enforce on stratum {sc['stratum']}")
        if note:
            chk.disagree(sc, note, "rules stored as given", where="harness premise (one-enforcer sequences)")
    chk.traces += len(seqs)
    return counts


# ------------------------------------------------------------------------------ run
def stratum_role_manager_owned_links(chk):
    """g()/g2() in a matcher ARE the role manager's has_link, whoever put the links there: links added straight on the
    enforcer's role manager, or held by a role manager the application installed (set_role_manager), with NO grouping rule
    of that type stored; then one grouping rule is added and removed again.  SPEC: a rule takes part exactly when the matcher
    is true with g(a, b) = <the current role manager>.has_link(a, b)."""
    import casbin
    from casbin.rbac import default_role_manager as drm
    text = """[request_definition]
r = sub, obj, act
[policy_definition]
p = sub, obj, act
[role_definition]
g = _, _
g2 = _, _
[policy_effect]
e = some(where (p.eft == allow))
[matchers]
m = g(r.sub, p.sub) && g2(r.obj, p.obj) && r.act == p.act
"""

    class DirectoryRM(drm.RoleManager):
        """roles come from a directory the application owns, not from grouping rules"""
        def __init__(self, table):
            super().__init__(10)
            self.table = table

        def has_link(self, a, b, *d):
            return a == b or (a, b) in self.table

    rules = [["admin", "data_group", "read"], ["bob", "data2", "write"]]
    subs, objs = ["alice", "bob", "admin", "carol"], ["data1", "data2", "data_group"]
    n = 0

    def judge(e, label, setup):
        nonlocal n
        rm, rm2 = e.get_role_manager(), e.get_named_role_manager("g2")
        for s_ in subs:
            for o_ in objs:
                for a_ in ("read", "write"):
                    want = any(rm.has_link(s_, r[0]) and rm2.has_link(o_, r[1]) and a_ == r[2] for r in e.get_policy())
                    got = e.enforce(s_, o_, a_)
                    n += 1
                    chk.count(("rm-owned-links", label, s_, o_, a_))
                    if got != want:
                        chk.spec_fail(dict(stratum="role-manager-owned-links", setup=setup, state=label, policy=e.get_policy(),
                                           grouping=e.get_grouping_policy(), request=[s_, o_, a_]), got, want,
                                      "the decision is not the matcher evaluated with g()/g2() = has_link of the enforcer's current role managers")
                        return False
        return True

    for setup in ("add_link on the built-in managers", "set_role_manager(directory-backed manager)"):
        e = casbin.Enforcer(casbin.Enforcer.new_model(text=text))
        e.add_policies(rules)
        if setup.startswith("add_link"):
            e.get_role_manager().add_link("alice", "admin")
            e.get_named_role_manager("g2").add_link("data1", "data_group")
        else:
            e.set_role_manager(DirectoryRM({("alice", "admin"), ("carol", "admin")}))
            e.build_role_links()          # the documented way to make a newly installed role manager the one g() consults
            e.get_named_role_manager("g2").add_link("data1", "data_group")
        ok = judge(e, "no grouping rule stored", setup)
        if ok:
            e.enable_auto_build_role_links(True)
            e.add_named_grouping_policy("g2", "data2", "data_group")
            ok = judge(e, "one g2 rule added", setup)
        if ok:
            e.remove_named_grouping_policy("g2", "data2", "data_group")
            ok = judge(e, "that g2 rule removed again", setup)
        if not ok:
            break
    chk.extra.setdefault("strata", {})["role_manager_owned_links"] = n


def stratum_names_evals_domains(chk):
    """three corners of 'the expression is evaluated as written' that need their own inputs (implementation-level SPEC):
      (a) every documented built-in NAME in a matcher denotes its documented function (rows chosen so that each name is
          told apart from every other built-in);
      (b) several eval() calls in one matcher, in any order, with stored sub-expressions much shorter / longer than the
          eval(...) token they replace: each eval(p.x) is the rule's field x, evaluated as an expression;
      (c) g(r.sub, p.sub, <dom>) where <dom> evaluates to a non-string (a numeric tenant id read from a request object):
          the role function is asked about str(<dom>)."""
    import casbin
    base = """[request_definition]
r = sub, obj, act
[policy_definition]
p = %s
[policy_effect]
e = some(where (p.eft == allow))
[matchers]
m = %s
"""
    n = 0
    # ---- (a)
    rows = [("keyMatch", "/foo/bar", "/foo/*", True), ("keyMatch", "/foo/bar", "/foo/:id", False), ("keyMatch", "/foo", "/foo/*", False),
            ("keyMatch2", "/foo/bar", "/foo/:id", True), ("keyMatch2", "/foo/bar", "/foo/{id}", False), ("keyMatch2", "/foo/bar/baz", "/foo/:id", False),
            ("keyMatch3", "/foo/bar", "/foo/{id}", True), ("keyMatch3", "/foo/bar", "/foo/:id", False),
            ("keyMatch4", "/parent/1/child/1", "/parent/{id}/child/{id}", True), ("keyMatch4", "/parent/1/child/2", "/parent/{id}/child/{id}", False),
            ("keyMatch4", "/res/list?page=2", "/res/list", False),
            ("keyMatch5", "/res/list?page=2", "/res/list", True), ("keyMatch5", "/parent/1/child/2", "/parent/{id}/child/{id}", True),
            ("keyMatch5", "/res/other", "/res/list", False),
            ("regexMatch", "/topic/42", "/topic/[0-9]+", True), ("regexMatch", "/topic/x", "/topic/[0-9]+", False), ("regexMatch", "/fooX", "/foo.$", True),
            ("ipMatch", "10.1.2.3", "10.0.0.0/8", True), ("ipMatch", "11.1.2.3", "10.0.0.0/8", False),
            ("globMatch", "/a/b", "/a/*", True), ("globMatch", "/a/b/c", "/a/*", False), ("globMatch", "/a/b", "/a/?", True)]
    for name, key, pat, want in rows:
        e = casbin.Enforcer(casbin.Enforcer.new_model(text=base % ("sub, obj, act", f"{name}(r.obj, p.obj)")))
        e.add_policy("any", pat, "any")
        try:
            got = bool(e.enforce("x", key, "y"))
        except Exception as ex:  # noqa
            got = "raise " + type(ex).__name__
        n += 1
        chk.count(("builtin-name", name, key, pat))
        if got != want:
            chk.spec_fail(dict(stratum="names-evals-domains", part="built-in name", matcher=f"{name}(r.obj, p.obj)", rule_obj=pat, request_obj=key),
                          got, want, "a documented built-in name in the matcher does not denote its documented function")
            chk.extra.setdefault("strata", {})["names_evals_domains"] = n
            return
    # ---- (b)
    texts = [("True", lambda s_, o_: True), ("1 == 2", lambda s_, o_: False), ("r.sub == 'alice'", lambda s_, o_: s_ == "alice"),
             ("r.obj == 'data1' || r.obj == 'data2' || r.obj == 'data3'", lambda s_, o_: o_ in ("data1", "data2", "data3")),
             ("!(r.sub == 'bob') && r.obj != 'data9'", lambda s_, o_: s_ != "bob" and o_ != "data9"), ("r.obj == 'data1'", lambda s_, o_: o_ == "data1")]
    import itertools
    for order in (("a", "b"), ("b", "a"), ("a", "b", "c"), ("c", "a", "b"), ("b", "c", "a")):
        cols = ["a", "b", "c"][:len(order)] if len(order) == 2 else ["a", "b", "c"]
        matcher = " && ".join(f"eval(p.{c}_rule)" for c in order) + " && r.act == p.act"
        pdef = ", ".join(f"{c}_rule" for c in cols) + ", act"
        for combo in itertools.product(range(len(texts)), repeat=len(cols)):
            if sum(combo) % 3 != 0 and len(cols) == 3:
                continue                                   # a third of the triples
            e = casbin.Enforcer(casbin.Enforcer.new_model(text=base % (pdef, matcher)))
            e.add_policy(*([texts[i][0] for i in combo] + ["read"]))
            for s_, o_ in (("alice", "data1"), ("bob", "data1"), ("alice", "data9"), ("carol", "data2")):
                want = all(texts[i][1](s_, o_) for i in combo)
                try:
                    got = bool(e.enforce(s_, o_, "read"))
                except Exception as ex:  # noqa
                    got = "raise " + type(ex).__name__
                n += 1
                chk.count(("multi-eval", order, combo, s_, o_))
                if got != want:
                    chk.spec_fail(dict(stratum="names-evals-domains", part="several eval() calls", policy_definition=pdef, matcher=matcher,
                                       rule=[texts[i][0] for i in combo] + ["read"], request=[s_, o_, "read"]), got, want,
                                  "a matcher with several eval() calls is not the conjunction of the rule's stored sub-expressions")
                    chk.extra.setdefault("strata", {})["names_evals_domains"] = n
                    return
    # ---- (c)
    class Tenant:
        def __init__(self, i):
            self.id = i

    class Req:
        def __init__(self, name, tenant):
            self.name, self.tenant = name, tenant
    text = """[request_definition]
r = sub, obj, act
[policy_definition]
p = sub, dom, obj, act
[role_definition]
g = _, _, _
[policy_effect]
e = some(where (p.eft == allow))
[matchers]
m = g(r.sub.name, p.sub, r.sub.tenant.id) && p.dom == "7" && r.obj == p.obj && r.act == p.act
"""
    e = casbin.Enforcer(casbin.Enforcer.new_model(text=text))
    e.add_policy("admin", "7", "data1", "read")
    e.add_grouping_policy("carol", "admin", "7")
    e.add_grouping_policy("dave", "admin", "8")
    for who, tid, want in (("carol", 7, True), ("carol", "7", True), ("carol", 8, False), ("dave", 7, False), ("admin", 7, True), ("carol", 7.0, False)):
        try:
            got = bool(e.enforce(Req(who, Tenant(tid)), "data1", "read"))
        except Exception as ex:  # noqa
            got = "raise " + type(ex).__name__
        n += 1
        chk.count(("non-string-domain", who, repr(tid)))
        if got != want:
            chk.spec_fail(dict(stratum="names-evals-domains", part="non-string domain handed to g()", matcher="g(r.sub.name, p.sub, r.sub.tenant.id) && ...",
                               grouping=e.get_grouping_policy(), request_subject=dict(name=who, tenant_id=repr(tid))), got, want,
                          "g(a, b, dom) with a non-string dom is not has_link(a, b, str(dom))")
            break
    chk.extra.setdefault("strata", {})["names_evals_domains"] = n


def stratum_matcher_text_shapes(chk):
    """matcher TEXTS of unusual shape, judged at implementation level against the meaning of the documented operators
    (c02_util.ts_*: a small expression tree with its own renderer and evaluator):
      (a) stacked negations - !!x, !!!x, ! !x, !(!x), mixed - of calls, comparisons and parenthesised combinations, first / in
          the middle / last among other conjuncts, with and without blanks around && and ||; the same inside rule texts run
          through eval() (and in front of eval() itself);
      (b) user-registered functions whose NAMES contain the library's own keywords (acl_eval, retrieval, g_of, p_owner, is_in,
          not_banned, order_ok ...), in the ACL-with-superuser matcher, without blanks, negated, beside a real eval() and called
          from an eval() rule text;
      (c) the EMPTY policy under every such matcher (the matcher judged once with every p.<field> = ''), before the first rule
          is added and after the last one was removed, on ONE enforcer.
    SPEC: a rule takes part exactly when the expression is true of request and rule (allow-override)."""
    import random as _random
    rng = _random.Random(chk.seed * 131 + 20261002)
    cases = ts_cases(rng, 60 if chk.tier == "quick" else 1500)
    n, parts, reported = 0, {}, set()
    for c in cases:
        k, fails_ = ts_judge(c)
        n += k
        parts[c["part"]] = parts.get(c["part"], 0) + 1
        chk.count(("matcher-text-shapes", c["matcher"], json.dumps(c["phases"])), n=k)
        if fails_ and c["part"] not in reported:
            reported.add(c["part"])
            pi, q, got, want = fails_[0]
            small = dict(c, phases=c["phases"][:pi + 1], requests=[q] if q is not None else c["requests"][:1], failing_phase=pi,
                         rules_at_failure=c["phases"][pi])
            chk.spec_fail(small, got, want, "the decision is not the value of the matcher expression as written (" + c["part"] +
                          "; negation is the documented unary !, a user function is called by the name it was registered under, an "
                          "empty policy judges the matcher once against empty rule fields)")
    chk.traces += len(cases)
    st = chk.extra.setdefault("strata", {})
    st["matcher_text_shapes_cases"] = len(cases)
    st["matcher_text_shapes_requests"] = n
    for k_, v in parts.items():
        st["matcher_text_shapes: " + k_] = v


def stratum_role_calls(chk):
    """the role function asked more than once per rule (two request fields; subject and object in one graph) or with a
    domain taken from the rule, over digit names that are prefixes / concatenations of each other: a rule takes part exactly
    when the matcher is true with g = reachability over the stored role assignments (enforce_cases.role_calls_stratum, the
    family C01/C08 judge under every effect; here allow-override, decision through enforce and enforce_ex)"""
    from ..enforce_cases import role_calls_stratum, EFFECTS
    n = role_calls_stratum(chk, "a rule took part in (or stayed out of) the decision although the matcher - with every g(a, b[, dom]) call "
                                "evaluated as reachability of b from a over the stored role assignments - says otherwise", effects=EFFECTS[:1])
    chk.extra.setdefault("strata", {})["role_calls_requests"] = n


def observe_case(c):
    sh, ast, subs, reqs, text = case_parts(c)
    obs, stored = run_real(text, sh, c["rules"], c["grouping"], c["user_fns"], reqs, c.get("etype"))
    return obs, stored


def oracle_reqs(c):
    sh, ast, subs, reqs, text = case_parts(c)
    eff = c["effect"] if c.get("etype") is None else 0
    mq = [model_req(text, sh, c["rules"], c["grouping"], c["user_fns"], r, c.get("etype")) for r in reqs]
    sq = [spec_req(eff, sh, ast, c["rules"], subs, c["grouping"], c["user_fns"], r) for r in reqs]
    return mq, sq


def one_request(c, i):
    d = dict(c)
    d["requests"] = [c["requests"][i]]
    return d


def fails(chk, c):
    """does the implementation violate the spec on this (single-request) case?"""
    obs, _ = observe_case(c)
    _, sq = oracle_reqs(c)
    return obs != chk.oracle.query(sq)


def shrink(chk, c, budget=40):
    """cheap shrinking of a failing single-request case: fewer rules, smaller AST (children / seeds),
    layout without optional blanks"""
    rng = chk.rng.__class__(12345)
    best = c
    sh = SHAPE_BY_NAME[c["shape"]]

    def children(j):
        t = j[0]
        if t in (0, 1):
            return [j[1], j[2]]
        if t in (2, 7):
            return [j[1]]
        return []

    progress = True
    while progress and budget > 0:
        progress = False
        cands = []
        if len(best["rules"]) > 1:
            for k in range(len(best["rules"])):
                d = dict(best)
                d["rules"] = best["rules"][:k] + best["rules"][k + 1:]
                d["subs"] = best["subs"][:k] + best["subs"][k + 1:]
                cands.append(d)
        for ch in children(best["ast"]):
            if ch[0] in (8, 9, 11, 12):
                continue
            d = dict(best)
            d["ast"] = ch
            lines, _ = matcher_lines("m" + sh.sfx, tokens_of(expr_from_json(ch)), "none", rng)
            d["lines"], d["layout"] = lines, "none"
            cands.append(d)
        if best["user_fns"] or any(best["grouping"].values()):
            d = dict(best)
            d["user_fns"], d["grouping"] = [], {g: [] for g in best["grouping"]}
            cands.append(d)
        for d in cands:
            budget -= 1
            if budget <= 0:
                break
            try:
                if fails(chk, d):
                    best, progress = d, True
                    break
            except Exception:  # noqa
                continue
    return best


def run(chk, n_asts, maxdepth, vm_n, nonconst_n):
    rng = chk.rng
    if chk.oracle is None:
        chk.notes.append("oracle unavailable; correspondence not run")
        return
    cases = fixed_cases(rng) + random_cases(rng, n_asts, maxdepth)

    # --- grammar / renderer twins agree with the Gallina definitions (tokens_of, grammatical, tr, cb_lex)
    distinct = {}
    for c in cases:
        distinct.setdefault(json.dumps(c["ast"]), c)
    asts = [expr_from_json(c["ast"]) for c in distinct.values()]
    rep5 = chk.oracle.query([(5, [expr_to_json(a)]) for a in asts])
    for a, r in zip(asts, rep5):
        toks = tokens_of(a)
        if r[0] != 1:
            chk.disagree(dict(ast=expr_to_json(a)), "generated AST", r, where="harness: generator left the grammar (gram = false)")
        elif r[1] != [wire_tok(t) for t in toks]:
            chk.disagree(dict(ast=expr_to_json(a)), [wire_tok(t) for t in toks], r[1], where="harness tokens_of twin differs from Expr.tokens_of")
    chk.extra["max_depth_generated"] = max([depth_of(a) for a in asts] or [0])

    # --- implementation
    impl, mq, sq = [], [], []
    for c in cases:
        obs, stored = observe_case(c)
        impl.append(obs)
        if stored is not None and stored != len(c["rules"]):
            chk.disagree(c, stored, len(c["rules"]), where="harness: rule not stored")
        m_, s_ = oracle_reqs(c)
        mq += m_
        sq += s_
    mrep = chk.oracle.query(mq)
    srep = chk.oracle.query(sq)

    k = 0
    by_ast = {}
    strata = {}
    exc_classes = {}
    shapes_seen = {}
    reported = 0
    for ci, c in enumerate(cases):
        strata[c["stratum"]] = strata.get(c["stratum"], 0) + 1
        n = len(c["requests"])
        o, m, s = impl[ci], mrep[k:k + n], srep[k:k + n]
        k += n
        shapes_seen[c["shape"]] = shapes_seen.get(c["shape"], 0) + n
        for x in o:
            if x[0] == 999:
                exc_classes[x[1]] = exc_classes.get(x[1], 0) + 1
        # non-trivial: decisions differ between the requests, or an exception class was compared
        nontrivial = len({json.dumps(x) for x in s}) > 1 or any(x[0] == 999 for x in s) or c["stratum"] != "random"
        key = (c["shape"], "\n".join(c["lines"]), json.dumps(c["rules"]), json.dumps(c["grouping"])) if nontrivial else None
        chk.count(key, n=n)
        if ci % max(1, len(cases) // 6) == 0:
            chk.sample(dict(model_lines=c["lines"], shape=c["shape"], rules=c["rules"][:2], request=c["requests"][0],
                            impl=o[0], model=m[0], spec=s[0]))
        akey = (c["shape"], json.dumps(c["ast"]), json.dumps(c["rules"]), json.dumps(c["requests"]), c["effect"], c.get("etype"))
        by_ast.setdefault(akey, []).append((c["layout"], o, c))
        for i in range(n):
            if any(isinstance(x, list) and x[:1] == [999] and x[1] in (ERR["EFuel"], 40) for x in (m[i], s[i])):
                chk.disagree(one_request(c, i), o[i], [m[i], s[i]], where="model left its domain (EFuel / ELimit): generator or fuel bug")
                continue
            if o[i] != s[i]:
                c1 = one_request(c, i)
                known = bracket_last_line(c["lines"])
                if not known and ctx_effect_fingerprint(chk, c1, [o[i]]):
                    chk.spec_fail(c1, o[i], s[i], "the effect definition selected by the enforce context is not the one "
                                  "that combines the matching rules", finding=F_CTX)
                elif not known and reported < 3:
                    reported += 1
                    try:
                        c1 = shrink(chk, c1)
                    except Exception as exc:  # noqa
                        chk.notes.append(f"shrink failed: {exc!r}")
                    o1, _ = observe_case(c1)
                    s1 = chk.oracle.query(oracle_reqs(c1)[1])
                    chk.spec_fail(c1, o1[0], s1[0], "the real Enforcer's decision / exception differs from the value of the "
                                  "matcher expression on request and rules (spec: eval_expr + effect)")
                else:
                    chk.spec_fail(c1, o[i], s[i], "the real Enforcer's decision / exception differs from the value of the "
                                  "matcher expression on request and rules (spec: eval_expr + effect)",
                                  finding=F_BRACKET if known else None)
            elif o[i] != m[i]:
                chk.disagree(one_request(c, i), o[i], m[i], where=f"enforce on shape {c['shape']} layout {c['layout']}")
    chk.traces += len(cases)

    # --- metamorphic: all layouts of one AST decide alike (directly on the implementation)
    meta_groups = meta_diff = 0
    for akey, group in by_ast.items():
        if len(group) < 2:
            continue
        meta_groups += 1
        ref = group[0][1]
        for mode, o, c in group[1:]:
            if o != ref and not bracket_last_line(c["lines"]) and not bracket_last_line(group[0][2]["lines"]):
                meta_diff += 1
    chk.extra["metamorphic_groups"] = meta_groups
    chk.extra["metamorphic_layout_disagreements"] = meta_diff

    # --- the real Python tokenizer on the real pipeline output vs py_lex of the modelled pipeline vs tr
    tok_cases = [c for c in cases if not has_eval(expr_from_json(c["ast"])) and len(c["lines"]) == 1
                 and c["layout"] in ("none", "wide", "random")]
    values = [c["lines"][0].split("=", 1)[1].strip() for c in tok_cases]
    rep3 = chk.oracle.query([(3, [v]) for v in values])
    rep4 = chk.oracle.query([(4, [v]) for v in values])
    n_tok = 0
    for c, v, r3, r4 in zip(tok_cases, values, rep3, rep4):
        sh, ast, subs, reqs, text = case_parts(c)
        toks = tokens_of(ast)
        want = tr_expected(toks)
        n_tok += 1
        try:
            real = real_python_tokens(real_final_text(text, "m" + sh.sfx))
        except Exception as exc:  # noqa
            real = ["EXC", type(exc).__name__]
        if real != want:
            chk.spec_fail(dict(c, requests=c["requests"][:1]), real, want,
                          "Python's tokenizer on the repository's pipeline output does not yield map tr of the Casbin tokens")
        elif r3 != [want]:
            chk.disagree(dict(matcher=v), real, r3, where="py_lex (pipeline value) differs from Python's tokenizer on the real pipeline output")
        if r4 != [[wire_tok(t) for t in toks]]:
            chk.disagree(dict(matcher=v), [wire_tok(t) for t in toks], r4, where="cb_lex (render ts ws) differs from ts")
    chk.extra["token_level_cases"] = n_tok
    # continued / commented layouts: the text finally handed to ast.parse must still lex to map tr of the Casbin
    # tokens (string literals character for character) - SPEC only, the join itself is C02_continuation_join
    n_multi = 0
    for c in cases:
        if has_eval(expr_from_json(c["ast"])) or c["layout"] not in ("cont", "comment") or bracket_last_line(c["lines"]):
            continue
        sh, ast, subs, reqs, text = case_parts(c)
        want = tr_expected(tokens_of(ast))
        n_multi += 1
        try:
            real = real_python_tokens(real_final_text(text, "m" + sh.sfx))
        except Exception as exc:  # noqa
            real = ["EXC", type(exc).__name__]
        if real != want:
            chk.spec_fail(dict(c, requests=c["requests"][:1]), real, want,
                          "Python's tokenizer on the pipeline output of a continued/commented matcher does not yield map tr "
                          "of the Casbin tokens (layout changed the expression)")
    chk.extra["token_level_cases_multiline"] = n_multi
    stratum_mixed_suffix(chk)
    import time as _t
    _t0 = _t.time()
    seq_counts = stratum_sequences(chk, max(120, n_asts // 2))
    chk.extra["sequence_strata_wall_s"] = round(_t.time() - _t0, 1)
    # the role function g() with TWO rule-side arguments and names that are concatenations of each other
    from .c05 import stratum_confusable_names
    stratum_confusable_names(chk, 40)
    stratum_role_manager_owned_links(chk)
    stratum_names_evals_domains(chk)
    stratum_matcher_text_shapes(chk)
    stratum_role_calls(chk)
    # the hypotheses of C02_pipeline_tokens(_ast) hold on the generated cases (wf_tokens, admissible), and
    # Gallina's render agrees with the harness renderer
    hyp = [c for c in tok_cases if c.get("gaps")]
    q6 = []
    for c in hyp:
        g = c["gaps"]
        ws = [[g[0] if i == 0 else "", g[i + 1]] for i in range(len(g) - 1)]
        q6.append((6, [SHAPE_BY_NAME[c["shape"]].sfx, SHAPE_BY_NAME[c["shape"]].sfx, c["ast"], ws]))
    for c, r in zip(hyp, chk.oracle.query(q6)):
        g = c["gaps"]
        want = g[0] + c["lines"][0].split("=", 1)[1].strip() + g[-1]
        if r[:2] != [1, 1] or core.wstr(r[2]).strip() != want.strip():
            chk.disagree(dict(lines=c["lines"], ast=c["ast"]), "generated case", r[:2],
                         where="generated case outside the hypotheses of pipeline_tokens (wf_tokens / admissible) or render twin differs")
    chk.extra["theorem_hypotheses_checked_on_cases"] = chk.extra.get("theorem_hypotheses_checked_on_cases", 0) + len(hyp)

    # --- how many generated sub-conditions are non-constant over the universe (rules x requests)
    sub_total = sub_nonconst = 0
    qs, owners = [], []
    seen_ast = set()
    for c in cases:
        if c["stratum"] != "random" or not c["rules"]:
            continue
        ak = json.dumps(c["ast"]) + json.dumps(c["rules"])
        if ak in seen_ast:
            continue
        seen_ast.add(ak)
        if len(seen_ast) > nonconst_n:
            break
        sh, ast, subs, reqs, text = case_parts(c)
        # the universe: the case's own rules/requests plus fresh ones of the same shape
        urng = rng.__class__(len(seen_ast))
        gs = Gen(urng, sh, False, c["user_fns"])
        urules, usubs = list(c["rules"]), list(subs)
        for _ in range(3):
            r_, sb_ = gen_rule(urng, sh, lambda: gs.expr(1))
            urules.append(r_)
            usubs.append(sb_)
        ureqs = reqs + [gen_request(urng, sh) for _ in range(4)]
        for sc in sub_conditions(ast):
            oid = len(owners)
            owners.append(0)
            for r, sb in zip(urules, usubs):
                for q in ureqs:
                    qs.append((oid, spec_req(0, sh, sc, [r], [sb], c["grouping"], c["user_fns"], q)))
    reps = chk.oracle.query([q for _, q in qs])
    seen_vals = {}
    for (oid, _), r in zip(qs, reps):
        seen_vals.setdefault(oid, set()).add(json.dumps(r))
    sub_total = len(owners)
    sub_nonconst = sum(1 for v in seen_vals.values() if len(v) > 1)
    chk.extra["sub_conditions_generated"] = chk.extra.get("sub_conditions_generated", 0) + sub_total
    chk.extra["sub_conditions_non_constant"] = chk.extra.get("sub_conditions_non_constant", 0) + sub_nonconst

    strata.update(seq_counts)
    chk.extra["strata"] = dict(chk.extra.get("strata", {}), **strata)     # keep the counts the strata functions recorded themselves
    chk.extra["evaluations_per_shape"] = shapes_seen
    chk.extra["exception_classes_compared"] = {str(k_): v for k_, v in sorted(exc_classes.items())}
    chk.extra["layouts"] = LAYOUTS

    # --- extraction vs kernel on a sample
    idx = sorted(rng.sample(range(len(mq)), min(vm_n, len(mq))))
    ok, nvm, log = core.vm_crosscheck(chk.prop, "From PyCasbin Require Import Base Expr MatcherText.", "oracle_C02",
                                      [mq[i] for i in idx] + [sq[i] for i in idx],
                                      [mrep[i] for i in idx] + [srep[i] for i in idx], chunk=60)
    chk.vm_checked += nvm
    if not ok:
        chk.disagree(dict(kind="extraction-vs-vm_compute"), "extracted oracle", log, where="vm_compute cross-check")


def replay(chk):
    rec = json.load(open(chk.replay_file))
    c = rec.get("case") or {}
    if "worlds" in c:
        bad, differ, note = judge_sequences(chk, [c])[0]
        for wi, ri, o, s, m in bad[:3]:
            print(f"replay: world {wi} request {c['worlds'][wi]['requests'][ri]} impl={o} spec={s} model={m}")
        if bad:
            print(f"VIOLATION property={chk.prop} replay={chk.replay_file}")
            sys.exit(1)
        print("replay passes: implementation agrees with the spec in every world of this sequence")
        sys.exit(0)
    if c.get("stratum") in ("role-manager-owned-links", "names-evals-domains"):
        chk.spec_failures = []
        (stratum_role_manager_owned_links if c["stratum"] == "role-manager-owned-links" else stratum_names_evals_domains)(chk)
        if chk.spec_failures:
            print("replay:", json.dumps(chk.spec_failures[0])[:700])
            print(f"VIOLATION property={chk.prop} replay={chk.replay_file}")
            sys.exit(1)
        print("replay passes: the stratum reports nothing on this tree")
        sys.exit(0)
    if c.get("stratum") == "matcher-text-shapes":
        pi = c.get("failing_phase", len(c["phases"]) - 1)
        _, fails_ = ts_judge(c, only=(pi, c["requests"][0]))
        print("matcher:", c["matcher"], " rules:", c["phases"][pi], " request:", c["requests"][0])
        if fails_:
            print(f"replay: impl={fails_[0][2]} spec={fails_[0][3]}")
            print(f"VIOLATION property={chk.prop} replay={chk.replay_file}")
            sys.exit(1)
        print("replay passes: the decision is the value of the matcher expression on this input")
        sys.exit(0)
    if c.get("stratum") == "role-calls":
        from ..enforce_cases import replay_role_call
        hit = replay_role_call(c)
        if hit:
            print(f"replay: impl={hit[0]} spec={hit[1]}")
            print(f"VIOLATION property={chk.prop} replay={chk.replay_file}")
            sys.exit(1)
        print("replay passes: the decision is that of the rules the matcher is true of")
        sys.exit(0)
    if "lines" not in c or "ast" not in c:
        print("replay file names a broken theorem/correspondence, not an input:", json.dumps(rec.get("broken"))[:800])
        sys.exit(1)
    sh, ast, subs, reqs, text = case_parts(c)
    print("model text:\n" + text)
    print("policy:", c["rules"], "grouping:", c["grouping"], "request:", c["requests"][0])
    obs, _ = observe_case(c)
    mq, sq = oracle_reqs(c)
    m = chk.oracle.query(mq)
    s = chk.oracle.query(sq)
    print(f"replay: impl={obs} model={m} spec={s}")
    if obs != s:
        if bracket_last_line(c["lines"]) and any(f["id"] == F_BRACKET and f.get("status") == "known" for f in chk.findings):
            print(f"KNOWN-FINDING: property={chk.prop} {F_BRACKET}")
            sys.exit(0)
        print(f"VIOLATION property={chk.prop} replay={chk.replay_file}")
        sys.exit(1)
    print("replay passes: implementation agrees with the spec on this input")
    sys.exit(0)


def main():
    chk = Check(PROP)
    chk.rule = ("random ASTs of the grammar of DESIGN §5/C02 (typed generator, depth <= 4 quick / 6 thorough; string, "
                "int, object-attribute, policy terms; == != < <= > >=, in (..)/[..], &&, ||, !atom, parentheses, "
                "keyMatch/regexMatch, g/g2/g-with-domain, four user-registered functions, an unregistered one, "
                "eval(p.rule) with rule texts generated from the same grammar) x 5 layouts (no optional blanks, one "
                "blank everywhere, random blanks/tabs, backslash continuations, trailing # comment) x 12 model "
                "shapes (ACL, superuser, RBAC, resource roles, domains, ABAC objects, keyMatch, effect column with 4 "
                "effect expressions, eval, two evals, r2/p2/e2/m2 via EnforceContext with and without eval) x "
                "policies of 0-3 rules x 3 requests over a 4-value universe; plus fixed regression strata; plus sequences of "
                "such worlds on ONE enforcer (policy / role assignments / role manager objects / registered functions / matcher "
                "via set_model / plain-then-context definitions change between requests; user functions that ask the enforcer a "
                "nested question).  A case is "
                "non-trivial when its requests are not all decided alike or an exception class is compared; distinct "
                "by (shape, model lines, policy, grouping)")
    chk.assumptions = [
        "Python's tokenizer/parser (ast.parse) and simpleeval 1.0.8 are modelled (py_lex, parse_tokens, eval_expr), not "
        "verified; py_lex is compared with Python's tokenize on every eval-free case, the rest by the decisions",
        "ASCII: \\b \\w \\d and str.strip() are modelled on code points < 128; token texts in the theorems are ASCII",
        "grammar limits (documented): string literals without & | ! # quotes backslash parentheses and without "
        "r./p.-like substrings; identifiers, fields and attributes are not of the form r<digits>/p<digits> and not Python "
        "keywords; ! applies to an atom; no chained comparisons; 1-tuples excluded; eval(p.f) is one lexical unit "
        "(eval_reg admits no blanks inside); lower-case true/false are not in the property's list and not supported "
        "by the evaluator (True/False are ordinary names)",
        "attribute names are not attributes of Python's str/int/bool and do not start with _ or func_",
        "role functions over small acyclic/cyclic graphs (<= 5 names; the 10-level bound is not reached); regexMatch "
        "only on patterns without metacharacters; matcher results: float is not generated (C01 covers it)",
        "one definition per enforce-context suffix up to 9; the role_definition section is not re-parsed by the model",
    ]
    chk.trusted = ["differential correspondence on the real Enforcer (this run) is the only link between the hand-written "
                   "models of config.py / util.py / model.py / core_enforcer.py text handling and the code"]
    chk.build(translators=["remcomments"])
    if chk.replay_file:
        return replay(chk)
    if chk.tier == "thorough":
        run(chk, 4000, 5, 600, 600)
    else:
        run(chk, 190, 3, 60, 120)
        if (chk.broken() or chk.anchor_changed) and not chk.spec_failures:
            chk.notes.append("escalated to a bigger budget after a broken proof/correspondence")
            run(chk, 1200, 5, 60, 0)
    chk.finish()


if __name__ == "__main__":
    main()
