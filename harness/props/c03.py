"""C03 — role inheritance is reachability over the current role assignments.

Proof: Props/C03.v (models RoleGraph.v / CondRM.v).  Correspondence: histories of calls (add_link,
delete_link, has_link, get_roles, get_users, clear, link-condition registration) are run on the REAL
RoleManager / DomainManager / ConditionalRoleManager / ConditionalDomainManager and through the real
Enforcer (g() in matchers, get_roles_for_user(_in_domain), get_users_for_role(_in_domain)), and on
the extracted model; the SPEC (bounded reachability over the set of assignments in force, computed
here by an independent shortest-path search and tied to the Coq spec function reach_le) is evaluated
on the implementation's answers."""
import hashlib
import itertools
import json
import sys

from ..core import Check, classify_exception, vm_crosscheck

PROP = "C03"
TAG = dict(rm=1, dm=2, crm=3, cdm=4, erm=1, edm=2, ecrm=3, ecdm=4)
ADD, DEL, HAS, ROLES, USERS, CLEAR, COND, PARAMS, DUMP = range(9)
ENFORCER_L = 10          # core_enforcer.py:init_rm_map builds every default manager with 10


def nm(i):
    """atom -> the string used on the implementation side (atom 0 is the empty string)"""
    return "" if i == 0 else f"x{i}"


def atom(s):
    return 0 if s == "" else int(s[1:])


# ----------------------------------------------------------------------------- implementation
def _mgr(kind, L):
    from casbin.rbac import default_role_manager as d
    return dict(rm=d.RoleManager, dm=d.DomainManager, crm=d.ConditionalRoleManager,
                cdm=d.ConditionalDomainManager)[kind](max_hierarchy_level=L)


def _cond_fn(tbl, f):
    def fn(*ps):
        return tbl.get((f, tuple(atom(p) for p in ps)), False)
    return fn


def _links(ls):
    return [[atom(l[0]), atom(l[1])] for l in ls]


MODEL_TEXT = dict(
    erm="""
[request_definition]
r = sub, obj, act
[policy_definition]
p = sub, obj, act
[role_definition]
g = _, _
[policy_effect]
e = some(where (p.eft == allow))
[matchers]
m = g(r.sub, p.sub) && r.obj == p.obj && r.act == p.act
""",
    edm="""
[request_definition]
r = sub, dom, obj, act
[policy_definition]
p = sub, dom, obj, act
[role_definition]
g = _, _, _
[policy_effect]
e = some(where (p.eft == allow))
[matchers]
m = g(r.sub, p.sub, r.dom) && r.dom == p.dom && r.obj == p.obj && r.act == p.act
""",
    ecrm="""
[request_definition]
r = sub, obj, act
[policy_definition]
p = sub, obj, act
[role_definition]
g = _, _, (_, _)
[policy_effect]
e = some(where (p.eft == allow))
[matchers]
m = g(r.sub, p.sub) && r.obj == p.obj && r.act == p.act
""",
    ecdm="""
[request_definition]
r = sub, dom, obj, act
[policy_definition]
p = sub, dom, obj, act
[role_definition]
g = _, _, _, (_, _)
[policy_effect]
e = some(where (p.eft == allow))
[matchers]
m = g(r.sub, p.sub, r.dom) && r.dom == p.dom && r.obj == p.obj && r.act == p.act
""")
ECRM_DEFAULT_PARAMS = [9, 9]     # the two parameter columns every conditional g rule is added with


def _universe(ops):
    names, doms = set(), set()
    for op in ops:
        c = op[0]
        if c in (ADD, DEL, HAS):
            names.update(op[1:3])
            doms.update(op[3])
        elif c in (ROLES, USERS):
            names.add(op[1])
            doms.update(op[2])
        elif c in (COND, PARAMS):
            names.update(op[1:3])
    return sorted(names), sorted(doms)


def run_enforcer(kind, tbl, ops):
    """the same history through Enforcer: grouping-policy calls, enforce with a g() matcher, RBAC API"""
    import casbin
    from casbin.model import Model
    m = Model()
    m.load_model_from_text(MODEL_TEXT[kind])
    names, doms = _universe(ops)
    loaded = 0
    if kind in ("ecrm", "ecdm"):
        # the leading assignments come in through load_policy, later ones through add/remove_grouping_policy
        from casbin.persist.adapters.string_adapter import StringAdapter
        if kind == "ecrm":
            lines = [f"p, {nm(b)}, o{b}, read" for b in names]
        else:
            lines = [f"p, {nm(b)}, {nm(d)}, o{b}, read" for b in names for d in doms]
        while loaded < len(ops) and ops[loaded][0] == ADD:
            op = ops[loaded]
            lines.append("g, " + ", ".join([nm(op[1]), nm(op[2])] + [nm(d) for d in op[3]]
                                           + [nm(p) for p in ECRM_DEFAULT_PARAMS]))
            loaded += 1
        e = casbin.Enforcer(m, StringAdapter("\n".join(lines) + "\n"))
        e.enable_auto_save(False)                    # the string adapter implements no incremental writes
    else:
        e = casbin.Enforcer(m)
        for b in names:
            if kind == "edm":
                for d in doms:
                    e.add_policy(nm(b), nm(d), f"o{b}", "read")
            else:
                e.add_policy(nm(b), f"o{b}", "read")
    t = {(r[0], tuple(r[1])): bool(r[2]) for r in tbl}
    obs = [[0, []]] * loaded
    for op in ops[loaded:]:
        c = op[0]
        try:
            if kind in ("ecrm", "ecdm") and c in (ADD, DEL):
                # incremental management on a conditional model: the rule carries the condition's parameter columns
                args = [nm(op[1]), nm(op[2])] + [nm(d) for d in op[3]] + [nm(p) for p in ECRM_DEFAULT_PARAMS]
                ok = (e.add_grouping_policy if c == ADD else e.remove_grouping_policy)(*args)
                obs.append([0, []] if ok else [999, 800 if c == ADD else 801])
            elif c == ADD:
                ok = e.add_grouping_policy(nm(op[1]), nm(op[2]), *[nm(d) for d in op[3]])
                obs.append([0, []] if ok else [999, 800])      # a rejected add is not a history we generate
            elif c == DEL:
                ok = e.remove_grouping_policy(nm(op[1]), nm(op[2]), *[nm(d) for d in op[3]])
                obs.append([0, []] if ok else [999, 801])
            elif c == HAS:
                r = e.enforce(nm(op[1]), *[nm(d) for d in op[3]], f"o{op[2]}", "read")
                obs.append([0, int(bool(r))])
            elif c == ROLES:
                r = e.get_roles_for_user_in_domain(nm(op[1]), nm(op[2][0])) if op[2] else e.get_roles_for_user(nm(op[1]))
                obs.append([0, sorted(atom(x) for x in r)])
            elif c == USERS:
                r = e.get_users_for_role_in_domain(nm(op[1]), nm(op[2][0])) if op[2] else e.get_users_for_role(nm(op[1]))
                obs.append([0, sorted(atom(x) for x in r)])
            elif c == COND:
                if kind == "ecdm":
                    e.add_named_domain_link_condition_func("g", nm(op[1]), nm(op[2]), nm(op[3]), _cond_fn(t, op[4]))
                else:
                    e.add_named_link_condition_func("g", nm(op[1]), nm(op[2]), _cond_fn(t, op[4]))
                obs.append([0, []])
            elif c == PARAMS:
                ps = [nm(p) for p in op[4]]
                if kind == "ecdm":
                    e.set_named_domain_link_condition_func_params("g", nm(op[1]), nm(op[2]), nm(op[3]), *ps)
                else:
                    e.set_named_link_condition_func_params("g", nm(op[1]), nm(op[2]), *ps)
                obs.append([0, []])
            else:
                obs.append([998])
        except Exception as exc:  # noqa
            obs.append([999, classify_exception(exc)])
    return obs


def run_impl(case):
    kind, L, ops = case["kind"], case["L"], case["ops"]
    if kind[0] == "e":
        return run_enforcer(kind, case["tbl"], ops)
    t = {(r[0], tuple(r[1])): bool(r[2]) for r in case["tbl"]}
    mgr = _mgr(kind, L)
    obs = []
    for op in ops:
        c = op[0]
        try:
            if c == ADD:
                mgr.add_link(nm(op[1]), nm(op[2]), *[nm(d) for d in op[3]])
                obs.append([0, []])
            elif c == DEL:
                mgr.delete_link(nm(op[1]), nm(op[2]), *[nm(d) for d in op[3]])
                obs.append([0, []])
            elif c == HAS:
                obs.append([0, int(bool(mgr.has_link(nm(op[1]), nm(op[2]), *[nm(d) for d in op[3]])))])
            elif c == ROLES:
                obs.append([0, sorted(atom(x) for x in mgr.get_roles(nm(op[1]), *[nm(d) for d in op[2]]))])
            elif c == USERS:
                obs.append([0, sorted(atom(x) for x in mgr.get_users(nm(op[1]), *[nm(d) for d in op[2]]))])
            elif c == CLEAR:
                mgr.clear()
                obs.append([0, []])
            elif c == COND:
                fn = _cond_fn(t, op[4])
                if op[3] == 0:
                    mgr.add_link_condition_func(nm(op[1]), nm(op[2]), fn)
                else:
                    mgr.add_domain_link_condition_func(nm(op[1]), nm(op[2]), nm(op[3]), fn)
                obs.append([0, []])
            elif c == PARAMS:
                ps = [nm(p) for p in op[4]]
                if op[3] == 0:
                    mgr.set_link_condition_func_params(nm(op[1]), nm(op[2]), *ps)
                else:
                    mgr.set_domain_link_condition_func_params(nm(op[1]), nm(op[2]), nm(op[3]), *ps)
                obs.append([0, []])
            elif c == DUMP:
                if kind in ("rm", "crm"):
                    obs.append([0, _links(mgr.all_links)])
                elif kind == "dm":
                    obs.append([0, [[[atom(d), _links(ls)] for d, ls in mgr.all_links.items()],
                                    [[atom(d), _links(r.all_links)] for d, r in mgr.rm_map.items()]]])
                else:
                    obs.append([0, [[atom(d), _links(r.all_links)] for d, r in mgr.rm_map.items()]])
        except Exception as exc:  # noqa
            obs.append([999, classify_exception(exc)])
    return obs


# ----------------------------------------------------------------------------- model
def model_ops(case):
    """-> (ops as the oracle sees them, mask of the ones that are calls of the case).  Loading a
    conditional g rule makes the Enforcer store the rule's parameter columns (assertion.py:104-111)."""
    if case["kind"] not in ("ecrm", "ecdm"):
        return case["ops"], [True] * len(case["ops"])
    out, mask = [], []
    for op in case["ops"]:
        out.append(op)
        mask.append(True)
        if op[0] == ADD:
            out.append([PARAMS, op[1], op[2], op[3][0] if op[3] else 0, ECRM_DEFAULT_PARAMS])
            mask.append(False)
    return out, mask


def model_request(case):
    L = ENFORCER_L if case["kind"][0] == "e" else case["L"]
    ops = [list(o) for o in model_ops(case)[0]]
    if TAG[case["kind"]] >= 3:
        return (TAG[case["kind"]], [L, case["tbl"], ops])
    return (TAG[case["kind"]], [L, ops])


def canon_model(case, reply):
    """sort what the implementation reports from sets; drop the replies to calls the harness inserted"""
    mops, mask = model_ops(case)
    out = []
    for op, keep, r in zip(mops, mask, reply):
        if not keep:
            continue
        if op[0] in (ROLES, USERS) and r and r[0] == 0:
            r = [0, sorted(r[1])]
        out.append(r)
    return out


# ----------------------------------------------------------------------------- spec
def reach(edges, a, b, maxedges):
    """is there a path a -> b of at most `maxedges` edges?  shortest-path search with a visited set
    (deliberately not the frontier countdown of the implementation)"""
    if maxedges < 0:
        return False
    if a == b:
        return True
    dist = {a: 0}
    frontier = [a]
    while frontier:
        nxt = []
        for x in frontier:
            if dist[x] >= maxedges:
                continue
            for (u, r) in edges:
                if u == x and r not in dist:
                    dist[r] = dist[x] + 1
                    if r == b:
                        return True
                    nxt.append(r)
        frontier = nxt
    return False


def spec_check(case, obs):
    """-> list of (op index, expected observation, what) where the implementation's answer is not the
    property's: reachability / direct assignments over the set of assignments in force"""
    kind, ops = case["kind"], case["ops"]
    L = ENFORCER_L if kind[0] == "e" else case["L"]
    cond = kind in ("crm", "cdm", "ecrm", "ecdm")
    domained = kind in ("dm", "cdm", "edm", "ecdm")
    tbl = {(r[0], tuple(r[1])): bool(r[2]) for r in case["tbl"]}
    links, fn, params = {}, {}, {}
    bad = []
    for i, op in enumerate(ops):
        c = op[0]
        if c in (ADD, DEL, HAS, ROLES, USERS):
            doms = op[-1]
            if domained:
                if len(doms) > 1:
                    continue               # rejected call (RuntimeError): nothing the property speaks about
                d = doms[0] if doms else 0
                dk = d
            else:
                d = None                   # the plain managers ignore domain arguments for storage
                dk = doms[0] if doms else 0
        if c == ADD:
            ls = links.setdefault(d, [])
            if (op[1], op[2]) not in ls:
                ls.append((op[1], op[2]))
            if kind in ("ecrm", "ecdm"):
                params[(op[1], op[2], d if domained else 0)] = tuple(ECRM_DEFAULT_PARAMS)
        elif c == DEL:
            ls = links.setdefault(d, [])
            if (op[1], op[2]) in ls:
                ls.remove((op[1], op[2]))
        elif c == CLEAR:
            links, fn, params = {}, {}, {}
        elif c == COND:
            fn[(op[1], op[2], op[3])] = op[4]
        elif c == PARAMS:
            params[(op[1], op[2], op[3])] = tuple(op[4])
        elif c == HAS:
            edges = links.get(d, [])
            if cond:
                edges = [(u, r) for (u, r) in edges
                         if (u, r, dk) not in fn or tbl.get((fn[(u, r, dk)], params.get((u, r, dk), ())), False)]
            exp = [0, int(reach(edges, op[1], op[2], L if cond else L - 1))]
            if obs[i] != exp:
                bad.append((i, exp, "has_link / g() differs from bounded reachability over the assignments in force"))
        elif c == ROLES:
            exp = [0, sorted(r for (u, r) in links.get(d, []) if u == op[1])]
            if obs[i] != exp:
                bad.append((i, exp, "get_roles is not exactly the direct assignments"))
        elif c == USERS:
            exp = [0, sorted(u for (u, r) in links.get(d, []) if r == op[1])]
            if obs[i] != exp:
                bad.append((i, exp, "get_users is not exactly the direct assignments"))
    return bad


def in_scope(case):
    """the guards of the property's quantifier, re-checked on shrunk histories: no assignment is added
    while in force; conditions of a ConditionalDomainManager are registered for domains that have a manager;
    no clear() on conditional managers (see chk.assumptions)"""
    kind = case["kind"]
    domained = kind in ("dm", "cdm", "edm", "ecdm")
    present, live = {}, set()
    for op in case["ops"]:
        c = op[0]
        if c in (ADD, DEL, ROLES, USERS):
            doms = op[-1]
            if domained and len(doms) > 1:
                continue
            key = tuple(doms) if domained else None
            cur = present.setdefault(key, set())
            if c == ADD:
                if (op[1], op[2]) in cur:
                    return False
                cur.add((op[1], op[2]))
            elif c == DEL:
                cur.discard((op[1], op[2]))
            live.add(key)
        elif c == CLEAR:
            if kind in ("crm", "cdm"):
                return False
            present, live = {}, set()
        elif c in (COND, PARAMS) and kind in ("cdm", "ecdm"):
            if ((op[3],) not in live) and not (op[3] == 0 and () in live):
                return False
    return True


def shrink(case, idx):
    """drop earlier calls while the call that failed still fails (and the history stays in scope)"""
    ops = case["ops"][:idx + 1]
    cur = dict(case, ops=ops)
    i = len(ops) - 2
    while i >= 0:
        trial = dict(cur, ops=cur["ops"][:i] + cur["ops"][i + 1:])
        try:
            b = spec_check(trial, run_impl(trial)) if in_scope(trial) else []
        except Exception:  # noqa
            b = []
        if b and b[-1][0] == len(trial["ops"]) - 1:
            cur = trial
        i -= 1
    return cur


# ----------------------------------------------------------------------------- generators
def all_pairs_queries(names, doms_list):
    q = []
    for doms in doms_list:
        for a in names:
            for b in names:
                q.append([HAS, a, b, doms])
        for a in names:
            q.append([ROLES, a, doms])
            q.append([USERS, a, doms])
    return q


def build_order(rng, target, universe_links, doms, extras=2):
    """a history that ends with exactly `target` in force: a shuffled superset is added, the extras are
    deleted at random later positions; no assignment is added while in force"""
    pool = [l for l in universe_links if l not in target]
    ex = rng.sample(pool, min(extras, len(pool))) if pool else []
    adds = list(target) + ex
    rng.shuffle(adds)
    ops = [[ADD, u, r, doms] for (u, r) in adds]
    for (u, r) in ex:
        pos = next(i for i, o in enumerate(ops) if o[0] == ADD and o[1] == u and o[2] == r)
        ops.insert(rng.randint(pos + 1, len(ops)), [DEL, u, r, doms])
    return ops


def gen_exhaustive(rng, n, kinds, Ls):
    """every digraph (self-assignments included) on n names x all queries"""
    names = list(range(1, n + 1))
    U = [(a, b) for a in names for b in names]
    for mask in range(1 << len(U)):
        target = [U[i] for i in range(len(U)) if mask >> i & 1]
        for kind in kinds:
            for L in Ls(mask):
                if kind in ("rm", "crm"):
                    doms = [[], [1], [1, 2]][rng.randrange(3)] if kind == "rm" else []
                    ops = build_order(rng, target, U, doms) + all_pairs_queries(names, [doms])
                else:
                    # the graph lives in domain 1; another random graph is recorded for domain 2, interleaved,
                    # with early queries so that both caches exist before later changes
                    other = [l for l in U if rng.random() < 0.3]
                    o1 = build_order(rng, target, U, [1])
                    o2 = build_order(rng, other, U, [2], extras=1)
                    ops = []
                    while o1 or o2:
                        src = o1 if (o1 and (not o2 or rng.random() < 0.6)) else o2
                        ops.append(src.pop(0))
                        if rng.random() < 0.15:
                            ops.append([HAS, rng.choice(names), rng.choice(names), [rng.choice([1, 2])]])
                    ops += all_pairs_queries(names, [[1]]) + [[HAS, a, b, [2]] for a in names for b in names]
                yield dict(kind=kind, L=L, tbl=[], ops=ops, spec=True, stratum=f"exhaustive-{n}")


def gen_random(rng, count, kinds, double_adds=False):
    for _ in range(count):
        kind = rng.choice(kinds)
        n = rng.randint(2, 6)
        names = list(range(1, n + 1))
        L = rng.choice([1, 2, 3, 4, 10])
        domained = kind in ("dm", "cdm", "edm")
        cond = kind in ("crm", "cdm")
        domsets = [[1], [2], []] if domained else ([[]] if kind in ("erm", "crm") else [[], [1], [1, 2]])
        if kind == "edm":
            domsets = [[1], [2]]
        present = {}
        live = set()           # cdm: domains whose manager exists (conditions reach only those)
        ops, tbl, nf = [], [], 0
        for _ in range(rng.randint(8, 40)):
            doms = rng.choice(domsets)
            if domained and kind != "edm" and rng.random() < 0.04:
                doms = [1, 2]              # rejected: "domain should be 1 parameter"
            key = tuple(doms) if domained else None
            cur = present.setdefault(key, [])
            x = rng.random()
            a, b = rng.choice(names), rng.choice(names)
            if x < 0.40:
                if (a, b) in cur and not double_adds:
                    continue
                if len(doms) <= 1 or not domained:
                    cur.append((a, b))
                    live.add(key)
                ops.append([ADD, a, b, doms])
            elif x < 0.58:
                if cur and rng.random() < 0.85:
                    a, b = rng.choice(cur)
                if (a, b) in cur:
                    cur.remove((a, b))
                elif kind[0] == "e":
                    continue
                if kind == "cdm":
                    live.add(key)
                ops.append([DEL, a, b, doms])
            elif x < 0.85:
                qd = doms if kind != "crm" else rng.choice([[], [7]])
                ops.append([HAS, a, b, qd])
            elif x < 0.93:
                ops.append([rng.choice([ROLES, USERS]), a, doms])
                if kind == "cdm" and len(doms) <= 1:
                    live.add(key)
            elif x < 0.95 and kind[0] != "e" and (double_adds or not cond):
                ops.append([CLEAR])
                present, live = {}, set()
            elif cond and (cur or double_adds) and len(doms) <= 1:
                if kind == "cdm" and key not in live and not double_adds:
                    continue               # (the model-tie-only stratum also registers for manager-less domains)
                u, r = rng.choice(cur) if (cur and rng.random() < 0.8) else (a, b)
                d = (doms[0] if doms else 0) if kind == "cdm" else rng.choice([0, 7])
                if rng.random() < 0.6:
                    nf += 1
                    ops.append([COND, u, r, d, nf])
                    for p in (0, 5, 6):
                        tbl.append([nf, [] if p == 0 else [p], int(rng.random() < 0.5)])
                else:
                    ops.append([PARAMS, u, r, d, [rng.choice([5, 6])]])
            if double_adds and rng.random() < 0.1:
                ops.append([DUMP])
        # closing queries
        for doms in (domsets if kind != "crm" else [[], [7]]):
            for _ in range(6):
                ops.append([HAS, rng.choice(names), rng.choice(names), doms])
        if double_adds:
            ops.append([DUMP])
        yield dict(kind=kind, L=L, tbl=tbl, ops=ops, spec=not double_adds,
                   stratum="double-add (model tie only)" if double_adds else "random")


def gen_chains(rng, kinds):
    """chains around the bound: lengths 0..12 for max_hierarchy_level in {1,2,3,10}, plain / with a back
    edge (cycle) / with self-assignments"""
    for kind in kinds:
        for L in ([10] if kind[0] == "e" else [1, 2, 3, 10]):
            for n in range(0, 13):
                for variant in ("plain", "cycle", "selfloops"):
                    names = list(range(1, n + 2))
                    doms = [1] if kind in ("dm", "cdm", "edm") else []
                    links = [(i, i + 1) for i in range(1, n + 1)]
                    if variant == "cycle":
                        links.append((n + 1, 1))
                    elif variant == "selfloops":
                        links += [(i, i) for i in names if i % 2]
                    rng.shuffle(links)
                    ops = [[ADD, u, r, doms] for (u, r) in links]
                    ops += [[HAS, 1, k, doms] for k in names] + [[HAS, n + 1, 1, doms], [HAS, max(1, n), n + 1, doms]]
                    if n >= 2:
                        ops += [[HAS, 2, n + 1, doms], [ROLES, 2, doms], [USERS, 2, doms]]
                    yield dict(kind=kind, L=L, tbl=[], ops=ops, spec=True, stratum="chains")
    # max_hierarchy_level = 0: nothing is followed, not even the name itself (model tie only — a manager
    # configured to follow nothing is outside "every name holds itself")
    for kind in ("rm", "dm", "crm"):
        doms = [1] if kind == "dm" else []
        yield dict(kind=kind, L=0, tbl=[], ops=[[ADD, 1, 2, doms], [HAS, 1, 1, doms], [HAS, 1, 2, doms], [HAS, 2, 1, doms]],
                   spec=(kind == "crm"), stratum="level-0")


def gen_conditions(rng, count, kinds):
    """graphs with <= 4 conditional links x ALL truth assignments x all queries; parameters decide the
    truth value, and are switched afterwards"""
    for _ in range(count):
        kind = rng.choice(kinds)
        n = rng.randint(3, 5)
        names = list(range(1, n + 1))
        U = [(a, b) for a in names for b in names if a != b or rng.random() < 0.2]
        links = rng.sample(U, rng.randint(2, min(7, len(U))))
        c = rng.randint(1, min(4, len(links)))
        carriers = rng.sample(links, c)
        L = rng.choice([1, 2, 3, 10])
        if kind in ("cdm", "ecdm"):
            d, doms, qdoms = 3, [3], [[3], [4]]
        elif kind == "ecrm":
            d, doms, qdoms = 0, [], [[]]
        else:
            d = rng.choice([0, 7])
            doms, qdoms = [], [[], [7]]
        for bits in itertools.product((0, 1), repeat=c):
            tbl, ops = [], [[ADD, u, r, doms] for (u, r) in links]
            if kind in ("cdm", "ecdm"):
                ops.append([ADD, 1, 2, [4]])          # a second domain without conditions
            pre = []
            for i, (u, r) in enumerate(carriers):
                f = i + 1
                if kind in ("ecrm", "ecdm"):
                    tbl += [[f, ECRM_DEFAULT_PARAMS, bits[i]], [f, [6], 1 - bits[i]]]
                    pre.append([COND, u, r, d, f])
                else:
                    tbl += [[f, [5], bits[i]], [f, [6], 1 - bits[i]], [f, [], bits[i]]]
                    pre.append([COND, u, r, d, f])
                    if rng.random() < 0.7:
                        pre.append([PARAMS, u, r, d, [5]])
            rng.shuffle(pre)
            if kind == "crm" and rng.random() < 0.3:
                # conditions may be registered before the link exists (the Role objects are created on demand)
                ops = pre + ops
            else:
                ops = ops + pre
            queries = [[HAS, a, b, qd] for qd in qdoms for a in names for b in names]
            ops += queries
            # switch every parameter list: each condition flips
            ops += [[PARAMS, u, r, d, [6]] for (u, r) in carriers]
            ops += queries
            # delete and re-add a carrier: the condition stays with the (user, role[, domain]) pair
            u, r = carriers[0]
            ops += [[DEL, u, r, doms], [HAS, u, r, qdoms[0]], [ADD, u, r, doms]]
            ops += queries[:len(names) * len(names)]
            if kind in ("ecrm", "ecdm") and len(links) > 1:
                # a further assignment made through the management API after everything else, then revoked
                u2, r2 = [l for l in links if l != (u, r)][0]
                ops += [[DEL, u2, r2, doms]] + queries[:len(names) * len(names)] + [[ADD, u2, r2, doms]] + queries[:len(names)]
            if kind not in ("ecrm", "ecdm"):
                ops += [[ROLES, a, doms] for a in names] + [[USERS, a, doms] for a in names]
            yield dict(kind=kind, L=L, tbl=tbl, ops=ops, spec=True, stratum="conditions")


# ----------------------------------------------------------------------------- the Enforcer under management histories
# The e* strata above reach the role managers through add/remove_grouping_policy on an enforcer without a store.
# Here the assignments "currently in force" are whatever a general management history leaves in the enforcer's
# grouping policy: single, batch and FILTERED removals on g and on a second role definition g2, delete_user/
# delete_role/..., reloads of a store that was edited behind the enforcer's back (rows gained and lost, a role
# definition losing ALL its rows), reloads that are REFUSED (a malformed grouping row behind new ones; a failing
# adapter), build_role_links(), a replaced role manager.  After every step: g()/g2() in the matcher (enforce),
# has_link on the role manager in force, get_roles_for_user/get_users_for_role(_in_domain) against bounded
# reachability / the direct assignments over the grouping rules get_grouping_policy reports at that moment.
from .. import mgmt                                                            # noqa: E402
from .. import core as _core                                                   # noqa: E402

MG_W = dict(p_add=2, p_add_many=1, p_remove=1, p_remove_many=0.5, p_remove_filtered=0.5, p_update=0.5, p_update_many=0,
            p_update_filtered=0, g_add=7, g_add_many=3, g_remove=5, g_remove_many=2, g_remove_filtered=3, rbac=4,
            clear=0, load=1.5, save=0.5, build=1, flags=0, query=3, probe=0, rm_swap=1)
MG_KINDS = ("rbac", "dom", "rbac_res")
MG_QUERIES = (50, 55, 56, 57, 58, 59)
_MGMT_ORACLE = []


def stratum_stateful_conditions(chk):
    """'an assignment that carries a condition function is followed only WHILE that function returns true for the
    assignment's parameters': the function is asked at query time - its answer may change between two queries with the same
    stored parameters (a switch, a clock), and a function that raises has not returned true.  Real ConditionalRoleManager /
    ConditionalDomainManager and an Enforcer on a conditional model."""
    from casbin.rbac import default_role_manager as d
    import casbin
    n = 0
    flag = {"on": True, "boom": False}

    def cond(*ps):
        if flag["boom"]:
            raise ValueError("cannot evaluate the condition for %r" % (ps,))
        return flag["on"]

    def ask(f):
        try:
            return bool(f())
        except Exception:  # noqa  (the error surfaces: nothing was granted)
            return "raised"

    def build(kind):
        if kind == "crm":
            m = d.ConditionalRoleManager(10)
            m.add_link("a", "b")
            m.add_link("b", "c")
            m.add_link_condition_func("a", "b", cond)
            m.set_link_condition_func_params("a", "b", "p1", "p2")
            return [("has_link(a,b)", lambda: m.has_link("a", "b")), ("has_link(a,c)", lambda: m.has_link("a", "c")),
                    ("has_link(b,c)", lambda: m.has_link("b", "c"))], [None, None, True]
        if kind == "cdm":
            m = d.ConditionalDomainManager(10)
            m.add_link("a", "b", "d1")
            m.add_link("b", "c", "d1")
            m.add_domain_link_condition_func("a", "b", "d1", cond)
            m.set_domain_link_condition_func_params("a", "b", "d1", "p1", "p2")
            return [("has_link(a,b,d1)", lambda: m.has_link("a", "b", "d1")), ("has_link(a,c,d1)", lambda: m.has_link("a", "c", "d1")),
                    ("has_link(b,c,d1)", lambda: m.has_link("b", "c", "d1"))], [None, None, True]
        e = casbin.Enforcer(casbin.Enforcer.new_model(text=MODEL_TEXT["ecrm"]))
        e.add_policy("b", "data1", "read")
        e.add_named_grouping_policy("g", "a", "b", "p1", "p2")
        e.add_named_link_condition_func("g", "a", "b", cond)
        return [("enforce(a,data1,read)", lambda: e.enforce("a", "data1", "read")), ("enforce(b,data1,read)", lambda: e.enforce("b", "data1", "read"))], [None, True]

    for kind in ("crm", "cdm", "ecrm"):
        qs, fixed = build(kind)
        for on, boom in [(True, False), (False, False), (True, False), (True, True), (False, False), (True, False), (False, True), (True, False)]:
            flag["on"], flag["boom"] = on, boom
            for (label, q), fx in zip(qs, fixed):
                got = ask(q)
                n += 1
                chk.count(("stateful-condition", kind, label, on, boom))
                if fx is not None:
                    ok = got == fx
                    want = fx
                elif boom:
                    ok = got in (False, "raised")
                    want = "not granted (False, or the error surfaces)"
                else:
                    ok = got == on
                    want = on
                if not ok:
                    chk.spec_fail(dict(stratum="stateful-conditions", manager=kind, query=label,
                                       condition_now=("raises" if boom else ("returns %s" % on)),
                                       history="answers of the condition before this query: true, false, true, raise, false, true, raise, true (same stored parameters)"),
                                  got, want, "a conditional assignment is followed although its condition does not return true NOW "
                                             "(or is not followed although it does)")
                    chk.extra.setdefault("strata", {})["stateful_conditions"] = n
                    return
    chk.extra.setdefault("strata", {})["stateful_conditions"] = n


def mgmt_oracle():
    if not _MGMT_ORACLE:
        path, log = _core.build_oracle("Mgmt")
        _MGMT_ORACLE.append(_core.Oracle(path) if path and not log else None)
    return _MGMT_ORACLE[0]


def mg_probe(kind, uni):
    ops = mgmt.probe_ops(kind, uni)
    for d in (uni.doms if kind.dom else [None]):
        for a in uni.subs:
            for b in uni.subs:
                ops.append((59, 1, a, b, [d] if kind.dom else []))
    if kind.g2:
        ops += [(59, 2, a, b, []) for a in uni.objs for b in uni.objs]
    return ops


def mg_spec(kind, rows, lf, ops, obs, impl):
    L = ENFORCER_L
    for i, (op, o) in enumerate(zip(ops, obs)):
        c, res = op[0], o[0]
        if c not in MG_QUERIES or res[0] != 0:
            continue
        v, p, g, g2 = res[1], o[3], o[4], o[5]
        if any(len(r) != mgmt.g_arity(kind, 1) for r in g) or any(len(r) != 2 for r in g2):
            continue                                    # not generated: rules of another arity than declared

        def e1(d):
            return [(r[0], r[1]) for r in g if not kind.dom or r[2] == d]
        e2 = [(r[0], r[1]) for r in g2]
        if c == 59:
            pt, a, b, doms = op[1], op[2], op[3], op[4]
            edges = e2 if pt == 2 else e1(doms[0] if doms else 0)
            if bool(v) != reach(edges, a, b, L - 1):
                return [(i, "has_link on the enforcer's role manager differs from bounded reachability over the assignments in force")]
        elif c == 50:
            req = op[1]
            if len(req) != kind.r_arity or kind.eft or kind.eff != 0:
                continue
            d = req[1] if kind.dom else 0
            want = False
            for r in p:
                if len(r) != kind.p_arity or r[kind.i_act] != req[-1] or (kind.dom and r[kind.i_dom] != d):
                    continue
                if not (reach(e2, req[-2], r[kind.i_obj], L - 1) if kind.g2 else req[-2] == r[kind.i_obj]):
                    continue
                if reach(e1(d), req[0], r[kind.i_sub], L - 1):
                    want = True
                    break
            if bool(v) != want:
                return [(i, "g() in the matcher (enforce) differs from bounded reachability over the assignments in force")]
        elif c in (55, 57):
            d = op[2] if c == 57 else 0
            if sorted(v) != sorted(r for (u, r) in e1(d) if u == op[1]):
                return [(i, "get_roles_for_user is not exactly the direct assignments in force")]
        elif c in (56, 58):
            d = op[2] if c == 58 else 0
            if sorted(v) != sorted(u for (u, r) in e1(d) if r == op[1]):
                return [(i, "get_users_for_role is not exactly the direct assignments in force")]
    return []


def _mg_spec_variant(model_compared):
    def sc(kind, rows, lf, ops, obs, impl):
        return mg_spec(kind, rows, lf, ops, obs, impl)
    sc.case_extra = dict(layout="mgmt", model_compared=model_compared)
    return sc


def mg_cases(rng, kind, n, store):
    uni = mgmt.Universe(kind)
    for _ in range(n):
        gen = mgmt.Gen(rng, kind, MG_W)
        rows = gen.rows(rng.randint(0, 8))
        probe = mg_probe(kind, uni)
        ops = list(probe) if rng.random() < 0.5 else []
        for _ in range(rng.randint(2, 9)):
            if store and rng.random() < 0.3:
                ops += mgmt.store_step(rng, kind, gen, len(rows), probe)
            else:
                ops += [o for o in gen.op() if o[0] < 50 or o[0] in MG_QUERIES]
                if rng.random() < 0.35:
                    ops += probe
        ops += probe
        yield (rows, True, mgmt.drop_prefix_aliases(kind, rows, ops))


def run_mgmt_histories(chk, n, strata):
    rng = chk.rng
    own = chk.oracle
    try:
        for kn in MG_KINDS:
            kind = mgmt.KINDS[kn]
            chk.oracle = mgmt_oracle()
            cases = list(mg_cases(rng, kind, n, False))
            mgmt.run_cases(chk, kind, cases, _mg_spec_variant(True), label=f"enforcer-history-{kn}",
                           compare_model=chk.oracle is not None)
            strata[f"enforcer-history-{kn}"] = len(cases)
            chk.oracle = None
            cases = list(mg_cases(rng, kind, n, True))
            mgmt.run_cases(chk, kind, cases, _mg_spec_variant(False), label=f"enforcer-history-store-{kn}", compare_model=False)
            strata[f"enforcer-history-store-{kn}"] = len(cases)
    finally:
        chk.oracle = own


# ----------------------------------------------------------------------------- driver
def digest(case):
    return hashlib.blake2b(repr((case["kind"], case["L"], case["tbl"], case["ops"])).encode(), digest_size=8).digest()


def nontrivial(case, obs):
    """some assignment exists and some has_link query between different names was answered"""
    has_add = any(o[0] == ADD for o in case["ops"])
    q = any(o[0] == HAS and o[1] != o[2] for o in case["ops"])
    return has_add and q


def process(chk, cases, state):
    if not cases:
        return
    impl = [run_impl(c) for c in cases]
    reqs = [model_request(c) for c in cases]
    if chk.oracle is None:
        chk.notes.append("oracle unavailable; correspondence not run")
        replies = [None] * len(cases)
    else:
        replies = chk.oracle.query(reqs)
    for c, obs, req, rep in zip(cases, impl, reqs, replies):
        nq = sum(1 for o in c["ops"] if o[0] in (HAS, ROLES, USERS))
        chk.count(digest(c) if nontrivial(c, obs) else None, n=max(nq, 1))
        state["strata"][c["stratum"]] = state["strata"].get(c["stratum"], 0) + 1
        state["kinds"][c["kind"]] = state["kinds"].get(c["kind"], 0) + 1
        chk.traces += 1
        if state["n"] % 997 == 0:
            chk.sample(dict(case=dict(c, ops=c["ops"][:12] + (["..."] if len(c["ops"]) > 12 else [])), impl=obs[:12]))
        state["n"] += 1
        bad = spec_check(c, obs) if c["spec"] else []
        if bad:
            if len(chk.spec_failures) < 3:
                small = shrink(c, bad[0][0])
                so = run_impl(small)
                sb = spec_check(small, so)
                if sb:
                    chk.spec_fail(small, so, dict(op_index=sb[-1][0], expected=sb[-1][1]), sb[-1][2])
                else:
                    chk.spec_fail(c, obs, dict(op_index=bad[0][0], expected=bad[0][1]), bad[0][2])
            else:
                chk.spec_fail(c, obs, dict(op_index=bad[0][0], expected=bad[0][1]), bad[0][2])
            continue
        if rep is None:
            continue
        mod = canon_model(c, rep)
        if obs != mod:
            k = next((i for i, (x, y) in enumerate(zip(obs, mod)) if x != y), min(len(obs), len(mod)))
            chk.disagree(c, obs, mod, where=f"{c['kind']} history, stratum {c['stratum']}, first difference at call {k}: "
                                            f"{c['ops'][k] if k < len(c['ops']) else '?'}")
        elif len(state["vm"]) < state["vm_cap"] and len(c["ops"]) <= 60 and state["n"] % state["vm_every"] == 0:
            state["vm"].append((req, rep))


def spec_tie(chk, rng, n):
    """the Python spec function against the Coq spec function reach_le (proved sound in Props/C03.v)"""
    if chk.oracle is None:
        return
    names = list(range(1, n + 1))
    U = [(a, b) for a in names for b in names]
    reqs, want = [], []
    for mask in range(1 << len(U)):
        if n > 3 and rng.random() > 0.02:
            continue
        ls = [U[i] for i in range(len(U)) if mask >> i & 1]
        for k in range(0, n + 1):
            for a in names:
                for b in names:
                    reqs.append((5, [[list(l) for l in ls], k, a, b]))
                    want.append(int(reach(ls, a, b, k)))
    got = chk.oracle.query(reqs)
    for r, w, g in zip(reqs, want, got):
        chk.count(None)
        if w != g:
            chk.disagree(dict(kind="python-spec-vs-coq-spec", request=r[1]), w, g, where="reach() vs reach_le")
            break
    chk.extra["spec_tie_cases"] = len(reqs)


def run(chk, tier):
    rng = chk.rng
    thorough = tier == "thorough"
    state = dict(strata={}, kinds={}, n=0, vm=[], vm_cap=1200 if thorough else 150, vm_every=97 if thorough else 41)

    def feed(gen, batch=4000):
        buf = []
        for c in gen:
            buf.append(c)
            if len(buf) >= batch:
                process(chk, buf, state)
                buf = []
        process(chk, buf, state)

    # G: the Enforcer under management histories (first: cheap, and a failing input here spares the escalation)
    run_mgmt_histories(chk, 600 if thorough else 60, state["strata"])
    # A: exhaustive small scopes first (minimal counterexamples for free)
    feed(gen_exhaustive(rng, 3, ["rm", "dm", "crm"], lambda m: [1, 2, 3, 10]))
    feed(gen_chains(rng, ["rm", "dm", "crm", "cdm", "erm", "edm"]))
    if thorough:
        cyc = [1, 2, 3, 4, 10]
        feed(gen_exhaustive(rng, 4, ["rm", "dm", "crm"], lambda m: [cyc[m % 5], cyc[(m // 5 + 2) % 5]] if m % 7 == 0 else [cyc[m % 5]]))
    # B: random histories, queries interleaved, real managers and through the Enforcer
    feed(gen_random(rng, 30000 if thorough else 3000, ["rm", "dm", "dm", "crm", "cdm"]))
    feed(gen_random(rng, 4000 if thorough else 500, ["erm", "edm"]))
    # D: link conditions, all truth assignments
    feed(gen_conditions(rng, 1500 if thorough else 150, ["crm", "crm", "cdm", "ecrm", "ecdm"]))
    # F: repeated adds (outside the property's quantifier): the model must still be the code
    feed(gen_random(rng, 10000 if thorough else 1200, ["rm", "dm", "crm", "cdm"], double_adds=True))
    spec_tie(chk, rng, 3)
    if thorough:
        spec_tie(chk, rng, 4)
    chk.exhaustive = True
    chk.extra["strata"] = state["strata"]
    chk.extra["histories_per_manager"] = state["kinds"]
    chk.extra["exhaustive_scope"] = ("all 512 digraphs on 3 names" + (" and all 65536 on 4 names" if thorough else "")
                                     + " (self-assignments included) x all (subject, role) queries x "
                                       "max_hierarchy_level in {1,2,3,10}; chains 0..12 x {1,2,3,10}")
    if state["vm"]:
        ok, n, log = vm_crosscheck(chk.prop, "From PyCasbin Require Import Base RoleGraph CondRM.", "oracle_C03",
                                   [r for r, _ in state["vm"]], [p for _, p in state["vm"]], chunk=100)
        chk.vm_checked += n
        if not ok:
            chk.disagree(dict(kind="extraction-vs-vm_compute"), "extracted oracle", log, where="vm_compute cross-check")


def replay(chk):
    rec = json.load(open(chk.replay_file))
    c = rec.get("case") or {}
    if c.get("stratum") == "stateful-conditions":
        chk.spec_failures = []
        stratum_stateful_conditions(chk)
        if chk.spec_failures:
            print("replay:", json.dumps(chk.spec_failures[0])[:700])
            print(f"VIOLATION property={chk.prop} replay={chk.replay_file}")
            sys.exit(1)
        print("replay passes: the stratum reports nothing on this tree")
        sys.exit(0)
    if "ops" not in c:
        print("replay file names a broken theorem/correspondence, not an input:", json.dumps(rec.get("broken"))[:800])
        sys.exit(1)
    if c.get("layout") == "mgmt":
        chk.oracle = mgmt_oracle() if c.get("model_compared") else None
        return mgmt.replay_case(chk, mg_spec)
    c.setdefault("tbl", [])
    c.setdefault("spec", True)
    obs = run_impl(c)
    mod = canon_model(c, chk.oracle.query([model_request(c)])[0]) if chk.oracle else None
    bad = spec_check(c, obs)
    print(f"replay: kind={c['kind']} L={c['L']} calls={len(c['ops'])}")
    print(f"  impl ={obs}")
    print(f"  model={mod}")
    if bad:
        i, exp, what = bad[0]
        print(f"  call {i} {c['ops'][i]}: implementation {obs[i]}, spec {exp}: {what}")
        print(f"VIOLATION property={chk.prop} replay={chk.replay_file}")
        sys.exit(1)
    print("replay passes: implementation agrees with the spec on this input")
    sys.exit(0)


def main():
    chk = Check(PROP)
    chk.rule = (
        "a case is a history of calls on one role manager (RoleManager, DomainManager, ConditionalRoleManager, "
        "ConditionalDomainManager, or the same calls through Enforcer: add/remove_grouping_policy, enforce with a g() "
        "matcher, get_roles_for_user(_in_domain), get_users_for_role(_in_domain)): adds and deletes in shuffled order "
        "(a superset is added and pruned; no assignment is added while in force), queries interleaved so that "
        "per-domain caches exist before later changes, then queries.  Strata: EVERY digraph on 3 (quick) / 4 "
        "(thorough) names incl. self-assignments x all (subject, role) queries x max_hierarchy_level in {1,2,3,10}; "
        "chains of 0..12 links (plain, closed into a cycle, with self-assignments) x {1,2,3,10}; random graphs on "
        "<= 6 names with random add/delete/clear orders over 2-3 domains and 0/1/2 domain arguments; <= 4 conditional "
        "links x all truth assignments x parameter switches x delete/re-add.  Every has_link/get_roles/get_users "
        "answer of the implementation is compared with the spec (shortest-path reachability within the bound over "
        "the SET of assignments in force / the direct assignments) and with the extracted model.  Histories with "
        "repeated adds, max_hierarchy_level 0 on the plain managers and clear() on conditional managers are run for "
        "the model tie only (outside the property's quantifier).  Non-trivial: at least one assignment and one "
        "has_link query between two different names; distinct by (manager, bound, condition table, call sequence).  "
        "Enforcer-history strata (shared management harness, RBAC / domain / resource-role models with a store): random "
        "management histories - single, batch and filtered grouping calls on g and g2, RBAC-API deletions, reloads of a "
        "store edited out of band (rows gained/lost, a role definition losing all rows), refused reloads (malformed "
        "grouping row, failing adapter), build_role_links, a replaced role manager - with enforce over all requests, "
        "has_link over all pairs and the role queries after each step, each answer compared with bounded reachability / "
        "the direct assignments over the grouping rules reported at that moment (and with the Mgmt model where the "
        "history stays inside it).")
    chk.assumptions = [
        "\"up to the configured maximum depth\" is read as the code's own countdown: RoleManager/DomainManager follow "
        "paths of k < max_hierarchy_level links (default 10: nine hops yes, ten no), the conditional managers k <= "
        "max_hierarchy_level; both never go beyond max_hierarchy_level (Props/C03.v states each bound exactly)",
        "no assignment is added while it is in force (the policy store is duplicate-free: C06; what happens otherwise "
        "is C03_double_add_refuted / C03_domain_double_add_refuted and belongs to C04)",
        "link condition functions are pure total boolean functions of their stored parameters (Section variable "
        "`cond`; the oracle gets the truth table as data)",
        "no pattern / domain matching functions (C14); custom role managers are out of scope",
        "ConditionalDomainManager: conditions are registered after the domain has received a link (as the Enforcer "
        "does); a condition registered for a domain without a manager is dropped by the code (modelled, not spec'ed)",
    ]
    chk.trusted = ["hand-written models coq/theories/RoleGraph.v, CondRM.v tied to role_manager.py by this "
                   "differential check only (no translator)",
                   "Python spec function reach() tied to the Coq spec function reach_le (C03_spec_function_sound) "
                   "on all digraphs on 3 names x bounds 0..3"]
    chk.build(translators=["haslink", "condhaslink"])
    if chk.replay_file:
        return replay(chk)
    run(chk, chk.tier)
    stratum_stateful_conditions(chk)
    if chk.tier == "quick" and (chk.broken() or chk.anchor_changed) and not chk.spec_failures:
        chk.notes.append("escalated to thorough budget after a broken proof/correspondence")
        run(chk, "thorough")
    chk.finish()


if __name__ == "__main__":
    main()
