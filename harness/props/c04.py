"""C04 — role links always reflect the grouping policy (revocation takes effect).
Proof: Props/C04.v.  Correspondence: management histories with probes (decisions over the whole request
universe + role queries, issued as part of the history so that per-domain caches exist before later
changes) on the real Enforcer vs the Mgmt model.  SPEC on the implementation: every query result equals
the result of the same query on a FRESH real Enforcer constructed from the current policy."""
from ..core import Check
from .. import mgmt

PROP = "C04"
W = dict(p_add=3, p_add_many=1, p_remove=2, p_remove_many=1, p_remove_filtered=1, p_update=1, p_update_many=0.5,
         p_update_filtered=0, g_add=7, g_add_many=5, g_remove=6, g_remove_many=4, g_remove_filtered=3, rbac=6,
         clear=1, load=1.5, save=0.5, build=0.5, flags=0, query=4, probe=3, long_g=0.1, alias_remove=0.5)
QUERY_OPS = set(range(50, 71))
KNOWN_PREFIX = "C04/overlong-rules-share-a-link"


def known_probe(chk):
    """the listed known finding, replayed on every run: two grouping rules with the same declared-arity prefix (one
    carries an extra field) share ONE role link; removing either takes the link away although the other rule stays"""
    A = mgmt.ATOMS.a
    kind = mgmt.KINDS["rbac"]
    uni = mgmt.Universe(kind)
    rows = [(0, [A("admin"), A("data1"), A("read")]), (1, [A("alice"), A("admin")])]
    ops = [(1, 1, [A("alice"), A("admin"), A("data2")])] + mgmt.probe_ops(kind, uni) + \
          [(3, 1, [A("alice"), A("admin"), A("data2")])] + mgmt.probe_ops(kind, uni)
    mgmt.run_cases(chk, kind, [(rows, True, ops)], spec_check, label="known-finding-probe", compare_model=False)


def fresh_results(kind, stores_obs, qops):
    rows = [(0, r) for r in stores_obs[3]] + [(1, r) for r in stores_obs[4]] + [(2, r) for r in stores_obs[5]]
    try:
        fresh = mgmt.Impl(kind.with_(adapter=True, watcher=0), rows, True)
    except Exception as exc:  # noqa  (the current policy cannot be loaded by a fresh enforcer: e.g. a short g rule)
        return None
    return [fresh.step(op)[0] for op in qops]


def spec_check(kind, rows, lf, ops, obs, impl):
    out = []
    i = 0
    n = len(ops)
    while i < n:
        if ops[i][0] in QUERY_OPS:
            j = i
            while j < n and ops[j][0] in QUERY_OPS:
                j += 1
            exp = fresh_results(kind, obs[i], ops[i:j])
            if exp is not None:
                for k in range(i, j):
                    if obs[k][0] != exp[k - i]:
                        tag = KNOWN_PREFIX if mgmt.prefix_aliases(kind, rows, ops[:k + 1]) else None
                        out.append((k, f"query result differs from a freshly constructed enforcer holding the current policy", tag))
                        return out
            i = j
        else:
            i += 1
    return out


W_CFG = dict(p_add=3, p_add_many=1, p_remove=2, g_add=7, g_add_many=3, g_remove=6, g_remove_many=2, g_remove_filtered=2,
             rbac=4, clear=1, load=2.5, save=1, build=2.5, flags=3, query=6, probe=3, rm_swap=2)


def spec_check_cfg(kind, rows, lf, ops, obs, impl):
    """configuration stratum: the fresh-enforcer SPEC is only demanded while auto_build_role_links has been on
    since the last rebuild (the property's premise); everything else is model correspondence"""
    cut = len(ops)
    for i, op in enumerate(ops):
        if op[0] in (36, 38) and not op[1]:      # auto-build off / enforcement disabled: outside the premise
            cut = i
            break
    out = spec_check(kind, rows, lf, ops[:cut], obs[:cut], impl)
    if out or kind.eft or kind.g2 or not kind.g or kind.eff != 0:
        return out
    # whatever the configuration: within one block of queries, g() in the matcher and the role queries read the same
    # role links - a request is allowed iff some rule's object/action(/domain) are equal and its subject is reachable
    # from the request subject along the roles get_roles_for_user(_in_domain) reports in the same block
    enabled = True
    i, n = 0, len(ops)
    while i < n:
        if ops[i][0] == 38:
            enabled = bool(ops[i][1])
        if ops[i][0] not in QUERY_OPS:
            i += 1
            continue
        j = i
        while j < n and ops[j][0] in QUERY_OPS:
            j += 1
        roles = {}
        for k in range(i, j):
            op, res = ops[k], obs[k][0]
            if op[0] == 55 and res[0] == 0:
                roles[(0, op[1])] = res[1]
            elif op[0] == 57 and res[0] == 0:
                roles[(op[2], op[1])] = res[1]
        if roles and enabled:
            for k in range(i, j):
                op, res = ops[k], obs[k][0]
                if op[0] != 50 or res[0] != 0:
                    continue
                req = op[1]
                if len(req) != kind.r_arity:
                    continue
                dm = req[1] if kind.dom else 0
                if (dm, req[0]) not in roles:
                    continue
                reach, front = {req[0]}, [req[0]]
                while front:
                    x = front.pop()
                    for r in roles.get((dm, x), []):
                        if r not in reach:
                            reach.add(r)
                            front.append(r)
                want = any(r[kind.i_sub] in reach and (not kind.dom or r[kind.i_dom] == dm)
                           and r[kind.i_obj] == req[-2] and r[kind.i_act] == req[-1] for r in obs[k][3])
                if bool(res[1]) != want:
                    return [(k, "enforce disagrees with the role links reported by get_roles_for_user in the same block of queries "
                                "(g() in the matcher does not follow the role manager in force)")]
        i = j
    return out


def targeted_cfg_cases(kind):
    """role managers out of step with the model and brought back: every sequence
    [probe] (auto-build off) x {load, clear, -} x {build_role_links, -} x one grouping call x {build_role_links, -},
    probes after each step.  After load_policy with auto-build off the model's assertions hold deep copies of the
    role managers until build_role_links re-binds them; g()/g2() in the matcher must follow them at every call."""
    import itertools
    A = mgmt.ATOMS.a
    uni = mgmt.Universe(kind)
    d = [A("d1")] if kind.dom else []
    l1 = [A("alice"), A("admin")] + d
    l2 = [A("bob"), A("admin")] + d
    p0 = [(0, [A("admin")] + d + [A("data1"), A("read")]), (1, l1)]
    probe = mgmt.probe_ops(kind, uni)
    gops = [(1, 1, l2), (3, 1, l1), (2, 1, [l2]), (4, 1, [l1]), (5, 1, 1, [A("admin")]), (10, A("alice"))]
    # the role manager itself replaced (set_role_manager + build_role_links) after the enforcer has answered requests
    for gop in gops:
        for again in (False, True):
            ops = list(probe) + [(39,)] + list(probe) + [gop] + list(probe)
            if again:
                ops += [(39,)] + list(probe)
            yield (p0, True, ops)
    for first_probe, mid, b1, gop, b2, back_on in itertools.product((True, False), ((31,), (30,), None), (True, False), gops,
                                                                    (True, False), (True, False)):
        ops = list(probe) if first_probe else []
        ops.append((36, False))
        if mid:
            ops.append(mid)
            ops.extend(probe)
        if b1:
            ops.append((34,))
            ops.extend(probe)
        ops.append(gop)
        ops.extend(probe)
        if b2:
            ops.append((34,))
            ops.extend(probe)
        if back_on:
            ops.append((36, True))
            ops.append((31,))
            ops.extend(probe)
        yield (p0, True, ops)


def targeted_cases(kind):
    """small exhaustive family: every pair/triple of grouping calls over a 2-link universe, probes after each"""
    import itertools
    A = mgmt.ATOMS.a
    uni = mgmt.Universe(kind)
    d = [A("d1")] if kind.dom else []
    l1 = [A("alice"), A("admin")] + d
    l2 = [A("bob"), A("admin")] + d
    alpha = [(1, 1, l1), (1, 1, l2), (3, 1, l1), (2, 1, [l1, l2]), (2, 1, [l2, l2]), (4, 1, [l1, l2]), (4, 1, [l1]),
             (5, 1, 1, [A("admin")]), (30,), (31,), (10, A("alice")), (11, A("admin"))]
    p0 = [(0, [A("admin")] + d + [A("data1"), A("read")])]
    probe = mgmt.probe_ops(kind, uni)
    for n in (1, 2, 3):
        for seq in itertools.product(alpha, repeat=n):
            ops = []
            for o in seq:
                ops.append(o)
                ops.extend(probe)
            yield (p0, True, ops)


def targeted_cases_g2(kind):
    """the second role definition (resource roles g2): every pair of calls from its own alphabet - single, batch and
    FILTERED removals included - with a full probe after each call"""
    import itertools
    A = mgmt.ATOMS.a
    uni = mgmt.Universe(kind)
    l1 = [A("data1"), A("grp")]
    l2 = [A("data2"), A("grp")]
    alpha = [(1, 2, l1), (1, 2, l2), (3, 2, l1), (2, 2, [l1, l2]), (4, 2, [l1, l2]), (4, 2, [l2]),
             (5, 2, 0, [A("data1")]), (5, 2, 1, [A("grp")]), (5, 2, 0, [0, A("grp")]), (30,), (31,)]
    p0 = [(0, [A("alice"), A("grp"), A("read")]), (2, l1)]
    probe = mgmt.probe_ops(kind, uni)
    for n in (1, 2):
        for seq in itertools.product(alpha, repeat=n):
            ops = []
            for o in seq:
                ops.append(o)
                ops.extend(probe)
            yield (p0, True, ops)


def run(chk, n_random, targeted_len):
    rng = chk.rng
    known_probe(chk)
    kind = mgmt.KINDS["rbac_res"]
    cases = list(targeted_cases_g2(kind))
    mgmt.run_cases(chk, kind, cases, spec_check, label="targeted-g2")
    chk.extra.setdefault("strata", {})["targeted_g2_len<=2"] = len(cases)
    for kn in ("rbac", "dom"):
        kind = mgmt.KINDS[kn]
        cases = [c for c in targeted_cases(kind) if sum(1 for o in c[2] if o[0] < 50) <= targeted_len]
        mgmt.run_cases(chk, kind, cases, spec_check, label=f"targeted-{kn}")
        chk.extra.setdefault("strata", {})[f"targeted_{kn}_len<={targeted_len}"] = len(cases)
    chk.exhaustive = True
    for kn in ("rbac", "rbac_res", "dom", "rbac_deny", "dom_deny"):
        kind = mgmt.KINDS[kn]
        cases = []
        for _ in range(n_random):
            g = mgmt.Gen(rng, kind, W)
            rows = g.rows(rng.randint(0, 8))
            cases.append((rows, True, mgmt.drop_prefix_aliases(kind, rows, g.history(rng.randint(4, 18)))))
        mgmt.run_cases(chk, kind, cases, spec_check, label=f"random-{kn}")
        chk.extra["strata"][f"random_{kn}"] = len(cases)
    for kn in ("rbac", "dom"):
        kind = mgmt.KINDS[kn]
        cases = list(targeted_cfg_cases(kind))
        mgmt.run_cases(chk, kind, cases, spec_check_cfg, label=f"targeted-config-{kn}")
        chk.extra["strata"][f"targeted_config_{kn}"] = len(cases)
    # configuration stratum: enable_auto_build_role_links / enable_auto_save / enable_enforce toggles, reloads with
    # auto-build off followed by build_role_links, decisions before and after (the role functions g/g2 in the
    # matcher must follow the role managers in force at every call)
    for kn in ("rbac", "dom", "rbac_res"):
        kind = mgmt.KINDS[kn]
        cases = []
        for _ in range(max(20, n_random // 2)):
            g = mgmt.Gen(rng, kind, W_CFG)
            rows = g.rows(rng.randint(0, 8))
            cases.append((rows, True, g.history(rng.randint(4, 18))))
        mgmt.run_cases(chk, kind, cases, spec_check_cfg, label=f"config-{kn}")
        chk.extra["strata"][f"config_{kn}"] = len(cases)


def main():
    chk = Check(PROP)
    chk.rule = ("management histories over role-assignment and permission calls (single, batch, filtered, delete_user/"
                "delete_role, clear, reload, duplicate / rejected / no-op calls) interleaved with probes; targeted: all "
                "sequences of <= 2 (quick) / 3 (thorough) calls from a 12-call alphabet with a full probe after each call, "
                "plain RBAC and domain models; random histories on RBAC / resource roles / domains / deny models; "
                "non-trivial = at least one mutating call; distinct by (kind, mutating calls)")
    chk.assumptions = [
        "auto_build_role_links stays on (the property's own premise); grouping rules have at least the declared arity; rules "
        "with MORE fields are generated too, but two rules sharing their declared-arity prefix are the listed finding "
        "C04/overlong-rules-share-a-link (probed on every run, excluded from the random strata)",
        "no matching functions registered (pattern assignments are C14)",
        "the fresh reference enforcer is a real casbin.Enforcer loading the current policy through an in-memory adapter",
    ]
    chk.trusted = ["hand-written models coq/theories/{Policy,RoleGraph,Mgmt}.v tied by the differential history correspondence"]
    chk.build(oracle_name="Mgmt")
    if chk.replay_file:
        return mgmt.replay_case(chk, spec_check)
    if chk.tier == "thorough":
        run(chk, 1200, 3)
    else:
        run(chk, 120, 2)
        if (chk.broken() or chk.anchor_changed) and not chk.spec_failures:
            run(chk, 600, 3)
    chk.finish()


if __name__ == "__main__":
    main()
