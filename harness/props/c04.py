"""C04 — role links always reflect the grouping policy (revocation takes effect).
Proof: Props/C04.v.  Correspondence: management histories with probes (decisions over the whole request
universe + role queries, issued as part of the history so that per-domain caches exist before later
changes) on the real Enforcer vs the Mgmt model.  SPEC on the implementation: every query result equals
the result of the same query on a FRESH real Enforcer constructed from the current policy."""
from ..core import Check
from .. import mgmt

PROP = "C04"
W = dict(p_add=3, p_add_many=1, p_remove=2, p_remove_many=1, p_remove_filtered=1, p_update=1, p_update_many=0.5,
         p_update_filtered=0, g_add=7, g_add_many=5, g_remove=6, g_remove_many=4, g_remove_filtered=3, rbac=6,
         clear=1, load=1.5, save=0.5, build=0.5, flags=0, query=4, probe=3, long_g=0.1, alias_remove=0.5)
QUERY_OPS = set(range(50, 71))
KNOWN_PREFIX = "C04/overlong-rules-share-a-link"


def known_probe(chk):
    """the listed known finding, replayed on every run: two grouping rules with the same declared-arity prefix (one
    carries an extra field) share ONE role link; removing either takes the link away although the other rule stays"""
    A = mgmt.ATOMS.a
    kind = mgmt.KINDS["rbac"]
    uni = mgmt.Universe(kind)
    rows = [(0, [A("admin"), A("data1"), A("read")]), (1, [A("alice"), A("admin")])]
    ops = [(1, 1, [A("alice"), A("admin"), A("data2")])] + mgmt.probe_ops(kind, uni) + \
          [(3, 1, [A("alice"), A("admin"), A("data2")])] + mgmt.probe_ops(kind, uni)
    mgmt.run_cases(chk, kind, [(rows, True, ops)], spec_check, label="known-finding-probe", compare_model=False)


def fresh_results(kind, stores_obs, qops, impl_kwargs=None):
    rows = [(0, r) for r in stores_obs[3]] + [(1, r) for r in stores_obs[4]] + [(2, r) for r in stores_obs[5]]
    try:
        fresh = mgmt.Impl(kind.with_(adapter=True, watcher=0), rows, True, **(impl_kwargs or {}))
    except Exception as exc:  # noqa  (the current policy cannot be loaded by a fresh enforcer: e.g. a short g rule)
        return None
    return [fresh.step(op)[0] for op in qops]


def spec_check(kind, rows, lf, ops, obs, impl, impl_kwargs=None):
    out = []
    i = 0
    n = len(ops)
    while i < n:
        if ops[i][0] in QUERY_OPS:
            j = i
            while j < n and ops[j][0] in QUERY_OPS:
                j += 1
            exp = fresh_results(kind, obs[i], ops[i:j], impl_kwargs)
            if exp is not None:
                for k in range(i, j):
                    if obs[k][0] != exp[k - i]:
                        tag = KNOWN_PREFIX if mgmt.prefix_aliases(kind, rows, ops[:k + 1]) else None
                        out.append((k, f"query result differs from a freshly constructed enforcer holding the current policy", tag))
                        return out
            i = j
        else:
            i += 1
    return out


W_CFG = dict(p_add=3, p_add_many=1, p_remove=2, g_add=7, g_add_many=3, g_remove=6, g_remove_many=2, g_remove_filtered=2,
             rbac=4, clear=1, load=2.5, save=1, build=2.5, flags=3, query=6, probe=3, rm_swap=2)


def spec_check_cfg(kind, rows, lf, ops, obs, impl):
    """configuration stratum: the fresh-enforcer SPEC is only demanded while auto_build_role_links has been on
    since the last rebuild (the property's premise); everything else is model correspondence"""
    cut = len(ops)
    for i, op in enumerate(ops):
        if op[0] in (36, 38) and not op[1]:      # auto-build off / enforcement disabled: outside the premise
            cut = i
            break
    out = spec_check(kind, rows, lf, ops[:cut], obs[:cut], impl)
    if out or kind.eft or kind.g2 or not kind.g or kind.eff != 0:
        return out
    # whatever the configuration: within one block of queries, g() in the matcher and the role queries read the same
    # role links - a request is allowed iff some rule's object/action(/domain) are equal and its subject is reachable
    # from the request subject along the roles get_roles_for_user(_in_domain) reports in the same block
    enabled = True
    i, n = 0, len(ops)
    while i < n:
        if ops[i][0] == 38:
            enabled = bool(ops[i][1])
        if ops[i][0] not in QUERY_OPS:
            i += 1
            continue
        j = i
        while j < n and ops[j][0] in QUERY_OPS:
            j += 1
        roles = {}
        for k in range(i, j):
            op, res = ops[k], obs[k][0]
            if op[0] == 55 and res[0] == 0:
                roles[(0, op[1])] = res[1]
            elif op[0] == 57 and res[0] == 0:
                roles[(op[2], op[1])] = res[1]
        if roles and enabled:
            for k in range(i, j):
                op, res = ops[k], obs[k][0]
                if op[0] != 50 or res[0] != 0:
                    continue
                req = op[1]
                if len(req) != kind.r_arity:
                    continue
                dm = req[1] if kind.dom else 0
                if (dm, req[0]) not in roles:
                    continue
                reach, front = {req[0]}, [req[0]]
                while front:
                    x = front.pop()
                    for r in roles.get((dm, x), []):
                        if r not in reach:
                            reach.add(r)
                            front.append(r)
                want = any(r[kind.i_sub] in reach and (not kind.dom or r[kind.i_dom] == dm)
                           and r[kind.i_obj] == req[-2] and r[kind.i_act] == req[-1] for r in obs[k][3])
                if bool(res[1]) != want:
                    return [(k, "enforce disagrees with the role links reported by get_roles_for_user in the same block of queries "
                                "(g() in the matcher does not follow the role manager in force)")]
        i = j
    return out


def targeted_cfg_cases(kind):
    """role managers out of step with the model and brought back: every sequence
    [probe] (auto-build off) x {load, clear, -} x {build_role_links, -} x one grouping call x {build_role_links, -},
    probes after each step.  After load_policy with auto-build off the model's assertions hold deep copies of the
    role managers until build_role_links re-binds them; g()/g2() in the matcher must follow them at every call."""
    import itertools
    A = mgmt.ATOMS.a
    uni = mgmt.Universe(kind)
    d = [A("d1")] if kind.dom else []
    l1 = [A("alice"), A("admin")] + d
    l2 = [A("bob"), A("admin")] + d
    p0 = [(0, [A("admin")] + d + [A("data1"), A("read")]), (1, l1)]
    probe = mgmt.probe_ops(kind, uni)
    gops = [(1, 1, l2), (3, 1, l1), (2, 1, [l2]), (4, 1, [l1]), (5, 1, 1, [A("admin")]), (10, A("alice"))]
    # the role manager itself replaced (set_role_manager + build_role_links) after the enforcer has answered requests
    for gop in gops:
        for again in (False, True):
            ops = list(probe) + [(39,)] + list(probe) + [gop] + list(probe)
            if again:
                ops += [(39,)] + list(probe)
            yield (p0, True, ops)
    for first_probe, mid, b1, gop, b2, back_on in itertools.product((True, False), ((31,), (30,), None), (True, False), gops,
                                                                    (True, False), (True, False)):
        ops = list(probe) if first_probe else []
        ops.append((36, False))
        if mid:
            ops.append(mid)
            ops.extend(probe)
        if b1:
            ops.append((34,))
            ops.extend(probe)
        ops.append(gop)
        ops.extend(probe)
        if b2:
            ops.append((34,))
            ops.extend(probe)
        if back_on:
            ops.append((36, True))
            ops.append((31,))
            ops.extend(probe)
        yield (p0, True, ops)


def targeted_cases(kind):
    """small exhaustive family: every pair/triple of grouping calls over a 2-link universe, probes after each"""
    import itertools
    A = mgmt.ATOMS.a
    uni = mgmt.Universe(kind)
    d = [A("d1")] if kind.dom else []
    l1 = [A("alice"), A("admin")] + d
    l2 = [A("bob"), A("admin")] + d
    alpha = [(1, 1, l1), (1, 1, l2), (3, 1, l1), (2, 1, [l1, l2]), (2, 1, [l2, l2]), (4, 1, [l1, l2]), (4, 1, [l1]),
             (5, 1, 1, [A("admin")]), (30,), (31,), (10, A("alice")), (11, A("admin"))]
    p0 = [(0, [A("admin")] + d + [A("data1"), A("read")])]
    probe = mgmt.probe_ops(kind, uni)
    for n in (1, 2, 3):
        for seq in itertools.product(alpha, repeat=n):
            ops = []
            for o in seq:
                ops.append(o)
                ops.extend(probe)
            yield (p0, True, ops)


def targeted_cases_g2(kind):
    """the second role definition (resource roles g2): every pair of calls from its own alphabet - single, batch and
    FILTERED removals included - with a full probe after each call"""
    import itertools
    A = mgmt.ATOMS.a
    uni = mgmt.Universe(kind)
    l1 = [A("data1"), A("grp")]
    l2 = [A("data2"), A("grp")]
    alpha = [(1, 2, l1), (1, 2, l2), (3, 2, l1), (2, 2, [l1, l2]), (4, 2, [l1, l2]), (4, 2, [l2]),
             (5, 2, 0, [A("data1")]), (5, 2, 1, [A("grp")]), (5, 2, 0, [0, A("grp")]), (30,), (31,)]
    p0 = [(0, [A("alice"), A("grp"), A("read")]), (2, l1)]
    probe = mgmt.probe_ops(kind, uni)
    for n in (1, 2):
        for seq in itertools.product(alpha, repeat=n):
            ops = []
            for o in seq:
                ops.append(o)
                ops.extend(probe)
            yield (p0, True, ops)


# ----------------------------------------------------------------------------- reloads of an edited store; refused reloads
W_STORE = dict(p_add=2, p_add_many=1, p_remove=1, p_remove_many=0.5, p_remove_filtered=0.5, p_update=0.5, p_update_many=0,
               p_update_filtered=0, g_add=6, g_add_many=3, g_remove=5, g_remove_many=2, g_remove_filtered=2, rbac=4,
               clear=0, load=1, save=0.5, build=0.5, flags=0, query=3, probe=1)


def spec_check_store(kind, rows, lf, ops, obs, impl):
    return spec_check(kind, rows, lf, ops, obs, impl)


spec_check_store.case_extra = dict(variant="store", model_compared=False)


def store_cases(rng, kind, n):
    """"clearing and reloading": the store the enforcer reloads was edited behind its back (rows gained and lost, a role
    definition losing all its rows), or the reload is REFUSED (a malformed grouping row behind new ones, a failing
    adapter) - the policy in force is then the old one, and every decision and role query must still equal a fresh
    enforcer holding it.  Full probe after every reload."""
    uni = mgmt.Universe(kind)
    probe = mgmt.probe_ops(kind, uni)
    for _ in range(n):
        gen = mgmt.Gen(rng, kind, W_STORE)
        rows = gen.rows(rng.randint(0, 8))
        ops = list(probe) if rng.random() < 0.5 else []
        for _ in range(rng.randint(2, 8)):
            if rng.random() < 0.35:
                ops += mgmt.store_step(rng, kind, gen, len(rows), probe)
            else:
                ops += gen.op()
        ops += probe
        yield (rows, True, mgmt.drop_prefix_aliases(kind, rows, ops))


# ----------------------------------------------------------------------------- a domain matching function on both sides
import casbin                                                                  # noqa: E402
from casbin import util as _util                                               # noqa: E402

STAR = mgmt.ATOMS.a("*")          # interned at import time so that replays decode the same atom


class EnforcerWithDomainMatcher(casbin.Enforcer):
    """util.key_match registered as the DOMAIN matching function of g: an assignment recorded for the domain "*" holds
    in every domain"""
    def __init__(self, *a, **k):
        super().__init__(*a, **k)
        self.add_named_domain_matching_func("g", _util.key_match)


DM_KW = dict(enforcer_cls=EnforcerWithDomainMatcher)


KNOWN_DM = "C04/pattern-and-concrete-domain-share-a-link"


def spec_check_dm(kind, rows, lf, ops, obs, impl):
    """the fresh comparison enforcer gets the same domain matching function"""
    out = []
    for k, what, tag in spec_check(kind, rows, lf, ops, obs, impl, impl_kwargs=DM_KW):
        out.append((k, what, KNOWN_DM if (tag is None and shared_pairs(kind, rows, ops[:k + 1])) else tag))
    return out


def known_probe_dm(chk):
    """the listed finding, replayed on every run: with a domain matching function, (alice, admin) recorded for "*" and for
    d1 is ONE link in d1's cached role manager; revoking the "*" assignment takes alice's role in d1 away although
    g, alice, admin, d1 is still in the policy (a fresh enforcer on the same policy grants it)"""
    A = mgmt.ATOMS.a
    kind = mgmt.KINDS["dom"]
    rows = [(0, [A("admin"), A("d1"), A("data1"), A("read")]), (0, [A("admin"), A("d2"), A("data2"), A("write")]),
            (1, [A("alice"), A("admin"), STAR])]
    ops = [(50, [A("alice"), A("d1"), A("data1"), A("read")]), (1, 1, [A("alice"), A("admin"), A("d1")]),
           (3, 1, [A("alice"), A("admin"), STAR]), (50, [A("alice"), A("d1"), A("data1"), A("read")])]
    mgmt.run_cases(chk, kind, [(rows, True, ops)], spec_check_dm, label="known-finding-probe-domain-matcher", impl_kwargs=DM_KW,
                   compare_model=False)


spec_check_dm.case_extra = dict(variant="domain-matcher", model_compared=False)


def shared_pairs(kind, rows, ops):
    """the same (user, role) pair recorded for the pattern domain "*" AND for a concrete domain: in the cached manager of
    the concrete domain both assignments are ONE uncounted link (the domain-matching analogue of the listed findings
    C04/overlong-rules-share-a-link and C14-F14; reported to the coordinator, excluded from this stratum)"""
    seen = {}
    for pt, r in mgmt.g_rules_mentioned(kind, rows, ops):
        if pt == 1 and len(r) >= 3:
            seen.setdefault((r[0], r[1]), set()).add(r[2])
    return any(STAR in ds and len(ds) > 1 for ds in seen.values())


def drop_shared_pairs(kind, rows, ops):
    rows2 = []
    for row in rows:
        if not shared_pairs(kind, rows2 + [row], []):
            rows2.append(row)
    out = []
    for op in ops:
        if ((op[0] in (1, 2) and op[1] == 1) or op[0] == 19) and shared_pairs(kind, rows2, out + [op]):
            continue
        out.append(op)
    return rows2, out


def dm_cases(rng, kind, n):
    """domain model; the enforcer under test AND the fresh reference enforcer have util.key_match as domain matching
    function.  Assignments are recorded for d1, d2 and for the pattern domain "*"; requests and role queries are made
    in d1, d2 and literally in "*" (so that the pattern domain has a cached manager of its own, like any other)."""
    for _ in range(n):
        gen = mgmt.Gen(rng, kind, W)
        gen.uni.doms = gen.uni.doms + [STAR]
        rows = gen.rows(rng.randint(0, 8))
        rows, ops = drop_shared_pairs(kind, rows, mgmt.drop_prefix_aliases(kind, rows, gen.history(rng.randint(4, 16))))
        yield (rows, True, ops)


def dm_targeted_cases(kind):
    """every pair of grouping calls over {(alice, admin, "*"), (editor, admin, d1), (bob, admin, "*")}, preceded by a probe
    (all three domains cached) and followed by one after each call"""
    import itertools
    A = mgmt.ATOMS.a
    uni = mgmt.Universe(kind)
    uni.doms = uni.doms + [STAR]
    probe = mgmt.probe_ops(kind, uni)
    l1, l2, l3 = [A("alice"), A("admin"), STAR], [A("editor"), A("admin"), A("d1")], [A("bob"), A("admin"), STAR]
    alpha = [(1, 1, l1), (3, 1, l1), (1, 1, l2), (3, 1, l2), (2, 1, [l1, l3]), (4, 1, [l1, l3]), (5, 1, 2, [STAR]),
             (10, A("alice")), (31,)]
    p0 = [(0, [A("admin"), A("d1"), A("data1"), A("read")]), (0, [A("admin"), A("d2"), A("data2"), A("write")]), (1, l1)]
    for first in (True, False):
        for seq in itertools.product(alpha, repeat=2):
            ops = list(probe) if first else []
            for o in seq:
                ops.append(o)
                ops.extend(probe)
            yield (p0, True, ops)


def stratum_incremental_filtered(chk):
    """'clearing and reloading' includes the filtered forms: load_filtered_policy(F1), load_increment_filtered_policy(F2), then
    revocations / re-grants through the API; after every step each decision and role query equals that of a fresh enforcer
    holding the same policy.  Implementation-level (FilteredFileAdapter on a scratch copy of a policy with two domains)."""
    import os
    import tempfile
    from casbin.persist.adapters import FilteredFileAdapter
    from casbin.persist.adapters.filtered_file_adapter import Filter
    text = """[request_definition]
r = sub, dom, obj, act
[policy_definition]
p = sub, dom, obj, act
[role_definition]
g = _, _, _
[policy_effect]
e = some(where (p.eft == allow))
[matchers]
m = g(r.sub, p.sub, r.dom) && r.dom == p.dom && r.obj == p.obj && r.act == p.act
"""
    lines = ["p, admin, d1, data1, read", "p, admin, d2, data2, write", "p, editor, d1, data2, read",
             "g, alice, admin, d1", "g, alice, admin, d2", "g, bob, editor, d1", "g, editor, admin, d1", "g, carol, admin, d2"]
    subs, doms, objs, acts = ["alice", "bob", "carol", "editor", "admin"], ["d1", "d2"], ["data1", "data2"], ["read", "write"]
    n = 0

    def view(e):
        out = {}
        for s_ in subs:
            for d_ in doms:
                out[("roles", s_, d_)] = sorted(e.get_roles_for_user_in_domain(s_, d_))
                out[("implicit", s_, d_)] = sorted(e.get_implicit_roles_for_user(s_, d_))
                for o_ in objs:
                    for a_ in acts:
                        out[("enforce", s_, d_, o_, a_)] = bool(e.enforce(s_, d_, o_, a_))
        return out

    def fresh_view(e):
        f = casbin.Enforcer(casbin.Enforcer.new_model(text=text))
        for r in e.get_policy():
            f.add_policy(*r)
        for r in e.get_grouping_policy():
            f.add_grouping_policy(*r)
        return view(f)

    with tempfile.TemporaryDirectory(prefix="c04f_") as dd:
        pol = os.path.join(dd, "policy.csv")
        with open(pol, "w") as fh:
            fh.write("\n".join(lines) + "\n")
        steps_all = [
            [("load_filtered", "d1"), ("load_increment", "d2"), ("revoke", ["alice", "admin", "d1"])],
            [("load_filtered", "d1"), ("load_increment", "d2"), ("revoke", ["editor", "admin", "d1"]), ("grant", ["editor", "admin", "d1"]), ("revoke", ["editor", "admin", "d1"])],
            [("load_filtered", "d2"), ("load_increment", "d1"), ("delete_user", "alice")],
            [("load_filtered", "d1"), ("load_increment", "d1"), ("revoke", ["bob", "editor", "d1"])],
            [("load_filtered", "d1"), ("load_increment", "d2"), ("load_increment", "d2"), ("revoke", ["carol", "admin", "d2"])],
        ]
        for steps, probe_each in [(s_, pe) for s_ in steps_all for pe in (True, False)]:
            # probe_each=False: the first query of a domain comes AFTER the revocation (its role manager is then built
            # from whatever the load registered)
            e = casbin.Enforcer(casbin.Enforcer.new_model(text=text), FilteredFileAdapter(pol))
            e.enable_auto_save(False)
            done = []
            for si, st in enumerate(steps):
                done.append(st)
                if st[0] == "load_filtered":
                    flt = Filter(); flt.P = ["", st[1]]; flt.G = ["", "", st[1]]
                    e.load_filtered_policy(flt)
                elif st[0] == "load_increment":
                    flt = Filter(); flt.P = ["", st[1]]; flt.G = ["", "", st[1]]
                    e.load_increment_filtered_policy(flt)
                elif st[0] == "revoke":
                    e.remove_grouping_policy(*st[1])
                elif st[0] == "grant":
                    e.add_grouping_policy(*st[1])
                elif st[0] == "delete_user":
                    e.delete_user(st[1])
                if not probe_each and si < len(steps) - 1:
                    continue
                got, want = view(e), fresh_view(e)
                n += 1
                chk.count(("incremental-filtered", probe_each, repr(done)))
                if got != want:
                    k = sorted(x for x in got if got[x] != want[x])[0]
                    chk.spec_fail(dict(stratum="incremental-filtered", store=lines, steps=[list(x) for x in done], queried_after_every_step=probe_each, query=list(k),
                                       policy=e.get_policy(), grouping=e.get_grouping_policy()), got[k], want[k],
                                  "query result differs from a freshly constructed enforcer holding the current policy")
                    chk.extra.setdefault("strata", {})["incremental_filtered_steps"] = n
                    return
    chk.extra.setdefault("strata", {})["incremental_filtered_steps"] = n


# ----------------------------------------------------------------------------- a store that holds a grouping line more than once
KNOWN_DUP = "C04/repeated-store-line-removal"
W_DUP = dict(p_add=1, p_add_many=0.5, p_remove=1, p_remove_many=0.5, p_remove_filtered=0.5, p_update=0, p_update_many=0,
             p_update_filtered=0, g_add=4, g_add_many=2, g_remove=7, g_remove_many=4, g_remove_filtered=2, rbac=5,
             clear=0.3, load=1.5, save=0, build=0.7, flags=0, query=4, probe=3)
W_DUP_NOBATCH = dict(W_DUP, g_remove=0, g_remove_many=0, p_remove_many=0, g_remove_filtered=0, rbac=0)


def repeated_batch_removal(kind, rows, ops):
    """the store the enforcer was built from holds a grouping line more than once, and the history removes grouping rules:
    a single or batch removal naming the repeated rule, or a filtered removal (remove_filtered_grouping_policy,
    delete_user, delete_role, delete_role_for_user, delete_roles_for_user[_in_domain])"""
    from collections import Counter
    cnt = Counter((pt, tuple(r)) for pt, r in rows if pt in (1, 2))
    dups = {k for k, v in cnt.items() if v > 1}
    if not dups:
        return False
    return any((op[0] == 3 and op[1] in (1, 2) and (op[1], tuple(op[2])) in dups)
               or (op[0] == 4 and op[1] in (1, 2) and any((op[1], tuple(r)) in dups for r in op[2]))
               or (op[0] == 5 and op[1] in (1, 2)) or op[0] in (9, 10, 11, 17, 18, 20) for op in ops)


def spec_check_dup(kind, rows, lf, ops, obs, impl):
    out = []
    for k, what, tag in spec_check(kind, rows, lf, ops, obs, impl):
        out.append((k, what, KNOWN_DUP if (tag is None and repeated_batch_removal(kind, rows, ops[:k + 1])) else tag))
    return out


spec_check_dup.case_extra = dict(variant="repeated-store-line", model_compared=False)


def known_probe_dup(chk):
    """the listed finding, replayed on every run: the store holds `g, alice, admin` twice (a hand-edited CSV); after
    remove_grouping_policies([[alice, admin]]) one copy is still in the policy (get_grouping_policy lists it, a fresh
    enforcer on the current policy grants alice the role) but the single uncounted link is gone"""
    A = mgmt.ATOMS.a
    kind = mgmt.KINDS["rbac"]
    uni = mgmt.Universe(kind)
    rows = [(0, [A("admin"), A("data1"), A("read")]), (1, [A("alice"), A("admin")]), (1, [A("alice"), A("admin")])]
    ops = mgmt.probe_ops(kind, uni) + [(4, 1, [[A("alice"), A("admin")]])] + mgmt.probe_ops(kind, uni)
    mgmt.run_cases(chk, kind, [(rows, True, ops)], spec_check_dup, label="known-finding-probe-repeated-store-line",
                   compare_model=False)


def dup_cases(rng, kind, n):
    """the store repeats one to three of its lines (grouping lines mostly); single, batch and filtered removals aimed at
    the repeated rules, adds, reloads and rebuilds; half of the histories without removals of grouping rules (adds, reloads,
    rebuilds, permission calls), so that nothing else is hidden behind the listed finding"""
    uni = mgmt.Universe(kind)
    probe = mgmt.probe_ops(kind, uni)
    for i in range(n):
        gen = mgmt.Gen(rng, kind, W_DUP if i % 2 == 0 else W_DUP_NOBATCH)
        rows = gen.rows(rng.randint(2, 8))
        grows = [x for x in rows if x[0] in (1, 2)] or rows
        for _ in range(rng.randint(1, 3)):
            pt, r = rng.choice(grows if rng.random() < 0.8 else rows)
            at = rng.randint(0, len(rows))
            rows = rows[:at] + [(pt, list(r))] + rows[at:]
        ops = list(probe) if rng.random() < 0.5 else []
        ops += gen.history(rng.randint(3, 12))
        ops += probe
        yield (rows, True, mgmt.drop_prefix_aliases(kind, rows, ops))


def run_store_and_matcher(chk, n):
    stratum_incremental_filtered(chk)
    known_probe_dup(chk)
    for kn in ("rbac", "dom", "rbac_res"):
        kind = mgmt.KINDS[kn]
        cases = list(dup_cases(chk.rng, kind, n))
        mgmt.run_cases(chk, kind, cases, spec_check_dup, label=f"repeated-store-lines-{kn}", compare_model=False)
        chk.extra.setdefault("strata", {})[f"repeated_store_lines_{kn}"] = len(cases)
    rng = chk.rng
    strata = chk.extra.setdefault("strata", {})
    for kn in ("rbac", "dom", "rbac_res"):
        kind = mgmt.KINDS[kn]
        cases = list(store_cases(rng, kind, n))
        mgmt.run_cases(chk, kind, cases, spec_check_store, label=f"store-reload-{kn}", compare_model=False)
        strata[f"store_reload_{kn}"] = len(cases)
    kind = mgmt.KINDS["dom"]
    known_probe_dm(chk)
    cases = list(dm_targeted_cases(kind))
    mgmt.run_cases(chk, kind, cases, spec_check_dm, label="domain-matcher-targeted", impl_kwargs=DM_KW, compare_model=False)
    strata["domain_matcher_targeted"] = len(cases)
    cases = list(dm_cases(rng, kind, n))
    mgmt.run_cases(chk, kind, cases, spec_check_dm, label="domain-matcher-random", impl_kwargs=DM_KW, compare_model=False)
    strata["domain_matcher_random"] = len(cases)


# ----------------------------------------------------------------------------- configuration events after first use
# "a freshly constructed enforcer holding the current policy" is an enforcer that was given its configuration - the
# (domain) matching functions of its role definitions, its role managers - BEFORE it loaded the policy.  The enforcer
# under test receives the same configuration as EVENTS anywhere in the history: a function registered late (after
# decisions and role queries), registered a second time, replaced by another one, removed again (None), the role manager
# replaced by a pre-configured one (set_named_role_manager + build_role_links).  After every block of queries each
# answer must equal that of a fresh enforcer that gets the configuration in force and then loads the current policy.
#   (80, pt, f)        add_named_matching_func(ptype, F[f])
#   (81, pt, f)        add_named_domain_matching_func(ptype, F[f])
#   (82, pt, f, fd)    set_named_role_manager(ptype, <fresh manager of the same class, F[f] / F[fd] pre-registered>) + build_role_links()
CFG_F = ["none", "key_match", "key_match2", "key_match3", "regex_match", "glob_match"]
DSTAR = mgmt.ATOMS.a("d*")         # interned at import time, in this order (replays decode the same atoms)
PAT_STAR = mgmt.ATOMS.a("data*")
PAT_ID = mgmt.ATOMS.a("data:id")
TEAM = mgmt.ATOMS.a("team")
CFG_EVENTS = (80, 81, 82)
_CFG_MEMO = {}


def cfg_f(i):
    return None if not i else getattr(_util, CFG_F[i])


def cfg_rel(i):
    """F[i] as a boolean relation on atoms (an exception = no match, as match_error_handler has it; none = nothing)"""
    if i not in _CFG_MEMO:
        f, memo = cfg_f(i), {}

        def rel(a, b, f=f, memo=memo):
            if f is None:
                return False
            if (a, b) not in memo:
                try:
                    memo[(a, b)] = bool(f(mgmt.ATOMS.s(a), mgmt.ATOMS.s(b)))
                except Exception:  # noqa
                    memo[(a, b)] = False
            return memo[(a, b)]
        _CFG_MEMO[i] = rel
    return _CFG_MEMO[i]


class CfgImpl(mgmt.Impl):
    def call(self, op):
        c = op[0]
        if c not in CFG_EVENTS:
            return super().call(op)
        e, ptype = self.e, mgmt.PT[op[1]][1]
        if c == 80:
            e.add_named_matching_func(ptype, cfg_f(op[2]))
        elif c == 81:
            e.add_named_domain_matching_func(ptype, cfg_f(op[2]))
        else:
            rm = type(e.get_named_role_manager(ptype))(10)
            if op[2]:
                rm.add_matching_func(cfg_f(op[2]))
            if op[3]:
                rm.add_domain_matching_func(cfg_f(op[3]))
            e.set_named_role_manager(ptype, rm)
            e.build_role_links()
        return [0, []]


def cfg_after(ops):
    """the configuration in force after `ops`: {(pt, 'mf' | 'dmf'): function index}"""
    cfg = {}
    for op in ops:
        if op[0] == 80:
            cfg[(op[1], "mf")] = op[2]
        elif op[0] == 81:
            cfg[(op[1], "dmf")] = op[2]
        elif op[0] == 82:
            cfg[(op[1], "mf")], cfg[(op[1], "dmf")] = op[2], op[3]
    return cfg


def fresh_results_cfg(kind, stores_obs, qops, cfg):
    rows = [(0, r) for r in stores_obs[3]] + [(1, r) for r in stores_obs[4]] + [(2, r) for r in stores_obs[5]]
    try:
        fresh = CfgImpl(kind.with_(adapter=True, watcher=0), rows, False)
        for (pt, slot), f in sorted(cfg.items()):
            if f:
                fresh.call((80 if slot == "mf" else 81, pt, f))
        fresh.e.load_policy()
    except Exception as exc:  # noqa  (the current policy cannot be loaded by a fresh enforcer)
        return None
    return [fresh.step(op)[0] for op in qops]


def pattern_shared(kind, rows, ops):
    """shared_pairs for the domains d1 d2 * d*: the same (user, role) recorded for a pattern domain and for another domain"""
    seen = {}
    for pt, r in mgmt.g_rules_mentioned(kind, rows, ops):
        if pt == 1 and len(r) >= 3:
            seen.setdefault((r[0], r[1]), set()).add(r[2])
    return any(len(ds) > 1 and (STAR in ds or DSTAR in ds) for ds in seen.values())


def name_overlap(kind, rows, ops, pool, names):
    """two g2 rules giving the SAME role to users that some name matches both (under some function of the pool): removing
    one of them is C14's listed finding (delete removes a shared grant) - never generated"""
    seen = []
    rels = [cfg_rel(f) for f in pool]
    for pt, r in mgmt.g_rules_mentioned(kind, rows, ops):
        if pt != 2 or len(r) < 2:
            continue
        for u2, r2 in seen:
            if r2 == r[1] and u2 != r[0] and any((x == u2 or any(f(x, u2) for f in rels)) and
                                                  (x == r[0] or any(f(x, r[0]) for f in rels)) for x in names):
                return True
        seen.append((r[0], r[1]))
    return False


def drop_adds(kind, rows, ops, bad):
    """remove rows / adding calls after which bad(rows, ops) would hold"""
    rows2 = []
    for row in rows:
        if not bad(rows2 + [row], []):
            rows2.append(row)
    out = []
    for op in ops:
        if ((op[0] in (1, 2) and op[1] in (1, 2)) or op[0] in (16, 19)) and bad(rows2, out + [op]):
            continue
        out.append(op)
    return rows2, out


def spec_check_cfgev(kind, rows, lf, ops, obs, impl=None):
    out = []
    i, n = 0, len(ops)
    while i < n:
        if ops[i][0] in QUERY_OPS:
            j = i
            while j < n and ops[j][0] in QUERY_OPS:
                j += 1
            exp = fresh_results_cfg(kind, obs[i], ops[i:j], cfg_after(ops[:i]))
            if exp is not None:
                for k in range(i, j):
                    if obs[k][0] != exp[k - i]:
                        cops = mgmt.concretise(rows, lf, ops[:k + 1], obs)
                        tag = KNOWN_PREFIX if mgmt.prefix_aliases(kind, rows, cops) else \
                            (KNOWN_DM if (kind.dom and pattern_shared(kind, rows, cops)) else None)
                        return [(k, "query result differs from a freshly constructed enforcer that was given the configuration in force "
                                    "(matching functions, role managers) and then loaded the current policy", tag)]
            i = j
        else:
            i += 1
    return out


def pretty_cfg(op):
    if op[0] == 80:
        return ["add_named_matching_func", mgmt.PT[op[1]][1], CFG_F[op[2]]]
    if op[0] == 81:
        return ["add_named_domain_matching_func", mgmt.PT[op[1]][1], CFG_F[op[2]]]
    if op[0] == 82:
        return ["set_named_role_manager(fresh, pre-registered)+build_role_links", mgmt.PT[op[1]][1], CFG_F[op[2]], CFG_F[op[3]]]
    return mgmt.pretty_op(op)


def run_cfgev_cases(chk, kind, cases, label, max_report=2):
    reported = 0
    for n, (rows, lf, ops) in enumerate(cases):
        impl = CfgImpl(kind, rows, lf)
        obs = [impl.step(op) for op in ops]
        mut = [op for op in ops if op[0] < 50 or op[0] in CFG_EVENTS]
        chk.count(("config-events", kind.name, tuple(map(repr, mut))) if any(o[0] in CFG_EVENTS for o in ops) else None)
        if n % max(1, len(cases) // 2) == 0:
            chk.sample(dict(kind=kind.name, stratum=label, initial_rows=[[pt, mgmt.S(r)] for pt, r in rows],
                            history=[pretty_cfg(o) for o in mut][:12], n_ops=len(ops)), cap=10)
        viol = spec_check_cfgev(kind, rows, lf, ops, obs)
        if not viol:
            continue
        step, msg, finding = viol[0]
        small, last_obs = ops[:step + 1], obs[step]
        if reported < max_report:
            def fails(cand):
                im = CfgImpl(kind, rows, lf)
                ob = [im.step(o) for o in cand]
                return bool(spec_check_cfgev(kind, rows, lf, cand, ob))
            try:
                small = mgmt.shrink(small, fails)
                im = CfgImpl(kind, rows, lf)
                ob = [im.step(o) for o in small]
                v2 = spec_check_cfgev(kind, rows, lf, small, ob)
                if v2:
                    finding, last_obs = v2[0][2], ob[v2[0][0]]
            except Exception:  # noqa
                pass
        reported += 1
        chk.spec_fail(dict(variant="config-events", model_compared=False, kind=kind.name, kind_wire=kind.wire(), stratum=label, load_first=lf,
                           initial_rows=[[pt, r] for pt, r in rows], ops=[list(o) for o in small],
                           readable=dict(initial_rows=[[pt, mgmt.S(r)] for pt, r in rows], history=[pretty_cfg(o) for o in small])),
                      dict(observation_at_failing_step=last_obs), "see 'what'", msg, finding)
    chk.traces += len(cases)


DOM_POOL = [0, 1, 2, 4]            # none, key_match ('*' and 'd*'), key_match2 ('*' only), regex_match ('d*' only)
NAME_POOL = [0, 1, 2, 3, 4]


def no_pattern_domain_queries(ops):
    """requests and role queries are made in d1 and d2 only: every function of the pool says these match themselves (a
    pattern domain queried literally under a function that does not is outside C14's premise)"""
    def flat(x):
        if isinstance(x, (list, tuple)):
            for y in x:
                yield from flat(y)
        else:
            yield x
    return [op for op in ops if not (op[0] in QUERY_OPS and op[0] not in (52, 53, 54) and any(a in (STAR, DSTAR) for a in flat(op[1:])))]


def insert_events(rng, ops, make, k):
    """k configuration events at random positions (never inside a block of queries of a probe is not required: a block
    simply ends there)"""
    ops = list(ops)
    for _ in range(k):
        ops.insert(rng.randint(0, len(ops)), make())
    return ops


def cfgev_dom_cases(rng, kind, n):
    """domain model; assignments recorded for d1, d2 and the pattern domains '*' and 'd*'; the domain matching function of
    g is an EVENT: none -> f -> f again / another / none, or a pre-configured DomainManager swapped in"""
    uni = mgmt.Universe(kind)
    probe = mgmt.probe_ops(kind, uni)
    for _ in range(n):
        gen = mgmt.Gen(rng, kind, W)
        gen.uni.doms = gen.uni.doms + [STAR, DSTAR]
        rows = gen.rows(rng.randint(0, 8))
        ops = list(probe) if rng.random() < 0.6 else []
        ops += gen.history(rng.randint(4, 14), final_probe=False)
        ops = no_pattern_domain_queries(ops)

        def ev():
            if rng.random() < 0.2:
                return (82, 1, 0, rng.choice(DOM_POOL))
            return (81, 1, rng.choice(DOM_POOL))
        ops = insert_events(rng, ops, ev, rng.randint(1, 4)) + list(probe)
        rows, ops = drop_adds(kind, rows, mgmt.drop_prefix_aliases(kind, rows, ops), lambda r_, o_: pattern_shared(kind, r_, o_))
        yield (rows, True, ops)


def cfgev_dom_targeted(kind):
    """[probe] f1 probe call probe f2 probe, for every f1, f2 of the pool and a handful of grouping calls"""
    import itertools
    A = mgmt.ATOMS.a
    uni = mgmt.Universe(kind)
    probe = mgmt.probe_ops(kind, uni)
    l1, l2, l3 = [A("alice"), A("admin"), STAR], [A("bob"), A("admin"), DSTAR], [A("editor"), A("admin"), A("d1")]
    p0 = [(0, [A("admin"), A("d1"), A("data1"), A("read")]), (0, [A("admin"), A("d2"), A("data2"), A("write")]), (1, l1)]
    gops = [(1, 1, l2), (3, 1, l1), (2, 1, [l2, l3]), (10, A("alice")), (31,), None]
    for first, f1, f2, gop in itertools.product((True, False), DOM_POOL, DOM_POOL, gops):
        ops = list(probe) if first else []
        ops += [(81, 1, f1)] + list(probe)
        if gop:
            ops += [gop] + list(probe)
        ops += [(81, 1, f2) if gop != (31,) else (82, 1, 0, f2)] + list(probe)
        yield (p0, True, ops)


def g2_universe(gen):
    """resource roles with patterns on the USER side only: g2 rules (data1 | data2 | data* | data:id | grp -> grp | team)"""
    A = mgmt.ATOMS.a
    users, roles = [A("data1"), A("data2"), PAT_STAR, PAT_ID], [A("grp"), TEAM]
    gen.uni.objs = [A("data1"), A("data2"), A("grp"), TEAM]
    base = gen.uni.g_rule
    rng = gen.rng

    def g_rule(rng_, pt=1):
        if pt != 2:
            return base(rng_, pt)
        if rng.random() < 0.12:
            return [roles[0], roles[1]]
        return [rng.choice(users), rng.choice(roles)]
    gen.uni.g_rule = g_rule
    return users + roles


def scope_ok_names(rel, names, adds):
    """C14's scope (PatternRM in_scope): no name matches a role-side name, matching is transitive towards assignment users"""
    for x in names:
        for (u, r) in adds:
            if rel(x, r) and x != r:
                return False
    for x in names:
        for p in names:
            if rel(x, p):
                for (u, r) in adds:
                    if rel(p, u) and not rel(x, u):
                        return False
    return True


W_G2 = dict(W, long_g=0, alias_remove=0.3)


def cfgev_g2_cases(rng, kind, n):
    """resource-role model; the NAME matching function of g2 is an event (late / again / replaced / None / manager swapped).
    Decisions, has_link and the role queries of the plain definition g only: listings of a pattern role manager depend on
    which names it was asked about before (C14), decisions do not."""
    for _ in range(n):
        gen = mgmt.Gen(rng, kind, W_G2)
        names = g2_universe(gen)
        pool = [0] + rng.sample(NAME_POOL[1:], rng.randint(1, 3))
        adds = {(u, r) for u in names for r in (mgmt.ATOMS.a("grp"), TEAM) if u != r}
        pool = [f for f in pool if scope_ok_names(cfg_rel(f), names, adds)]
        uni = gen.uni
        probe = mgmt.probe_ops(kind, uni)

        def query():
            c = rng.choice([50, 50, 50, 51, 59, 59, 55, 56, 52, 54])
            if c in (50, 51):
                return (c, rng.choice(uni.requests()))
            if c == 59:
                if rng.random() < 0.7:
                    return (59, 2, rng.choice(names), rng.choice(names[-2:]), [])
                return (59, 1, rng.choice(uni.subs), rng.choice(uni.subs), [])
            if c in (55, 56):
                return (c, rng.choice(uni.subs))
            pt = rng.choice([0, 1, 2])
            return (52, pt) if c == 52 else (54, pt, gen.rule(pt))
        gen.query = query
        rows = gen.rows(rng.randint(0, 8))
        if rng.random() < 0.8:
            # a permission on a resource role and a pattern assignment into it (so that the matching function decides something)
            role = rng.choice(names[-2:])
            for row in [(0, [rng.choice(uni.subs), role, rng.choice(uni.acts)]), (2, [rng.choice([PAT_STAR, PAT_ID]), role])]:
                if row not in rows:
                    rows.append(row)
                    gen.seen[row[0]].append(list(row[1]))
        ops = list(probe) if rng.random() < 0.6 else []
        ops += gen.history(rng.randint(4, 14), final_probe=False)

        def ev():
            if rng.random() < 0.2:
                return (82, 2, rng.choice(pool), 0)
            if rng.random() < 0.1:
                return (82, 1, 0, 0)
            return (80, 2, rng.choice(pool))
        ops = insert_events(rng, ops, ev, rng.randint(1, 4)) + list(probe)
        rows, ops = drop_adds(kind, rows, mgmt.drop_prefix_aliases(kind, rows, ops),
                              lambda r_, o_: name_overlap(kind, r_, o_, pool, names))
        yield (rows, True, ops)


def cfgev_g2_targeted(kind):
    import itertools
    A = mgmt.ATOMS.a
    gen = mgmt.Gen(__import__("random").Random(0), kind, W_G2)
    g2_universe(gen)
    probe = mgmt.probe_ops(kind, gen.uni)
    l1, l2, l3 = [PAT_STAR, A("grp")], [PAT_ID, TEAM], [A("data1"), TEAM]
    p0 = [(0, [A("alice"), A("grp"), A("read")]), (0, [A("bob"), TEAM, A("write")]), (1, [A("editor"), A("alice")]), (2, l1)]
    gops = [(1, 2, l2), (3, 2, l1), (1, 2, l3), (31,), None]
    for first, f1, f2, gop in itertools.product((True, False), NAME_POOL, NAME_POOL, gops):
        ops = list(probe) if first else []
        ops += [(80, 2, f1)] + list(probe)
        if gop:
            ops += [gop] + list(probe)
        ops += [(80, 2, f2) if gop != (31,) else (82, 2, f2, 0)] + list(probe)
        if gop:
            ops += [(3, 2, l1)] + list(probe)
        yield (p0, True, ops)


def run_config_events(chk, n):
    strata = chk.extra.setdefault("strata", {})
    kind = mgmt.KINDS["dom"]
    cases = list(cfgev_dom_targeted(kind))
    run_cfgev_cases(chk, kind, cases, "config-events-domain-matcher-targeted")
    strata["config_events_domain_matcher_targeted"] = len(cases)
    cases = list(cfgev_dom_cases(chk.rng, kind, n))
    run_cfgev_cases(chk, kind, cases, "config-events-domain-matcher-random")
    strata["config_events_domain_matcher_random"] = len(cases)
    kind = mgmt.KINDS["rbac_res"]
    cases = list(cfgev_g2_targeted(kind))
    run_cfgev_cases(chk, kind, cases, "config-events-name-matcher-targeted")
    strata["config_events_name_matcher_targeted"] = len(cases)
    cases = list(cfgev_g2_cases(chk.rng, kind, n))
    run_cfgev_cases(chk, kind, cases, "config-events-name-matcher-random")
    strata["config_events_name_matcher_random"] = len(cases)


def replay_cfgev(chk, c):
    import sys
    w = c["kind_wire"]
    kind = mgmt.Kind(c["kind"], *[bool(x) for x in w[:5]], eff=w[5], adapter=bool(w[6]), watcher=w[7])
    rows = [(pt, r) for pt, r in c["initial_rows"]]
    ops = [tuple(o) for o in c["ops"]]
    lf = c.get("load_first", True)
    impl = CfgImpl(kind, rows, lf)
    obs = [impl.step(o) for o in ops]
    viol = spec_check_cfgev(kind, rows, lf, ops, obs)
    print("replay history:", [pretty_cfg(o) for o in ops])
    print("  spec violations on the implementation:", viol[:3])
    if viol and viol[0][2] is None:
        print(f"VIOLATION property={chk.prop} replay={chk.replay_file}")
        sys.exit(1)
    if viol:
        print(f"KNOWN-FINDING: property={chk.prop} {viol[0][2]}")
        sys.exit(0)
    print("replay passes: every query equals that of a fresh enforcer given the configuration in force and the current policy")
    sys.exit(0)


def replay(chk):
    import json
    c = (json.load(open(chk.replay_file)).get("case") or {})
    v = c.get("variant")
    if v == "config-events":
        return replay_cfgev(chk, c)
    if c.get("stratum") == "incremental-filtered":
        chk.spec_failures = []
        stratum_incremental_filtered(chk)
        if chk.spec_failures:
            print("replay:", json.dumps(chk.spec_failures[0])[:700])
            print(f"VIOLATION property={chk.prop} replay={chk.replay_file}")
            raise SystemExit(1)
        print("replay passes: the stratum reports nothing on this tree")
        raise SystemExit(0)
    if v in ("store", "domain-matcher", "repeated-store-line"):
        chk.oracle = None                 # out-of-band store edits / matching functions are outside the Mgmt model
    if v == "domain-matcher":
        return mgmt.replay_case(chk, spec_check_dm, impl_kwargs=DM_KW)
    if v == "repeated-store-line":
        return mgmt.replay_case(chk, spec_check_dup)
    return mgmt.replay_case(chk, spec_check)


def run(chk, n_random, targeted_len):
    rng = chk.rng
    known_probe(chk)
    kind = mgmt.KINDS["rbac_res"]
    cases = list(targeted_cases_g2(kind))
    mgmt.run_cases(chk, kind, cases, spec_check, label="targeted-g2")
    chk.extra.setdefault("strata", {})["targeted_g2_len<=2"] = len(cases)
    for kn in ("rbac", "dom"):
        kind = mgmt.KINDS[kn]
        cases = [c for c in targeted_cases(kind) if sum(1 for o in c[2] if o[0] < 50) <= targeted_len]
        mgmt.run_cases(chk, kind, cases, spec_check, label=f"targeted-{kn}")
        chk.extra.setdefault("strata", {})[f"targeted_{kn}_len<={targeted_len}"] = len(cases)
    chk.exhaustive = True
    for kn in ("rbac", "rbac_res", "dom", "rbac_deny", "dom_deny"):
        kind = mgmt.KINDS[kn]
        cases = []
        for _ in range(n_random):
            g = mgmt.Gen(rng, kind, W)
            rows = g.rows(rng.randint(0, 8))
            cases.append((rows, True, mgmt.drop_prefix_aliases(kind, rows, g.history(rng.randint(4, 18)))))
        mgmt.run_cases(chk, kind, cases, spec_check, label=f"random-{kn}")
        chk.extra["strata"][f"random_{kn}"] = len(cases)
    for kn in ("rbac", "dom"):
        kind = mgmt.KINDS[kn]
        cases = list(targeted_cfg_cases(kind))
        mgmt.run_cases(chk, kind, cases, spec_check_cfg, label=f"targeted-config-{kn}")
        chk.extra["strata"][f"targeted_config_{kn}"] = len(cases)
    # configuration stratum: enable_auto_build_role_links / enable_auto_save / enable_enforce toggles, reloads with
    # auto-build off followed by build_role_links, decisions before and after (the role functions g/g2 in the
    # matcher must follow the role managers in force at every call)
    for kn in ("rbac", "dom", "rbac_res"):
        kind = mgmt.KINDS[kn]
        cases = []
        for _ in range(max(20, n_random // 2)):
            g = mgmt.Gen(rng, kind, W_CFG)
            rows = g.rows(rng.randint(0, 8))
            cases.append((rows, True, g.history(rng.randint(4, 18))))
        mgmt.run_cases(chk, kind, cases, spec_check_cfg, label=f"config-{kn}")
        chk.extra["strata"][f"config_{kn}"] = len(cases)
    run_store_and_matcher(chk, max(40, n_random // 2))
    run_config_events(chk, max(60, n_random // 2))


def main():
    chk = Check(PROP)
    chk.rule = ("management histories over role-assignment and permission calls (single, batch, filtered, delete_user/"
                "delete_role, clear, reload, duplicate / rejected / no-op calls) interleaved with probes; targeted: all "
                "sequences of <= 2 (quick) / 3 (thorough) calls from a 12-call alphabet with a full probe after each call, "
                "plain RBAC and domain models; random histories on RBAC / resource roles / domains / deny models; "
                "non-trivial = at least one mutating call; distinct by (kind, mutating calls)")
    chk.rule += ("; store strata: histories in which the store is edited out of band (rows gained/lost, a role definition "
                 "emptied) and reloaded, or the reload is refused (malformed grouping row, failing adapter), full probe after "
                 "every reload, RBAC / domain / resource-role models; domain-matcher strata: the domain model with "
                 "util.key_match as domain matching function on the enforcer under test AND on the fresh reference enforcer, "
                 "assignments recorded for d1, d2 and the pattern domain '*', requests and role queries in all three (all "
                 "pairs of calls from a 9-call alphabet with probes, and random histories); implementation-level spec only")
    chk.rule += ("; configuration-events strata: the configuration of the role definitions arrives as EVENTS inside the history - "
                 "add_named_domain_matching_func(g, f) on the domain model (f in none / key_match / key_match2 / regex_match; "
                 "assignments in d1, d2, '*', 'd*'; requests and role queries in d1, d2) and add_named_matching_func(g2, f) on the "
                 "resource-role model (f in none / key_match / key_match2 / key_match3 / regex_match; g2 users data1, data2, 'data*', "
                 "'data:id'; decisions, has_link and g's role queries), registered late, again, replaced, removed, or a pre-configured "
                 "role manager swapped in (set_named_role_manager + build_role_links); targeted: [probe] f1 probe call probe f2 probe "
                 "for all f1, f2 and a handful of calls, plus random histories with 1-4 events; the fresh reference enforcer gets the "
                 "configuration in force BEFORE it loads the current policy")
    chk.assumptions = [
        "domain-matcher strata only: no (user, role) pair is recorded both for '*' and for a concrete domain (both assignments "
        "would be one uncounted link in the concrete domain's cached manager - reported separately)",
        "auto_build_role_links stays on (the property's own premise); grouping rules have at least the declared arity; rules "
        "with MORE fields are generated too, but two rules sharing their declared-arity prefix are the listed finding "
        "C04/overlong-rules-share-a-link (probed on every run, excluded from the random strata)",
        "no role-name matching functions registered (pattern assignments are C14); a DOMAIN matching function only in the "
        "domain-matcher strata, where the fresh reference enforcer gets the same one",
        "configuration-events strata: matching functions are registered, replaced and removed during the history and the fresh "
        "reference enforcer is given the configuration in force before it loads the policy; name patterns stay within C14's scope "
        "(user side of g2 only, no two g2 rules in one history giving the same role to users a common name matches - C14's listed "
        "finding), pattern domains are not queried literally, no (user, role) pair in a pattern domain and another domain; "
        "listings of the pattern role manager are not observed (they depend on which names were asked about, C14)",
        "the fresh reference enforcer is a real casbin.Enforcer loading the current policy through an in-memory adapter",
    ]
    chk.trusted = ["hand-written models coq/theories/{Policy,RoleGraph,Mgmt}.v tied by the differential history correspondence"]
    chk.build(translators=["rolelinks", "loadpolicy", "grouping"], oracle_name="Mgmt")
    if chk.replay_file:
        return replay(chk)
    if chk.tier == "thorough":
        run(chk, 1200, 3)
    else:
        run(chk, 120, 2)
        if (chk.broken() or chk.anchor_changed) and not chk.spec_failures:
            run(chk, 600, 3)
    chk.finish()


if __name__ == "__main__":
    main()
