"""C05 — domains are isolated tenants.
SPEC on the implementation: (a) a probe of domain D (every request of D, role queries and domain-scoped
queries in D) gives identical results before and after any sequence of calls that touch only OTHER
domains; (b) domain-scoped queries in D only report rules recorded for D."""
from ..core import Check
from .. import mgmt

PROP = "C05"
A = mgmt.ATOMS.a


def d_probe(kind, uni, D):
    ops = [(50, req) for req in uni.requests() if req[1] == D]
    for u in uni.subs:
        ops += [(57, u, D), (58, u, D), (70, u, D), (60, u, D), (61, u, D)]
    for o in uni.objs:
        ops += [(64, o, D)]
    return ops


def foreign_op(rng, kind, uni, F, gen):
    """a management call that touches only domain F"""
    def p():
        r = uni.p_rule(rng)
        r[kind.i_dom] = F
        return r

    def g():
        r = uni.g_rule(rng)
        r[2] = F
        return r
    c = rng.choice(["p_add", "p_add_many", "p_rm", "p_rm_many", "p_rm_f", "p_upd", "g_add", "g_add", "g_add_many", "g_rm",
                    "g_rm", "g_rm_many", "g_rm_f", "role_in_dom", "del_roles_in_dom", "q"])
    if c == "p_add":
        return (1, 0, p())
    if c == "p_add_many":
        return (2, 0, [p() for _ in range(rng.randint(1, 3))])
    if c == "p_rm":
        return (3, 0, p())
    if c == "p_rm_many":
        return (4, 0, [p() for _ in range(rng.randint(1, 2))])
    if c == "p_rm_f":
        return (5, 0, kind.i_dom, [F] + ([rng.choice(uni.objs)] if rng.random() < 0.5 else []))
    if c == "p_upd":
        return (6, p(), p())
    if c == "g_add":
        return (1, 1, g())
    if c == "g_add_many":
        return (2, 1, [g() for _ in range(rng.randint(1, 3))])
    if c == "g_rm":
        return (3, 1, g())
    if c == "g_rm_many":
        return (4, 1, [g() for _ in range(rng.randint(1, 2))])
    if c == "g_rm_f":
        return (5, 1, 2, [F]) if rng.random() < 0.5 else (5, 1, 0, [rng.choice(uni.subs), 0, F])
    if c == "role_in_dom":
        r = g()
        return (19, r[0], r[1], F)
    if c == "del_roles_in_dom":
        r = g()
        return (20, r[0], r[1], F)
    # queries in the foreign domain (they build F's cache)
    return rng.choice([(50, [rng.choice(uni.subs), F, rng.choice(uni.objs), rng.choice(uni.acts)]),
                       (57, rng.choice(uni.subs), F), (60, rng.choice(uni.subs), F)])


def make_case(rng, kind):
    uni = mgmt.Universe(kind)
    D, F = (A("d1"), A("d2")) if rng.random() < 0.5 else (A("d2"), A("d1"))
    g = mgmt.Gen(rng, kind)
    rows = g.rows(rng.randint(2, 10))
    probe = d_probe(kind, uni, D)
    ops = []
    first_probe = rng.random() < 0.8          # caches of D exist before the foreign changes (or not)
    if first_probe:
        ops += probe
    n = rng.randint(1, 8)
    for _ in range(n):
        ops.append(foreign_op(rng, kind, uni, F, g))
        if rng.random() < 0.25:
            ops += probe
    ops += probe
    return rows, D, F, probe, ops


import casbin


def domain_like(a, b):
    """a ROLE-NAME matching function that relates no two distinct subject/role names of the universe but happens
    to relate the domain names d1/d2 (they look like patterns of each other): registering it must not couple the
    tenants"""
    return a == b or (len(a) == 2 and len(b) == 2 and a[0] == b[0] == "d" and a[1].isdigit() and b[1].isdigit())


class EnforcerWithRoleMatcher(casbin.Enforcer):
    def __init__(self, *a, **k):
        super().__init__(*a, **k)
        self.add_named_matching_func("g", domain_like)


def pdom_model_text(kind):
    """same model with the rule's domain handed to g(): g(r.sub, p.sub, p.dom) && r.dom == p.dom && ... (equivalent,
    since the conjunct r.dom == p.dom stands next to it)"""
    return kind.model_text().replace("g(r.sub, p.sub, r.dom)", "g(r.sub, p.sub, p.dom)")


VARIANTS = {
    "plain": {},
    "pdom": dict(model_text=None),                       # filled per kind
    "rolematcher": dict(enforcer_cls=EnforcerWithRoleMatcher),
}


def impl_kwargs_for(kind, variant):
    if variant == "pdom":
        return dict(model_text=pdom_model_text(kind))
    return dict(VARIANTS[variant])


def spec_check_factory(D, probe, impl_kwargs=None):
    plen = len(probe)
    impl_kwargs = impl_kwargs or {}

    def spec_check(kind, rows, lf, ops, obs, impl):
        out = []
        # (a) all probe blocks agree with the reference for the current policy restricted... with each other
        ref = None
        i = 0
        while i + plen <= len(ops):
            if list(ops[i:i + plen]) == list(probe):
                res = [o[0] for o in obs[i:i + plen]]
                if ref is None:
                    # reference: the same probe on an enforcer that never sees the foreign calls
                    refimpl, refobs = mgmt.run_impl(kind, rows, lf, probe, **impl_kwargs)
                    ref = [o[0] for o in refobs]
                for k in range(plen):
                    if res[k] != ref[k]:
                        out.append((i + k, "a query in domain D changed after calls that touch only other domains"))
                        return out
                # (b) scoped queries only mention D
                for k in range(plen):
                    op, r = probe[k], res[k]
                    if r[0] != 0:
                        continue
                    if op[0] in (70, 61, 64):
                        for rule in r[1]:
                            if rule[kind.i_dom] != D:
                                out.append((i + k, "a domain-scoped query reports a rule recorded for another domain"))
                                return out
                i += plen
            else:
                i += 1
        return out
    return spec_check


def scoped_roles_check(kind, rows, D, impl_obs_probe, probe):
    return []


def stratum_confusable_names(chk, n):
    """tenant, role and subject names that are prefixes / concatenations of each other ("admin"+"10" vs "admin1"+"0"):
    whatever text-level shortcut the implementation takes (keys built by joining names), a request in domain D must be
    decided by D's rules and assignments only.  Implementation-level SPEC: decision = exists rule of D whose subject is
    reachable from the request subject over D's assignments, for both ways of handing the domain to g()."""
    import casbin
    rng = chk.rng
    names = ["a", "ab", "b", "admin", "admin1", "1", "10", "0", "01"]
    doms = ["0", "10", "1", "00"]
    texts = {"r.dom": mgmt.KINDS["dom"].model_text(), "p.dom": pdom_model_text(mgmt.KINDS["dom"])}
    cnt = 0
    for i in range(n):
        how = "p.dom" if i % 2 else "r.dom"
        m = casbin.Enforcer.new_model(text=texts[how])
        e = casbin.Enforcer(m)
        P, G = [], []
        for _ in range(rng.randint(1, 5)):
            r = [rng.choice(names), rng.choice(doms), "data", "read"]
            if r not in P:
                P.append(r)
                e.add_policy(*r)
        for _ in range(rng.randint(1, 5)):
            u, r_ = rng.sample(names, 2)
            g = [u, r_, rng.choice(doms)]
            if g not in G:
                G.append(g)
                e.add_grouping_policy(*g)
        cnt += 1
        chk.count(("confusable-names", how, repr(P), repr(G)))
        bad = None
        for s_ in names:
            for d in doms:
                edges = {(a, b) for a, b, dd in G if dd == d}
                reach, front = {s_}, [s_]
                while front:
                    x = front.pop()
                    for a, b in edges:
                        if a == x and b not in reach:
                            reach.add(b)
                            front.append(b)
                want = any(r[1] == d and r[0] in reach for r in P)
                got = bool(e.enforce(s_, d, "data", "read"))
                if got != want:
                    bad = (s_, d, got, want)
                    break
            if bad:
                break
        if bad:
            chk.spec_fail(dict(stratum="confusable-names", domain_handed_to_g_as=how, model=texts[how], policy=P, grouping=G,
                               request=[bad[0], bad[1], "data", "read"]), bad[2], bad[3],
                          "a request in one domain is not decided by that domain's rules and assignments (names that are "
                          "prefixes / concatenations of each other)")
            break
    chk.extra.setdefault("strata", {})["confusable_names"] = cnt


def run(chk, n):
    rng = chk.rng
    stratum_confusable_names(chk, max(60, n // 2))
    for kn in ("dom", "dom_deny"):
        kind = mgmt.KINDS[kn]
        cases = []
        for _ in range(n):
            rows, D, F, probe, ops = make_case(rng, kind)
            cases.append((rows, True, ops, spec_check_factory(D, probe)))
        mgmt.run_cases(chk, kind, cases, None, label=f"foreign-{kn}",
                       key_fn=lambda k, r, o: (k.name, repr(r), repr([x for x in o if x[0] < 50])))
        chk.extra.setdefault("strata", {})[f"foreign_{kn}"] = n
    # variants of the domain model: the rule's domain handed to g(); a role-name matching function registered
    kind = mgmt.KINDS["dom"]
    for variant in ("pdom", "rolematcher"):
        kw = impl_kwargs_for(kind, variant)
        cases = []
        for _ in range(max(40, n // 3)):
            rows, D, F, probe, ops = make_case(rng, kind)
            sc = spec_check_factory(D, probe, kw)
            sc.case_extra = dict(variant=variant)
            cases.append((rows, True, ops, sc))
        mgmt.run_cases(chk, kind, cases, None, label=f"foreign-dom-{variant}", impl_kwargs=kw,
                       key_fn=lambda k, r, o, v=variant: (k.name, v, repr(r), repr([x for x in o if x[0] < 50])))
        chk.extra["strata"][f"foreign_dom_{variant}"] = len(cases)


def replay(chk):
    import json
    rec = json.load(open(chk.replay_file))
    c = rec.get("case") or {}
    if "ops" not in c:
        return mgmt.replay_case(chk, None)
    # recover D and the probe from the recorded history: the probe is its maximal query suffix
    ops = [tuple(o) for o in c["ops"]]
    D = next((o[1][1] for o in ops if o[0] == 50), A("d1"))
    w = c["kind_wire"]
    kind = mgmt.Kind(c["kind"], *[bool(x) for x in w[:5]], eff=w[5], adapter=bool(w[6]), watcher=w[7])
    probe = d_probe(kind, mgmt.Universe(kind), D)
    # the shrunk history may have lost probe ops; rebuild: mutating ops followed by the full probe
    mut = [o for o in ops if o[0] < 50]
    c["ops"] = [list(o) for o in (probe + mut + probe)]
    import tempfile, os
    f = tempfile.NamedTemporaryFile("w", suffix=".json", delete=False)
    json.dump(rec, f)
    f.close()
    chk.replay_file = f.name
    kw = impl_kwargs_for(kind, c.get("variant", "plain"))
    try:
        return mgmt.replay_case(chk, spec_check_factory(D, probe, kw), impl_kwargs=kw)
    finally:
        os.unlink(f.name)


def main():
    chk = Check(PROP)
    chk.rule = ("two-domain policies (random rows over 4 subjects x 2 domains x 2 objects x 2 actions, up to 10 rows); a probe "
                "of domain D (all requests of D, role queries, domain-scoped queries) optionally before, always after a "
                "random sequence of 1..8 management calls touching only the other domain (single/batch/filtered/update "
                "for p and g, add/delete_roles_for_user_in_domain, queries in the other domain); reference = the same "
                "probe on an enforcer that never saw the foreign calls; non-trivial = at least one foreign mutating "
                "call; distinct by (rows, foreign calls)")
    chk.rule += ("; the same on two variants of the domain model: the rule's domain handed to g() (g(r.sub,p.sub,p.dom)), and "
                 "a role-name matching function registered that relates no two role names but the domain names")
    chk.assumptions = ["no domain-matching function registered (domain patterns are C14)",
                       "calls that are not domain-scoped by construction (delete_user, delete_role, clear_policy) are not 'calls "
                       "touching only other domains'"]
    chk.trusted = ["hand-written models coq/theories/{Policy,RoleGraph,Mgmt}.v tied by the differential history correspondence"]
    chk.build(oracle_name="Mgmt")
    if chk.replay_file:
        return replay(chk)
    if chk.tier == "thorough":
        run(chk, 2500)
    else:
        run(chk, 250)
        if (chk.broken() or chk.anchor_changed) and not chk.spec_failures:
            run(chk, 1000)
    chk.finish()


if __name__ == "__main__":
    main()
