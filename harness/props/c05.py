"""C05 — domains are isolated tenants.
SPEC on the implementation: (a) a probe of domain D (every request of D, role queries and domain-scoped
queries in D) gives identical results before and after any sequence of calls that touch only OTHER
domains; (b) domain-scoped queries in D only report rules recorded for D."""
from ..core import Check
from .. import mgmt

PROP = "C05"
A = mgmt.ATOMS.a


def d_probe(kind, uni, D):
    ops = [(50, req) for req in uni.requests() if req[1] == D]
    for u in uni.subs:
        ops += [(57, u, D), (58, u, D), (70, u, D), (60, u, D), (61, u, D)]
    for o in uni.objs:
        ops += [(64, o, D)]
    return ops


def foreign_op(rng, kind, uni, F, gen):
    """a management call that touches only domain F"""
    def p():
        r = uni.p_rule(rng)
        r[kind.i_dom] = F
        return r

    def g():
        r = uni.g_rule(rng)
        r[2] = F
        return r
    c = rng.choice(["p_add", "p_add_many", "p_rm", "p_rm_many", "p_rm_f", "p_upd", "g_add", "g_add", "g_add_many", "g_rm",
                    "g_rm", "g_rm_many", "g_rm_f", "role_in_dom", "del_roles_in_dom", "q"])
    if c == "p_add":
        return (1, 0, p())
    if c == "p_add_many":
        return (2, 0, [p() for _ in range(rng.randint(1, 3))])
    if c == "p_rm":
        return (3, 0, p())
    if c == "p_rm_many":
        return (4, 0, [p() for _ in range(rng.randint(1, 2))])
    if c == "p_rm_f":
        return (5, 0, kind.i_dom, [F] + ([rng.choice(uni.objs)] if rng.random() < 0.5 else []))
    if c == "p_upd":
        return (6, p(), p())
    if c == "g_add":
        return (1, 1, g())
    if c == "g_add_many":
        return (2, 1, [g() for _ in range(rng.randint(1, 3))])
    if c == "g_rm":
        return (3, 1, g())
    if c == "g_rm_many":
        return (4, 1, [g() for _ in range(rng.randint(1, 2))])
    if c == "g_rm_f":
        return (5, 1, 2, [F]) if rng.random() < 0.5 else (5, 1, 0, [rng.choice(uni.subs), 0, F])
    if c == "role_in_dom":
        r = g()
        return (19, r[0], r[1], F)
    if c == "del_roles_in_dom":
        r = g()
        return (20, r[0], r[1], F)
    # queries in the foreign domain (they build F's cache)
    return rng.choice([(50, [rng.choice(uni.subs), F, rng.choice(uni.objs), rng.choice(uni.acts)]),
                       (57, rng.choice(uni.subs), F), (60, rng.choice(uni.subs), F)])


def make_case(rng, kind):
    uni = mgmt.Universe(kind)
    D, F = (A("d1"), A("d2")) if rng.random() < 0.5 else (A("d2"), A("d1"))
    g = mgmt.Gen(rng, kind)
    rows = g.rows(rng.randint(2, 10))
    probe = d_probe(kind, uni, D)
    ops = []
    first_probe = rng.random() < 0.8          # caches of D exist before the foreign changes (or not)
    if first_probe:
        ops += probe
    n = rng.randint(1, 8)
    for _ in range(n):
        ops.append(foreign_op(rng, kind, uni, F, g))
        if rng.random() < 0.25:
            ops += probe
    ops += probe
    return rows, D, F, probe, ops


import casbin


def domain_like(a, b):
    """a ROLE-NAME matching function that relates no two distinct subject/role names of the universe but happens
    to relate the domain names d1/d2 (they look like patterns of each other): registering it must not couple the
    tenants"""
    return a == b or (len(a) == 2 and len(b) == 2 and a[0] == b[0] == "d" and a[1].isdigit() and b[1].isdigit())


class EnforcerWithRoleMatcher(casbin.Enforcer):
    def __init__(self, *a, **k):
        super().__init__(*a, **k)
        self.add_named_matching_func("g", domain_like)


def pdom_model_text(kind):
    """same model with the rule's domain handed to g(): g(r.sub, p.sub, p.dom) && r.dom == p.dom && ... (equivalent,
    since the conjunct r.dom == p.dom stands next to it)"""
    return kind.model_text().replace("g(r.sub, p.sub, r.dom)", "g(r.sub, p.sub, p.dom)")


VARIANTS = {
    "plain": {},
    "pdom": dict(model_text=None),                       # filled per kind
    "rolematcher": dict(enforcer_cls=EnforcerWithRoleMatcher),
}


def tenant_model_text(kind):
    """the same model with the domain column called "tenant" in the request and policy definitions (no token name is
    special to the matcher: r.tenant == p.tenant and g(r.sub, p.sub, r.tenant) say how the column is used)"""
    t = kind.model_text()
    assert "r.dom == p.dom" in t
    return t.replace("dom", "tenant")


def fast_kwargs(order):
    """a FastEnforcer whose rule index is keyed by the two given policy positions (same driver as C19 stratum C)"""
    from casbin.model.model_fast import FastModel
    order = list(order)
    return dict(enforcer_cls=casbin.FastEnforcer, enforcer_kwargs=dict(cache_key_order=order),
                model_factory=lambda: FastModel(order), sort_p=True)


# admissible index keys of the domain model p = sub, dom, obj, act: two distinct fields the matcher compares by
# equality with the same request position (dom = 1, obj = 2, act = 3; sub goes through g())
FAST_ORDERS = [(2, 1), (2, 3), (3, 1), (1, 2), (3, 2), (1, 3)]


def impl_kwargs_for(kind, variant):
    if variant == "pdom":
        return dict(model_text=pdom_model_text(kind))
    if variant == "tenant":
        return dict(model_text=tenant_model_text(kind))
    if variant.startswith("fast-"):
        return fast_kwargs([int(x) for x in variant[5:]])
    return dict(VARIANTS[variant])


def spec_check_factory(D, probe, impl_kwargs=None):
    plen = len(probe)
    impl_kwargs = impl_kwargs or {}

    def spec_check(kind, rows, lf, ops, obs, impl):
        out = []
        # (a) all probe blocks agree with the reference for the current policy restricted... with each other
        ref = None
        i = 0
        while i + plen <= len(ops):
            if list(ops[i:i + plen]) == list(probe):
                res = [o[0] for o in obs[i:i + plen]]
                if ref is None:
                    # reference: the same probe on an enforcer that never sees the foreign calls
                    refimpl, refobs = mgmt.run_impl(kind, rows, lf, probe, **impl_kwargs)
                    ref = [o[0] for o in refobs]
                for k in range(plen):
                    if res[k] != ref[k]:
                        out.append((i + k, "a query in domain D changed after calls that touch only other domains"))
                        return out
                # (b) scoped queries only mention D
                for k in range(plen):
                    op, r = probe[k], res[k]
                    if r[0] != 0:
                        continue
                    if op[0] in (70, 61, 64):
                        for rule in r[1]:
                            if rule[kind.i_dom] != D:
                                out.append((i + k, "a domain-scoped query reports a rule recorded for another domain"))
                                return out
                i += plen
            else:
                i += 1
        return out
    return spec_check


def scoped_roles_check(kind, rows, D, impl_obs_probe, probe):
    return []


def stratum_confusable_names(chk, n):
    """tenant, role and subject names that are prefixes / concatenations of each other ("admin"+"10" vs "admin1"+"0"):
    whatever text-level shortcut the implementation takes (keys built by joining names), a request in domain D must be
    decided by D's rules and assignments only.  Implementation-level SPEC: decision = exists rule of D whose subject is
    reachable from the request subject over D's assignments, for both ways of handing the domain to g()."""
    import casbin
    rng = chk.rng
    names = ["a", "ab", "b", "admin", "admin1", "1", "10", "0", "01"]
    doms = ["0", "10", "1", "00"]
    texts = {"r.dom": mgmt.KINDS["dom"].model_text(), "p.dom": pdom_model_text(mgmt.KINDS["dom"])}
    cnt = 0
    doms_digits = doms
    for i in range(n):
        how = "p.dom" if i % 2 else "r.dom"
        # tenants whose names differ only in letter case or surrounding blanks are DIFFERENT tenants
        doms = doms_digits if i % 4 < 2 else ["acme", "Acme", "acme ", "ACME"]
        m = casbin.Enforcer.new_model(text=texts[how])
        e = casbin.Enforcer(m)
        P, G = [], []
        for _ in range(rng.randint(1, 5)):
            r = [rng.choice(names), rng.choice(doms), "data", "read"]
            if r not in P:
                P.append(r)
                e.add_policy(*r)
        for _ in range(rng.randint(1, 5)):
            u, r_ = rng.sample(names, 2)
            g = [u, r_, rng.choice(doms)]
            if g not in G:
                G.append(g)
                e.add_grouping_policy(*g)
        cnt += 1
        chk.count(("confusable-names", how, repr(P), repr(G)))
        bad = None
        for s_ in names:
            for d in doms:
                edges = {(a, b) for a, b, dd in G if dd == d}
                reach, front = {s_}, [s_]
                while front:
                    x = front.pop()
                    for a, b in edges:
                        if a == x and b not in reach:
                            reach.add(b)
                            front.append(b)
                want = any(r[1] == d and r[0] in reach for r in P)
                got = bool(e.enforce(s_, d, "data", "read"))
                if got != want:
                    bad = (s_, d, got, want)
                    break
                wr = sorted(b for a, b in edges if a == s_)
                gr = sorted(e.get_roles_for_user_in_domain(s_, d))
                if gr != wr:
                    bad = (s_, d, gr, wr)
                    break
            if bad:
                break
        if bad:
            chk.spec_fail(dict(stratum="confusable-names", domain_handed_to_g_as=how, model=texts[how], policy=P, grouping=G,
                               request=[bad[0], bad[1], "data", "read"], observed_is="roles of the subject in that domain" if isinstance(bad[2], list) else "decision"),
                          bad[2], bad[3],
                          "a request in one domain is not decided by that domain's rules and assignments (names that are "
                          "prefixes / concatenations of each other)")
            break
    chk.extra.setdefault("strata", {})["confusable_names"] = cnt


# ----------------------------------------------------------------------------- state BUILT by management calls
# The strata above start from a loaded store and apply foreign calls with fresh random arguments.  Here the state
# before the foreign changes is itself the result of a management history over BOTH domains (rules added, removed
# and updated through the API, so that positions, indexes and caches have a past), the foreign calls aim at rules
# that ARE recorded for the foreign domain, and "anything recorded for other domains" also changes in the STORE:
# rows of the foreign domain written or deleted behind the enforcer's back followed by a reload - accepted, or
# refused because the foreign record is malformed or the adapter fails.  None of this touches a record of D.
PREFIX_W = dict(p_add=8, p_add_many=4, p_remove=2, p_remove_many=1, p_remove_filtered=1, p_update=1.5, p_update_many=1,
                p_update_filtered=0, g_add=5, g_add_many=2, g_remove=1, g_remove_many=0.5, g_remove_filtered=0.5, rbac=2,
                clear=0, load=0.5, save=0.5, build=0.3, flags=0, query=2, probe=0)


def _mentioned(kind, rows, ops, F):
    """p and g rules of domain F that the rows or an adding call of the prefix mention (targets of the foreign calls)"""
    ps, gs = [], []

    def see(pt, r):
        if pt == 0 and len(r) == kind.p_arity and r[kind.i_dom] == F and r not in ps:
            ps.append(list(r))
        if pt == 1 and len(r) == 3 and r[2] == F and r not in gs:
            gs.append(list(r))
    for pt, r in rows:
        see(pt, r)
    for op in ops:
        if op[0] == 1:
            see(op[1], op[2])
        elif op[0] == 2:
            for r in op[2]:
                see(op[1], r)
        elif op[0] == 6:
            see(0, op[2])
        elif op[0] == 7:
            for r in op[2]:
                see(0, r)
        elif op[0] == 13:
            see(0, [op[1]] + list(op[2]))
        elif op[0] == 19:
            see(1, [op[1], op[2], op[3]])
    return ps, gs


def foreign_ops_aimed(rng, kind, uni, F, ps, gs, store, n_rows, extra=()):
    """one foreign step (a list of ops): a management call aimed at what is recorded for F, or a store-side change
    of F followed by a reload.  extra: further call names ("p_upd_f" = update_filtered_policies naming F only)"""
    def p(known=0.6):
        if ps and rng.random() < known:
            return list(rng.choice(ps))
        r = uni.p_rule(rng)
        r[kind.i_dom] = F
        if r not in ps:
            ps.append(r)
        return r

    def g(known=0.6):
        if gs and rng.random() < known:
            return list(rng.choice(gs))
        r = uni.g_rule(rng)
        r[2] = F
        if r not in gs:
            gs.append(r)
        return r
    names = ["p_add", "p_add_many", "p_rm", "p_rm", "p_rm_many", "p_rm_f", "p_upd", "p_upd", "p_upd_many", "g_add", "g_add_many",
             "g_rm", "g_rm", "g_rm_many", "g_rm_f", "role_in_dom", "del_roles_in_dom", "perm", "q"]
    if store:
        names += ["st_add_p", "st_add_g", "st_del", "st_bad_g", "st_bad_g", "st_heal", "reload", "reload_fail"]
    names += list(extra)
    c = rng.choice(names)
    if c == "p_upd_f":
        # "replace what is recorded for F (for F and one object) by these rules of F"
        vs = [F] + ([rng.choice(uni.objs)] if rng.random() < 0.4 else [])
        new = []
        for _ in range(rng.randint(1, 3)):
            r = p(0.3)
            if len(vs) > 1:
                r[kind.i_obj] = vs[1]
            if r not in new:
                new.append(r)
        return [(8, new, kind.i_dom, vs)]
    if c == "p_add":
        return [(1, 0, p(0.2))]
    if c == "p_add_many":
        return [(2, 0, [p(0.2) for _ in range(rng.randint(1, 3))])]
    if c == "p_rm":
        return [(3, 0, p(0.85))]
    if c == "p_rm_many":
        return [(4, 0, [p(0.85) for _ in range(rng.randint(1, 2))])]
    if c == "p_rm_f":
        return [(5, 0, kind.i_dom, [F] + ([rng.choice(uni.objs)] if rng.random() < 0.7 else []))]
    if c == "p_upd":
        return [(6, p(0.85), p(0.15))]
    if c == "p_upd_many":
        k = rng.randint(1, 2)
        return [(7, [p(0.85) for _ in range(k)], [p(0.1) for _ in range(k)])]
    if c == "perm":
        r = p(0.5)
        return [(rng.choice([13, 14]), r[0], r[1:])]
    if c == "g_add":
        return [(1, 1, g(0.2))]
    if c == "g_add_many":
        return [(2, 1, [g(0.2) for _ in range(rng.randint(1, 3))])]
    if c == "g_rm":
        return [(3, 1, g(0.85))]
    if c == "g_rm_many":
        return [(4, 1, [g(0.85) for _ in range(rng.randint(1, 2))])]
    if c == "g_rm_f":
        return [(5, 1, 2, [F])] if rng.random() < 0.5 else [(5, 1, 0, [rng.choice(uni.subs), 0, F])]
    if c == "role_in_dom":
        r = g(0.3)
        return [(19, r[0], r[1], F)]
    if c == "del_roles_in_dom":
        r = g(0.8)
        return [(20, r[0], r[1], F)]
    pos = rng.randint(0, n_rows + 4)
    if c == "st_add_p":
        return [(40, 0, p(0.2), pos), (31,)]
    if c == "st_add_g":
        return [(40, 1, g(0.2), pos), (31,)]
    if c == "st_del":
        return [(41, 0, p(0.9)), (31,)] if rng.random() < 0.5 else [(41, 1, g(0.9)), (31,)]
    if c == "st_bad_g":
        # a role-assignment record of F with one column missing: the reload is refused while building the role links
        r = g(0.3)
        k = rng.randrange(3)
        return [(40, 1, r[:k] + r[k + 1:], pos), (31,)]
    if c == "st_heal":
        # every malformed record a st_bad_g step may have written is deleted again, then a reload
        return [(41, 1, list(t)) for t in sorted({tuple(r[:k] + r[k + 1:]) for r in gs for k in range(3)})][:12] + [(31,)]
    if c == "reload":
        return [(31,)]
    if c == "reload_fail":
        return [(32, rng.randint(0, n_rows + 2))]
    return [rng.choice([(50, [rng.choice(uni.subs), F, rng.choice(uni.objs), rng.choice(uni.acts)]),
                        (57, rng.choice(uni.subs), F), (60, rng.choice(uni.subs), F), (70, rng.choice(uni.subs), F)])]


def universe(kind, doms=None):
    uni = mgmt.Universe(kind)
    if doms:
        uni.doms = [A(d) if isinstance(d, str) else d for d in doms]
    return uni


def d_probe_ext(kind, uni, D):
    """the D-probe + the filtered getters asked for the domain column = D (p rules and role assignments)"""
    return d_probe(kind, uni, D) + [(53, 0, kind.i_dom, [D]), (53, 1, 2, [D])]


def make_case_built(rng, kind, store, doms=None, extra=(), ext_probe=False):
    uni = universe(kind, doms)
    if doms:
        D, F = (uni.doms[0], uni.doms[1]) if rng.random() < 0.5 else (uni.doms[1], uni.doms[0])
    else:
        D, F = (A("d1"), A("d2")) if rng.random() < 0.5 else (A("d2"), A("d1"))
    gen = mgmt.Gen(rng, kind, PREFIX_W)
    gen.uni = uni
    rows = gen.rows(rng.randint(1, 8))
    prefix = gen.history(rng.randint(2, 10), final_probe=False)
    probe = (d_probe_ext if ext_probe else d_probe)(kind, uni, D)
    ps, gs = _mentioned(kind, rows, prefix, F)
    ops = prefix + probe
    for _ in range(rng.randint(1, 8)):
        ops += foreign_ops_aimed(rng, kind, uni, F, ps, gs, store, len(rows), extra)
        if rng.random() < 0.3:
            ops += probe
    ops += probe
    return rows, D, F, probe, ops


def spec_check_built(D, probe, sort_rules=False):
    """every query of the D-probe that is repeated after the first complete probe block gives the result it gave in that
    block (everything behind the block touches only the other domain), and scoped queries only mention D.  Works on
    truncated and shrunk histories: the queries behind the block are looked up one by one."""
    plen = len(probe)
    keys = {repr(tuple(op)) for op in probe}

    def canon(op, res):
        if sort_rules and op[0] == 70 and res[0] == 0:
            return [0, sorted(res[1])]          # a FastEnforcer lists rules in index order, not in insertion order
        return res

    def spec_check(kind, rows, lf, ops, obs, impl):
        n = len(ops)
        # (b) wherever a scoped query of D occurs (also in a truncated first block)
        for i, op in enumerate(ops):
            res = obs[i][0]
            if op[0] in (70, 61, 64) and res[0] == 0 and repr(tuple(op)) in keys:
                for rule in res[1]:
                    if rule[kind.i_dom] != D:
                        return [(i, "a domain-scoped query reports a rule recorded for another domain")]
            if op[0] == 53 and res[0] == 0 and repr(tuple(op)) in keys:
                for rule in res[1]:
                    if len(rule) <= op[2] or rule[op[2]] != D:
                        return [(i, "a getter filtered by the domain column reports a rule recorded for another domain")]
        # (a)
        i0 = next((i for i in range(n - plen + 1) if list(ops[i:i + plen]) == list(probe)), None)
        if i0 is None:
            return []
        ref = {repr(tuple(op)): canon(op, obs[i0 + k][0]) for k, op in enumerate(probe)}
        for i in range(i0 + plen, n):
            op = ops[i]
            k = repr(tuple(op))
            if k in keys and canon(op, obs[i][0]) != ref[k]:
                return [(i, "a query in domain D changed after calls that touch only other domains")]
        return []
    return spec_check


def stratum_built(chk, kind, variant, n, store, label, doms=None, extra=(), ext_probe=False, case_fn=None):
    rng = chk.rng
    kw = impl_kwargs_for(kind, variant)
    with_model = variant in ("plain", "pdom", "rolematcher") and not store
    cases = []
    for _ in range(n):
        dd = doms(rng) if callable(doms) else doms
        rows, D, F, probe, ops = (case_fn or make_case_built)(rng, kind, store, dd, extra, ext_probe)
        sc = spec_check_built(D, probe, sort_rules=variant.startswith("fast-"))
        sc.case_extra = dict(variant=variant, layout="built", D=D, model_compared=with_model)
        if dd or ext_probe:
            sc.case_extra.update(doms=[mgmt.ATOMS.s(A(d) if isinstance(d, str) else d) for d in (dd or [])], ext_probe=ext_probe)
        cases.append((rows, True, ops, sc))
    mgmt.run_cases(chk, kind, cases, None, label=label, impl_kwargs=kw, compare_model=with_model,
                   key_fn=lambda k, r, o, v=variant: (k.name, v, "built", repr(r), repr([x for x in o if x[0] < 50])))
    chk.extra.setdefault("strata", {})[label.replace("-", "_")] = len(cases)


def run_built(chk, n):
    """n = size of the largest stratum"""
    dom = mgmt.KINDS["dom"]
    stratum_built(chk, dom, "plain", n, False, "built-dom")
    stratum_built(chk, dom, "plain", n, True, "built-store-dom")
    stratum_built(chk, mgmt.KINDS["dom_deny"], "plain", max(30, n // 3), True, "built-store-dom_deny")
    stratum_built(chk, dom, "tenant", max(40, n // 2), True, "built-store-dom-tenant")
    stratum_built(chk, dom, "pdom", max(30, n // 4), False, "built-dom-pdom")
    for o in FAST_ORDERS:
        v = "fast-%d%d" % o
        stratum_built(chk, dom, v, max(25, n // 4), False, f"built-dom-{v}")
    # the original layout (loaded store, fresh foreign arguments) on the new model variants
    rng = chk.rng
    for variant in ["tenant"] + ["fast-%d%d" % o for o in FAST_ORDERS[:3]]:
        kw = impl_kwargs_for(dom, variant)
        cases = []
        for _ in range(max(20, n // 5)):
            rows, D, F, probe, ops = make_case(rng, dom)
            sc = spec_check_built(D, probe, sort_rules=variant.startswith("fast-"))
            sc.case_extra = dict(variant=variant, layout="built", D=D, model_compared=False)
            cases.append((rows, True, probe + ops, sc))
        mgmt.run_cases(chk, dom, cases, None, label=f"foreign-dom-{variant}", impl_kwargs=kw, compare_model=False,
                       key_fn=lambda k, r, o, v=variant: (k.name, v, repr(r), repr([x for x in o if x[0] < 50])))
        chk.extra["strata"][f"foreign_dom_{variant.replace('-', '_')}"] = len(cases)


# tenant names of which one is contained in the other (prefix, suffix, infix, letter case): whatever text-level shortcut a
# getter, a filtered call or a key takes, they are different tenants.  Interned here so that atoms are the same in a replay.
TENANT_PAIRS = [("d1", "d10"), ("d1", "xd1"), ("d", "d1"), ("eu", "eu-west"), ("1", "10"), ("d1", "D1"), ("a.b", "a.b.c"),
                ("d1", "d2")]
for _a, _b in TENANT_PAIRS:
    A(_a), A(_b)
# explicit priorities + domains: p = priority, sub, dom, obj, act, eft ; e = priority(p_eft) || deny.  The universe's
# priorities 1, 2, 5, 10 have different digit counts: the order of D's own rules decides, and it is the numeric one.
DOM_PRIO = mgmt.Kind("dom_prio", dom=True, g=True, eft=True, prio=True, eff=3)
UPD_F = ("p_upd_f", "p_upd_f")


def run_tenants(chk, n):
    """built-state strata on (1) tenants whose names contain each other, with update_filtered_policies among the foreign
    calls and the filtered getters in the probe, (2) the explicit-priority model with domains"""
    dom = mgmt.KINDS["dom"]
    stratum_built(chk, dom, "plain", n, False, "built-dom-contained-tenant-names",
                  doms=lambda rng: rng.choice(TENANT_PAIRS), extra=UPD_F, ext_probe=True)
    stratum_built(chk, mgmt.KINDS["dom_deny"], "plain", max(20, n // 3), False, "built-dom_deny-contained-tenant-names",
                  doms=lambda rng: rng.choice(TENANT_PAIRS), extra=UPD_F, ext_probe=True)
    stratum_built(chk, DOM_PRIO, "plain", n, False, "built-dom_prio", extra=UPD_F, ext_probe=True)
    stratum_built(chk, DOM_PRIO, "plain", max(20, n // 3), True, "built-store-dom_prio")


# ----------------------------------------------------------------------------- unusual tenant names, matcher phases
# (1) A tenant is whatever string stands in the domain column: the EMPTY string and a name that looks like a pattern ("*",
# "d*") are tenants like any other.  (2) A domain matching function may be registered, replaced and taken away again in
# the middle of a history (add_named_domain_matching_func("g", fn | None)).  While a function fn is registered and
# fn(D, F) holds, what is recorded for F legitimately applies in D (that sentence is C14's) and D's queries are not
# judged here; in every other phase - no function, or a function that does not relate D to F (in particular: F is a
# concrete domain and D is the tenant literally called "*") - the isolation spec applies in full: EVERY query of D answers
# exactly like an enforcer that was given D's records only (same registrations, same calls of D, none of F's).
# D's own records also change in the middle (calls naming D only); calls and queries that take the domain as a FILTER
# value (remove_filtered_*, delete_roles_for_user_in_domain, get_permissions_for_user_in_domain,
# get_implicit_permissions_for_user) are left out for the tenant "" because the API documents "" as "any value" there.
NAME_PAIRS = [("", "d1"), ("*", "d1"), ("", "*"), ("d1", "d2"), ("d*", "d1"), ("d", "d1"), ("", "d1"), ("*", "d2")]
for _a, _b in NAME_PAIRS:
    A(_a), A(_b)
FILTER_CALLS = (5, 8, 20)
FILTER_QUERIES = (61, 70)


def name_probe(kind, uni, D, all_roles=True):
    ops = [o for o in d_probe(kind, uni, D) if not (D == 0 and o[0] in FILTER_QUERIES)]
    return ops + ([(72, D)] if all_roles else [])


def rule_tenant(kind, pt, r):
    i = kind.i_dom if pt == 0 else 2
    return r[i] if len(r) > i else None


def op_tenant(kind, op):
    """the one tenant a management call names (None: several / unknown)"""
    c = op[0]
    ts = None
    if c in (1, 3):
        ts = {rule_tenant(kind, op[1], op[2])}
    elif c in (2, 4):
        ts = {rule_tenant(kind, op[1], r) for r in op[2]}
    elif c == 6:
        ts = {rule_tenant(kind, 0, op[1]), rule_tenant(kind, 0, op[2])}
    elif c == 7:
        ts = {rule_tenant(kind, 0, r) for r in list(op[1]) + list(op[2])}
    elif c in (13, 14):
        ts = {rule_tenant(kind, 0, [op[1]] + list(op[2]))}
    elif c in (19, 20):
        ts = {op[3]}
    elif c == 5:
        i = kind.i_dom if op[1] == 0 else 2
        k = i - op[2]
        ts = {op[3][k]} if 0 <= k < len(op[3]) and op[3][k] != 0 else None
    if ts and len(ts) == 1 and None not in ts:
        return next(iter(ts))
    return None


def tenant_step(rng, kind, uni, T, ps, gs):
    """one management call (or query) naming the tenant T only"""
    while True:
        step = foreign_ops_aimed(rng, kind, uni, T, ps, gs, False, 0)
        if T == 0 and any(o[0] in FILTER_CALLS or o[0] in FILTER_QUERIES for o in step):
            continue
        if all(o[0] >= 50 or op_tenant(kind, o) == T for o in step):
            return step


def related(k, D, F):
    """does the registered function k file F's records under D's queries?"""
    fn = mgmt.DOMAIN_MATCHERS[k]
    if fn is None:
        return False
    try:
        return bool(fn(mgmt.ATOMS.s(D), mgmt.ATOMS.s(F)))
    except Exception:  # noqa
        return False


def make_case_names(rng, kind, with_fn, all_roles=True):
    pair = list(rng.choice(NAME_PAIRS))
    rng.shuffle(pair)
    uni = universe(kind, pair)
    D, F = uni.doms
    gen = mgmt.Gen(rng, kind)
    gen.uni = uni
    rows = gen.rows(rng.randint(3, 10))
    probe = name_probe(kind, uni, D, all_roles)
    psD, gsD = _mentioned(kind, rows, [], D)
    psF, gsF = _mentioned(kind, rows, [], F)
    ops = []
    k = 0
    if with_fn and rng.random() < 0.6:
        k = rng.choice([1, 1, 1, 3, 2])
        ops.append((43, k))
    if rng.random() < 0.8:
        ops += probe
    for _ in range(rng.randint(2, 9)):
        x = rng.random()
        if with_fn and x < 0.22:
            k = rng.choice([0, 0, 0, 1, 1, 2, 3] if k else [1, 1, 1, 3, 2])
            ops.append((43, k))
            if rng.random() < 0.5:
                ops += probe                                   # D's cache exists (again) before the next foreign change
        elif x < 0.8:
            ops += tenant_step(rng, kind, uni, F, psF, gsF)
        else:
            ops += tenant_step(rng, kind, uni, D, psD, gsD)
        if rng.random() < 0.35:
            ops += probe
    if with_fn and k and related(k, D, F) and rng.random() < 0.8:
        ops += probe + [(43, rng.choice([0, 0, 2]))]      # the function is taken away / replaced by one that relates nothing
    ops += probe
    return rows, D, F, probe, ops


def spec_check_names(D, F, probe, impl_kwargs=None):
    keys = {repr(tuple(op)) for op in probe}
    impl_kwargs = impl_kwargs or {}

    def spec_check(kind, rows, lf, ops, obs, impl):
        ref_rows = [(pt, r) for pt, r in rows if rule_tenant(kind, pt, r) == D]
        idx = [i for i, op in enumerate(ops)
               if op[0] == 43 or (op[0] >= 50 and repr(tuple(op)) in keys) or (op[0] < 50 and op_tenant(kind, op) == D)]
        _, ref_obs = mgmt.run_impl(kind, ref_rows, lf, [ops[i] for i in idx], **impl_kwargs)
        k = 0
        for j, i in enumerate(idx):
            op = ops[i]
            if op[0] == 43:
                k = op[1]
                continue
            if op[0] < 50 or related(k, D, F):
                continue
            res = obs[i][0]
            if op[0] in (70, 61, 64) and res[0] == 0:
                for rule in res[1]:
                    if rule[kind.i_dom] != D:
                        return [(i, "a domain-scoped query reports a rule recorded for another domain")]
            if res != ref_obs[j][0]:
                return [(i, "a query in domain D differs from an enforcer that was given D's records only (no domain matching "
                            "function relates D to the other tenant at this point)")]
        return []
    return spec_check


def stratum_names(chk, kind, n, with_fn, all_roles, label):
    rng = chk.rng
    with_model = not with_fn and not all_roles
    cases = []
    n_rel = n_fn = 0
    for _ in range(n):
        rows, D, F, probe, ops = make_case_names(rng, kind, with_fn, all_roles)
        sc = spec_check_names(D, F, probe)
        sc.case_extra = dict(variant="plain", layout="names", D=D, F=F, all_roles=all_roles, model_compared=with_model,
                             tenants=[mgmt.ATOMS.s(D), mgmt.ATOMS.s(F)])
        cases.append((rows, True, ops, sc))
        fns = [o[1] for o in ops if o[0] == 43]
        n_fn += 1 if any(fns) else 0
        n_rel += 1 if any(f and related(f, D, F) for f in fns) else 0
    mgmt.run_cases(chk, kind, cases, None, label=label, compare_model=with_model,
                   key_fn=lambda k, r, o: (k.name, label, repr(r), repr([x for x in o if x[0] < 50])))
    chk.extra.setdefault("strata", {})[label.replace("-", "_")] = (
        dict(histories=len(cases), with_a_function_registered=n_fn, function_relating_D_to_the_other_tenant_at_some_point=n_rel)
        if with_fn else len(cases))


def run_names(chk, n):
    dom = mgmt.KINDS["dom"]
    stratum_names(chk, dom, max(40, n // 3), False, False, "unusual-tenant-names-dom")
    stratum_names(chk, dom, max(40, n // 3), False, True, "unusual-tenant-names-dom-all-roles")
    stratum_names(chk, mgmt.KINDS["dom_deny"], max(30, n // 5), False, True, "unusual-tenant-names-dom_deny")
    stratum_names(chk, dom, max(80, (n * 3) // 5), True, True, "matcher-phases-dom")
    stratum_names(chk, mgmt.KINDS["dom_deny"], max(30, n // 5), True, True, "matcher-phases-dom_deny")


# ----------------------------------------------------------------------------- conditional role links with domains
# g = _, _, _, (_, _): a role assignment carries a domain AND parameters of a condition function registered per
# (user, role, domain) link (add_named_domain_link_condition_func); the ConditionalDomainManager keeps one conditional
# manager per domain and hands every registration / parameter record to all of them.  Implementation-level SPEC (the
# property, stated directly): after any interleaving of records of D and of the other domain - the SAME user -> role pair
# assigned in both with different parameters or different condition functions, parameters of foreign links changed
# later (set_named_domain_link_condition_func_params), foreign links deleted - every query of D answers exactly like
# an enforcer that was given D's records only, in the same order; and scoped queries of D list only D's rules.
C_NAMES = ["alice", "bob", "admin", "editor"]
C_OBJS, C_ACTS = ["data1", "data2"], ["read"]
C_PARAMS = {"flag": [["yes", "t1"], ["no", "t1"], ["yes", "t2"], ["no", "t2"]],
            "time": [["_", "_"], ["0001-01-01 00:00:00", "0001-01-02 00:00:00"], ["_", "9999-12-30 00:00:00"],
                     ["9999-12-30 00:00:00", "_"], ["0001-01-01 00:00:00", "9999-12-30 00:00:00"]]}


def _flag_ok(*params):
    return params[0] == "yes"


def _flag_not(*params):
    return params[0] != "yes"


def c_fn(name):
    from casbin import util
    return {"flag_ok": _flag_ok, "flag_not": _flag_not, "time": util.time_match_func}[name]


def c_model_text(how):
    kind = mgmt.KINDS["dom"]
    t = pdom_model_text(kind) if how == "p.dom" else kind.model_text()
    assert "g = _, _, _\n" in t
    return t.replace("g = _, _, _\n", "g = _, _, _, (_, _)\n")


def c_step_domain(st):
    return st[1][1] if st[0] in ("p+", "p-") else st[3]


def c_apply(e, st):
    c = st[0]
    try:
        if c == "p+":
            return bool(e.add_policy(*st[1]))
        if c == "p-":
            return bool(e.remove_policy(*st[1]))
        if c == "g+":
            ok = bool(e.add_grouping_policy(*st[1:6]))
            if ok and st[6]:
                e.add_named_domain_link_condition_func("g", st[1], st[2], st[3], c_fn(st[6]))
            return ok
        if c == "g-":
            return bool(e.remove_grouping_policy(*st[1:6]))
        if c == "par":
            e.set_named_domain_link_condition_func_params("g", st[1], st[2], st[3], st[4], st[5])
            return True
        if c == "fn":
            e.add_named_domain_link_condition_func("g", st[1], st[2], st[3], c_fn(st[4]))
            return True
        if c == "q":
            crm = e.cond_rm_map["g"]
            if st[1] == "enforce":
                return bool(e.enforce(st[2], st[3], st[4], st[5]))
            if st[1] == "has_link":
                return bool(crm.has_link(st[2], st[4], st[3]))
            if st[1] == "roles":
                return sorted(crm.get_roles(st[2], st[3]))
            return sorted(map(list, e.get_permissions_for_user_in_domain(st[2], st[3])))
    except Exception as exc:  # noqa
        return ["raises", type(exc).__name__]
    raise ValueError(st)


def c_probe(e, D):
    crm = e.cond_rm_map["g"]
    out = []

    def ask(label, f, srt=False):
        try:
            v = f()
            v = sorted(map(list, v)) if srt == "rules" else (sorted(v) if srt else v)
        except Exception as exc:  # noqa
            v = ["raises", type(exc).__name__]
        out.append([label, v])
    for s_ in C_NAMES:
        for o in C_OBJS:
            for a in C_ACTS:
                ask(["enforce", s_, D, o, a], lambda: bool(e.enforce(s_, D, o, a)))
    for u in C_NAMES:
        for r in C_NAMES:
            if u != r:
                ask(["cond_rm.has_link", u, r, D], lambda: bool(crm.has_link(u, r, D)))
        ask(["cond_rm.get_roles", u, D], lambda: crm.get_roles(u, D), True)
        ask(["cond_rm.get_users", u, D], lambda: crm.get_users(u, D), True)
        ask(["get_permissions_for_user_in_domain", u, D], lambda: e.get_permissions_for_user_in_domain(u, D), "rules")
    ask(["get_filtered_grouping_policy", 2, D], lambda: e.get_filtered_grouping_policy(2, D), "rules")
    ask(["get_filtered_policy", 1, D], lambda: e.get_filtered_policy(1, D), "rules")
    return out


def c_enforcer(how):
    return casbin.Enforcer(casbin.Enforcer.new_model(text=c_model_text(how)))


def c_eval(case):
    """-> None | (step, message, label of the query, got, want)"""
    how, D, script = case["domain_handed_to_g_as"], case["D"], case["script"]
    e = c_enforcer(how)
    ref = c_enforcer(how)
    for i, st in enumerate(script):
        if st[0] == "probe":
            got, want = c_probe(e, D), c_probe(ref, D)
            for (lab, g_), (_, w_) in zip(got, want):
                if g_ != w_:
                    return (i, "a query in domain D differs from an enforcer that holds D's records only (conditional role "
                               "links)", lab, g_, w_)
                if lab[0].startswith("get_") and isinstance(g_, list) and g_[:1] != ["raises"]:
                    k = 2 if lab[0] == "get_filtered_grouping_policy" else 1
                    if any(rule[k] != D for rule in g_):
                        return (i, "a domain-scoped query reports a rule recorded for another domain", lab, g_, None)
            continue
        if st[0] == "q":
            c_apply(e, st)             # queries in the other domain: they build its manager
            continue
        c_apply(e, st)
        if c_step_domain(st) == D:
            c_apply(ref, st)
    return None


def c_make(rng, i):
    how = "p.dom" if i % 3 == 2 else "r.dom"
    fk = "flag" if i % 2 else "time"
    fns = ["flag_ok", "flag_ok", "flag_not", None] if fk == "flag" else ["time", "time", "time", None]
    pair = list(rng.choice(TENANT_PAIRS))
    rng.shuffle(pair)
    D, F = pair
    links = {}            # (u, r, d) -> [p1, p2] stored
    prules = []
    script = []

    def p_rule(d):
        return [rng.choice(C_NAMES), d, rng.choice(C_OBJS), rng.choice(C_ACTS)]

    def step(d, foreign_only):
        x = rng.random()
        mine = [k for k in links if k[2] == d]
        if x < 0.22:
            r = p_rule(d)
            if r not in prules:
                prules.append(r)
                return ["p+", r]
        if x < 0.30 and any(r[1] == d for r in prules):
            r = rng.choice([r for r in prules if r[1] == d])
            prules.remove(r)
            return ["p-", r]
        if x < 0.62 or not mine:
            # half of the time the pair is one that the OTHER domain has assigned too
            other = [k for k in links if k[2] != d and (k[0], k[1], d) not in links]
            if other and rng.random() < 0.6:
                u, r_, _ = rng.choice(other)
            else:
                u, r_ = rng.sample(C_NAMES, 2)
            if (u, r_, d) in links:
                return None
            par = list(rng.choice(C_PARAMS[fk]))
            links[(u, r_, d)] = par
            return ["g+", u, r_, d, par[0], par[1], rng.choice(fns)]
        k = rng.choice(mine)
        if x < 0.74:
            par = links.pop(k)
            return ["g-", k[0], k[1], k[2], par[0], par[1]]
        if x < 0.86 and foreign_only:
            par = list(rng.choice(C_PARAMS[fk]))
            return ["par", k[0], k[1], k[2], par[0], par[1]]
        if x < 0.92 and foreign_only:
            return ["fn", k[0], k[1], k[2], rng.choice([f for f in fns if f])]
        return ["q", rng.choice(["enforce", "has_link", "roles", "perms"]), rng.choice(C_NAMES), d, rng.choice(C_NAMES + C_OBJS),
                rng.choice(C_ACTS)]
    # D first gets at least one assignment (its manager exists), then records of both domains interleave
    for _ in range(rng.randint(3, 12)):
        st = step(D if rng.random() < 0.5 else F, False)
        if st and not (st[0] == "q" and st[3] == D):
            script.append(st)
    script.append(["probe"])
    for _ in range(rng.randint(1, 6)):
        st = step(F, True)
        if st:
            script.append(st)
            if rng.random() < 0.3:
                script.append(["probe"])
    script.append(["probe"])
    return dict(stratum="conditional-domain", level="conditional", domain_handed_to_g_as=how, condition=fk, D=D, F=F,
                script=script)


def stratum_conditional(chk, n):
    rng = chk.rng
    cnt = shared = 0
    for i in range(n):
        case = c_make(rng, i)
        sc = case["script"]
        cnt += 1
        gl = [(st[1], st[2]) for st in sc if st[0] == "g+" and st[3] == case["D"]]
        if any(st[0] == "g+" and st[3] == case["F"] and (st[1], st[2]) in gl for st in sc):
            shared += 1
        chk.count(("conditional-domain", repr(sc)) if any(st[0] not in ("probe", "q") and c_step_domain(st) == case["F"]
                                                          for st in sc) else None)
        v = c_eval(case)
        if v is None:
            continue
        msg = v[1]

        def fails(cand, _msg=msg):
            w = c_eval(dict(case, script=cand))
            return w is not None and w[1] == _msg
        small = mgmt.shrink(sc[:v[0] + 1], fails)
        case = dict(case, script=small, model=c_model_text(case["domain_handed_to_g_as"]))
        w = c_eval(case) or v
        chk.spec_fail(dict(case, query=w[2]), w[3], w[4], msg, None)
        break
    chk.traces += cnt
    chk.extra.setdefault("strata", {})["conditional_domain"] = dict(histories=cnt, same_pair_assigned_in_both_domains=shared)


def run(chk, n):
    rng = chk.rng
    stratum_confusable_names(chk, max(60, n // 2))
    for kn in ("dom", "dom_deny"):
        kind = mgmt.KINDS[kn]
        cases = []
        for _ in range(n):
            rows, D, F, probe, ops = make_case(rng, kind)
            cases.append((rows, True, ops, spec_check_factory(D, probe)))
        mgmt.run_cases(chk, kind, cases, None, label=f"foreign-{kn}",
                       key_fn=lambda k, r, o: (k.name, repr(r), repr([x for x in o if x[0] < 50])))
        chk.extra.setdefault("strata", {})[f"foreign_{kn}"] = n
    # variants of the domain model: the rule's domain handed to g(); a role-name matching function registered
    kind = mgmt.KINDS["dom"]
    for variant in ("pdom", "rolematcher"):
        kw = impl_kwargs_for(kind, variant)
        cases = []
        for _ in range(max(40, n // 3)):
            rows, D, F, probe, ops = make_case(rng, kind)
            sc = spec_check_factory(D, probe, kw)
            sc.case_extra = dict(variant=variant)
            cases.append((rows, True, ops, sc))
        mgmt.run_cases(chk, kind, cases, None, label=f"foreign-dom-{variant}", impl_kwargs=kw,
                       key_fn=lambda k, r, o, v=variant: (k.name, v, repr(r), repr([x for x in o if x[0] < 50])))
        chk.extra["strata"][f"foreign_dom_{variant}"] = len(cases)
    run_built(chk, max(100, (n * 3) // 5))
    run_tenants(chk, max(60, n // 3))
    run_names(chk, n)
    stratum_conditional(chk, max(150, n))


def replay(chk):
    import json
    rec = json.load(open(chk.replay_file))
    c = rec.get("case") or {}
    if c.get("level") == "conditional":
        import sys
        v = c_eval(c)
        print("replay conditional-domain script:", json.dumps(c["script"]), "D =", c["D"])
        print("  spec violation on the implementation:", v)
        if v is not None:
            print(f"VIOLATION property={PROP} replay={chk.replay_file}")
            sys.exit(1)
        print("replay passes: every query of D answers like an enforcer that holds D's records only")
        sys.exit(0)
    if "ops" not in c:
        return mgmt.replay_case(chk, None)
    if c.get("layout") == "names":
        w = c["kind_wire"]
        kind = mgmt.Kind(c["kind"], *[bool(x) for x in w[:5]], eff=w[5], adapter=bool(w[6]), watcher=w[7])
        if not c.get("model_compared"):
            chk.oracle = None                # domain matching functions / get_all_roles_by_domain are outside the Mgmt model
        uni = universe(kind, [c["D"], c["F"]])
        probe = name_probe(kind, uni, c["D"], c.get("all_roles", True))
        return mgmt.replay_case(chk, spec_check_names(c["D"], c["F"], probe))
    if c.get("layout") == "built":
        w = c["kind_wire"]
        kind = mgmt.Kind(c["kind"], *[bool(x) for x in w[:5]], eff=w[5], adapter=bool(w[6]), watcher=w[7])
        variant = c.get("variant", "plain")
        if not c.get("model_compared"):
            chk.oracle = None                # store-side ops / index order / renamed column are outside the Mgmt model
        uni = universe(kind, c.get("doms") or None)
        probe = (d_probe_ext if c.get("ext_probe") else d_probe)(kind, uni, c["D"])
        return mgmt.replay_case(chk, spec_check_built(c["D"], probe, sort_rules=variant.startswith("fast-")),
                                impl_kwargs=impl_kwargs_for(kind, variant))
    # recover D and the probe from the recorded history: the probe is its maximal query suffix
    ops = [tuple(o) for o in c["ops"]]
    D = next((o[1][1] for o in ops if o[0] == 50), A("d1"))
    w = c["kind_wire"]
    kind = mgmt.Kind(c["kind"], *[bool(x) for x in w[:5]], eff=w[5], adapter=bool(w[6]), watcher=w[7])
    probe = d_probe(kind, mgmt.Universe(kind), D)
    # the shrunk history may have lost probe ops; rebuild: mutating ops followed by the full probe
    mut = [o for o in ops if o[0] < 50]
    c["ops"] = [list(o) for o in (probe + mut + probe)]
    import tempfile, os
    f = tempfile.NamedTemporaryFile("w", suffix=".json", delete=False)
    json.dump(rec, f)
    f.close()
    chk.replay_file = f.name
    kw = impl_kwargs_for(kind, c.get("variant", "plain"))
    try:
        return mgmt.replay_case(chk, spec_check_factory(D, probe, kw), impl_kwargs=kw)
    finally:
        os.unlink(f.name)


def main():
    chk = Check(PROP)
    chk.rule = ("two-domain policies (random rows over 4 subjects x 2 domains x 2 objects x 2 actions, up to 10 rows); a probe "
                "of domain D (all requests of D, role queries, domain-scoped queries) optionally before, always after a "
                "random sequence of 1..8 management calls touching only the other domain (single/batch/filtered/update "
                "for p and g, add/delete_roles_for_user_in_domain, queries in the other domain); reference = the same "
                "probe on an enforcer that never saw the foreign calls; non-trivial = at least one foreign mutating "
                "call; distinct by (rows, foreign calls)")
    chk.rule += ("; the same on two variants of the domain model: the rule's domain handed to g() (g(r.sub,p.sub,p.dom)), and "
                 "a role-name matching function registered that relates no two role names but the domain names")
    chk.rule += ("; built-state strata: the state before the foreign calls is the result of a management history over both "
                 "domains (API adds/removes/updates), the foreign calls aim at rules recorded for the other domain, and the "
                 "other domain also changes in the store (rows written/deleted out of band, then a reload that is accepted, "
                 "or refused because the foreign record lacks a column or the adapter fails); run on the plain Enforcer, on "
                 "a model whose domain column is called 'tenant', and on a FastEnforcer under every admissible index key "
                 "order; every D-query repeated after the first probe block must repeat its result")
    chk.rule += ("; the built-state layout also on tenants whose names contain each other (update_filtered_policies naming the "
                 "other tenant among the foreign calls, getters filtered by the domain column in the probe) and on the "
                 "explicit-priority model with domains; conditional role links with domains (g = _, _, _, (_, _)): scripts "
                 "interleaving records of D and of the other domain (same user -> role pair in both, different parameters / "
                 "condition functions, later parameter changes), every query of D compared with an enforcer that holds D's "
                 "records only")
    chk.rule += ("; tenants with unusual names (the empty string, '*', 'd*', one a prefix of the other) and a domain matching "
                 "function (key_match, prefix, exact) registered, replaced and taken away in the middle of the history, "
                 "interleaved with calls naming the other tenant only, calls naming D only and D-probes (incl. "
                 "get_all_roles_by_domain): wherever no registered function relates D to the other tenant, every query of D "
                 "is compared with an enforcer that was given D's records only")
    chk.assumptions = ["while a registered domain-matching function fn relates D to the other tenant (fn(D, F) holds), D's queries "
                       "are not judged (what a domain pattern grants is C14); in every other phase - no function, a function "
                       "that does not relate D to F, after the function was taken away - the isolation spec applies",
                       "for the tenant whose name is the empty string, calls and queries that take the domain as a FILTER value "
                       "(remove_filtered_*, delete_roles_for_user_in_domain, get_permissions_for_user_in_domain, "
                       "get_implicit_permissions_for_user) are left out: the API documents '' as 'any value' there",
                       "calls that are not domain-scoped by construction (delete_user, delete_role, clear_policy) are not 'calls "
                       "touching only other domains'"]
    chk.trusted = ["hand-written models coq/theories/{Policy,RoleGraph,Mgmt}.v tied by the differential history correspondence"]
    chk.build(oracle_name="Mgmt")
    if chk.replay_file:
        return replay(chk)
    if chk.tier == "thorough":
        run(chk, 2500)
    else:
        run(chk, 250)
        if (chk.broken() or chk.anchor_changed) and not chk.spec_failures:
            run(chk, 1000)
    chk.finish()


if __name__ == "__main__":
    main()
