"""C06 — policy management behaves as operations on a duplicate-free ordered rule set.
Proof: Props/C06.v (refinement of policy.py's list code to an abstract ordered set, by induction over
histories).  Correspondence: management histories on the real Enforcer vs the Mgmt model; the set
semantics (harness/specs.py) evaluated on the implementation's own observations after every call."""
import itertools

from ..core import Check
from .. import mgmt
from ..specs import ordered_set_history, stores

PROP = "C06"
W = dict(p_update_filtered=0, probe=0, query=5, load=0.7, save=0.5, clear=0, build=0.2, long_g=0.15, alias_remove=0.6)  # clear_policy leaves the adapter untouched: a later reload is outside C06


def spec_check(kind, rows, lf, ops, obs, impl):
    init = {0: [], 1: [], 2: []}
    if lf:
        for pt, r in rows:
            init[pt].append(r)
    # histories containing reload / clear are cut at that point for the step-wise set semantics
    out = []
    cur_ops, cur_obs, cur_init = [], [], init
    for op, o in zip(ops, obs):
        if op[0] in (30, 31, 32, 33, 34, 35, 36, 37, 38, 8):
            out.extend(ordered_set_history(kind, rows, cur_ops, cur_obs, cur_init, prio_on=kind.prio))
            base = len(cur_ops)
            cur_ops, cur_obs, cur_init = [], [], stores(o)
            # renumber lazily: indices are only used to cut the history, keep them relative to the segment start
            continue
        cur_ops.append(op)
        cur_obs.append(o)
    seg = ordered_set_history(kind, rows, cur_ops, cur_obs, cur_init, prio_on=kind.prio)
    out.extend(seg)
    # map segment-relative indices back to absolute ones (needed for truncation before shrinking)
    if out:
        # recompute absolutely: walk again and find the first violating absolute step
        cur = init
        seg_ops, seg_obs, seg_start = [], [], 0
        for i, (op, o) in enumerate(zip(ops, obs)):
            if op[0] in (30, 31, 32, 33, 34, 35, 36, 37, 38, 8):
                v = ordered_set_history(kind, rows, seg_ops, seg_obs, cur, prio_on=kind.prio)
                if v:
                    return [(seg_start + v[0][0], v[0][1])]
                cur, seg_ops, seg_obs, seg_start = stores(o), [], [], i + 1
                continue
            seg_ops.append(op)
            seg_obs.append(o)
        v = ordered_set_history(kind, rows, seg_ops, seg_obs, cur, prio_on=kind.prio)
        if v:
            return [(seg_start + v[0][0], v[0][1])]
    return []


def exhaustive_cases(kind, maxlen):
    """all histories up to maxlen over a small concrete op alphabet on a 2-rule universe"""
    A = mgmt.ATOMS.a
    r1 = [A("alice"), A("data1"), A("read")]
    r2 = [A("bob"), A("data1"), A("read")]
    alpha = [(1, 0, r1), (1, 0, r2), (3, 0, r1), (3, 0, r2), (2, 0, [r1, r2]), (2, 0, [r1, r1]), (2, 0, [r2]),
             (4, 0, [r1, r2]), (4, 0, [r2, r2]), (4, 0, [r1]), (5, 0, 1, [A("data1")]), (5, 0, 0, [A("bob"), 0]),
             (6, r1, r2), (6, r2, r1), (6, r1, r1), (7, [r1, r2], [r2, r1]), (7, [r1], [r2])]
    for n in range(1, maxlen + 1):
        for seq in itertools.product(alpha, repeat=n):
            yield ([], False, list(seq) + [(52, 0)])


def positional_cases(maxlen):
    """positions move: all sequences up to maxlen over single add / remove / update-to-a-fresh-rule of three rules, on
    a store that already holds two loaded rules - an update must replace ITS rule wherever that rule now stands"""
    A = mgmt.ATOMS.a
    base = [(0, [A("carol"), A("data2"), A("write")]), (0, [A("admin"), A("data2"), A("read")])]
    rs = [[A("alice"), A("data1"), A("read")], [A("bob"), A("data1"), A("read")], [A("carol"), A("data1"), A("read")]]
    fresh = [[A("alice"), A("data2"), A("write")], [A("bob"), A("data2"), A("write")]]
    alpha = [(1, 0, r) for r in rs] + [(3, 0, r) for r in rs[:2]] + [(3, 0, base[0][1])] + \
            [(6, rs[0], fresh[0]), (6, rs[1], fresh[1]), (6, base[1][1], fresh[0])]
    for n in range(2, maxlen + 1):
        for seq in itertools.product(alpha, repeat=n):
            if sum(1 for o in seq if o[0] == 6) >= 1 and sum(1 for o in seq if o[0] == 3) >= 1:
                yield (base, True, list(seq) + [(52, 0)])


def run(chk, n_random, exh_len):
    rng = chk.rng
    pc = list(positional_cases(4))
    mgmt.run_cases(chk, mgmt.KINDS["acl"], pc, spec_check, label="positional-len<=4")
    chk.extra.setdefault("strata", {})["positional_acl_len<=4"] = len(pc)
    kinds = ["acl", "rbac", "dom", "rbac_res", "acl_deny"]
    ex = list(exhaustive_cases(mgmt.KINDS["acl"], exh_len))
    mgmt.run_cases(chk, mgmt.KINDS["acl"].with_(adapter=False), ex, spec_check, label=f"exhaustive-len<={exh_len}")
    chk.extra.setdefault("strata", {})[f"exhaustive_acl_len<={exh_len}"] = len(ex)
    chk.exhaustive = True
    for kn in kinds:
        cases = []
        for _ in range(n_random):
            kind = mgmt.KINDS[kn].with_(adapter=rng.random() < 0.7)
            g = mgmt.Gen(rng, kind, W)
            rows = g.rows(rng.randint(0, 6))
            # over-long grouping rules are generated, but never two rules sharing their declared-arity prefix (they
            # map to one role link: known finding C04/overlong-rules-share-a-link, probed by the C04 check)
            cases.append((kind, rows, True, mgmt.drop_prefix_aliases(kind, rows, g.history(rng.randint(3, 16), final_probe=False))))
        for adapter in (True, False):
            sub = [(r, lf, o) for k, r, lf, o in cases if k.adapter == adapter]
            mgmt.run_cases(chk, mgmt.KINDS[kn].with_(adapter=adapter), sub, spec_check, label=f"random-{kn}")
        chk.extra["strata"][f"random_{kn}"] = len(cases)


def main():
    chk = Check(PROP)
    chk.rule = ("management histories (add/remove/update, batch and filtered forms, RBAC-API wrappers, for p, g, g2) with "
                "arguments biased to repeats / one-field neighbours / absent rules, batches with internal duplicates and "
                "partly present sets; exhaustive over a 17-op alphabet on a 2-rule universe up to the stated length, "
                "plus random histories on ACL/RBAC/domain/resource-role models; non-trivial = contains at least one "
                "mutating call; distinct by (model kind, sequence of mutating calls)")
    chk.assumptions = [
        "priority-ordered insertion is C07; here only set-ness and membership are checked for priority models",
        "a filter that reaches past the end of a rule raises IndexError in the code; such calls are outside the property",
        "update to an already present rule: the property is silent; the (repaired) code refuses, the spec only demands "
        "duplicate-freeness and all-or-nothing there",
    ]
    chk.trusted = ["hand-written model coq/theories/Policy.v + Mgmt.v tied by the differential history correspondence"]
    chk.build(oracle_name="Mgmt")
    if chk.replay_file:
        return mgmt.replay_case(chk, spec_check)
    if chk.tier == "thorough":
        run(chk, 1500, 3)
    else:
        run(chk, 150, 2)
        if (chk.broken() or chk.anchor_changed) and not chk.spec_failures:
            chk.notes.append("escalated after a broken proof/correspondence")
            run(chk, 800, 3)
    chk.finish()


if __name__ == "__main__":
    main()
